"""Shared by C03/C07: sessions of the real LZ4F compression API (ctypes, ASan, exact-size buffers),
the same sessions on the extracted model Model/FrameC.v (oracle "framec") with the block tape
recovered from the C output, and the direct oracles (spec frame decoder / frame audit / real
LZ4F_decompress under chunkings)."""
import random, hashlib, ctypes, collections
from ctypes import c_size_t, c_void_p, byref
import gens
from capi import Lib, Buf, Prefs, COpts, DOpts, libc
from vlib import hx, md5

U64 = 1 << 64
BSIZE = {0: 65536, 4: 65536, 5: 262144, 6: 1048576, 7: 4194304}
ERRNAME = {20: "compressionState_uninitialized", 14: "frameSize_wrong", 11: "dstMaxSize_tooSmall"}
BAD_BSID = [1, 2, 3, 3, 8, 9, 12, 100, -1, 65536]
def bsid_ok(b):
    return b in (0, 4, 5, 6, 7)
PREF_KEYS = ["bsid", "blockMode", "ccrc", "contentSize", "dictID", "bcrc", "level", "autoFlush", "favorDec"]

# ------------------------------------------------------------------ generation
def gen_prefs(rng, tier, force=None):
    r = rng.random()
    if tier == "thorough":
        bsid = rng.choice([0, 4, 4, 5, 5, 6, 7])
    else:
        bsid = 4 if r < 0.55 else rng.choice([0, 0, 4, 5, 5, 6, 7])
    p = {"bsid": bsid,
         "blockMode": rng.choice([0, 0, 1]),
         "ccrc": rng.choice([0, 1]),
         "contentSize": 0,                      # filled by the session generator: 0, exact or wrong
         "dictID": rng.choice([0, 0, 1, 0x12345678, 0xFFFFFFFF]),
         "bcrc": rng.choice([0, 1]),
         "level": rng.choice([-3, -1, 0, 0, 1, 1, 1, 2, 3, 3, 4, 6, 9, 10, 12] if tier != "thorough" else list(range(-3, 13))),
         "autoFlush": rng.choice([0, 0, 1]),
         "favorDec": rng.choice([0, 0, 1])}
    if rng.random() < 0.05:
        p["bsid"] = rng.choice(BAD_BSID)       # outside the enum: compressBegin*/compressFrame* must refuse (F15)
    if force:
        p.update(force)
    return p

def pstr(p):
    return "null" if p is None else ",".join(str(p[k]) for k in PREF_KEYS)

def cprefs(p, sane=False):
    """ctypes preferences; sane=True replaces an invalid block size id by the largest valid one (used only to size buffers)"""
    if p is None:
        return None
    if sane and not bsid_ok(p["bsid"]):
        p = dict(p, bsid=7)
    q = Prefs()
    q.blockSizeID = p["bsid"]; q.blockMode = p["blockMode"]; q.contentChecksumFlag = p["ccrc"]
    q.contentSize = p["contentSize"]; q.dictID = p["dictID"]; q.blockChecksumFlag = p["bcrc"]
    q.compressionLevel = p["level"]; q.autoFlush = p["autoFlush"]; q.favorDecSpeed = p["favorDec"]
    return q

LIGHT_KINDS = ["period", "runs", "zerorich", "incompressible_tail", "barely", "random", "longmatch", "farcopy", "farcopy", "drift", "drift", "drift"]
HEAVY_KINDS = ["selfdict", "text", "mixed", "twosym"]      # many short far matches: the list-based spec decoder costs O(offset) per match
DICT_SIZES = [0, 1, 7, 8, 100, 4000, 65535, 65536, 70000, 100000]

def farcopy(rng, n):
    """long copies from 40000..65535 bytes back (and a few from beyond the window) between short random stretches:
    content that is only decodable with the full 64 KB history"""
    out = bytearray(rng.randbytes(min(n, rng.choice([100, 5000, 66000]))))
    while len(out) < n:
        if rng.random() < 0.35 or len(out) < 300:
            out += rng.randbytes(rng.randrange(1, 300))
        else:
            d = rng.choice([rng.randrange(40000, 65536), 65535, 65534, 65536, 65537, rng.randrange(1, 70000)])
            d = min(d, len(out))
            l = rng.randrange(100, 3000)
            s = len(out) - d
            for i in range(l):
                out.append(out[s + i])
    return bytes(out[:n])

def drift(rng, n, P):
    """X[g] = X[g-P] except at ~0.5% of the positions: every stretch is found one period back, and a
    compressor that reads a history buffer the caller has since overwritten emits matches over the
    changed bytes (see CSession.src_buffer, mode fresh_overwrite)"""
    out = bytearray(rng.randbytes(min(n, P)))
    while len(out) < n:
        out += out[len(out) - P:len(out) - P + min(P, n - len(out))]
    out = out[:n]
    for _ in range(n // 200 + 1):
        if n > P:
            g = rng.randrange(P, n)
            out[g] = (out[g] + 1 + rng.randrange(255)) & 0xFF
            # keep later periods consistent with the change (so that the change itself is compressible later)
            h = g + P
            while h < n and rng.random() < 0.7:
                out[h] = out[g]; h += P
    return bytes(out)

def gen_material(rng, n, dlen, tier="quick", force_kind=None):
    """dictionary ++ content drawn from one stream so that the content refers to the dictionary
    and to itself up to (and beyond) 64 KB back"""
    if force_kind:
        kind = force_kind
    elif n + dlen <= 40000 or (n + dlen <= 150000 and rng.random() < 0.05):
        kind = rng.choice(LIGHT_KINDS + HEAVY_KINDS)
    else:
        kind = rng.choice(LIGHT_KINDS)      # the list-based spec decoder is O(offset) per match: keep big inputs to few/near matches
    if kind == "period":
        pat = rng.randbytes(rng.choice([3, 17, 255, 4096, 30000, 65535, 65536, 65537, 70000]))
        big = (pat * ((n + dlen) // len(pat) + 1))[:n + dlen]
    elif kind == "farcopy":
        big = farcopy(rng, n + dlen)
    elif kind == "drift":
        period = rng.choice([100, 1000, 4096, 20000, 65535] if not force_kind else [100, 1000, 4096])
        return kind, *(lambda b: (b[:dlen], b[dlen:]))(drift(rng, n + dlen, period)), period
    else:
        big = gens.data(rng, kind, n + dlen)
    big = bytearray(big)
    if n + dlen > 20000 and rng.random() < 0.4:
        # an incompressible stretch inside an otherwise compressible stream
        a = rng.randrange(dlen, n + dlen) if n > 0 else dlen
        l = min(n + dlen - a, rng.choice([100, 5000, 65536, 70000]))
        big[a:a + l] = rng.randbytes(l)
    return kind, bytes(big[:dlen]), bytes(big[dlen:]), None

def split_script(rng, kind, n, bs, indep, autoflush):
    """list of ('u'|'n'|'f', size): compressUpdate / uncompressedUpdate / flush, sizes sum to n"""
    ops = []
    left = n
    def take(k):
        nonlocal left
        k = max(0, min(k, left)); left -= k; return k
    if kind == "tmpfull":
        a = rng.choice([1, 2, 100, bs // 2, bs - 2, bs - 1])
        for s in rng.choice([[a, bs - a], [a, bs - a - 1, 1], [a, bs - a + 1], [bs - 1, 1, 1], [a, bs - a, bs], [1, bs - 1, bs - 1, 1]]):
            ops.append(("u", take(s)))
    elif kind == "kblocks":
        for _ in range(rng.choice([1, 2, 3])):
            ops.append(("u", take(rng.choice([1, 2, 3]) * bs + rng.choice([-1, 0, 1]))))
    elif kind == "flushes":
        for _ in range(rng.choice([2, 4, 7])):
            ops.append(("u", take(rng.choice([0, 1, bs - 1, bs, bs + 1, 5, 1000]))))
            ops.append(("f", 0))
            if rng.random() < 0.3:
                ops.append(("f", 0))
    elif kind == "switch":
        for _ in range(rng.choice([3, 5, 8])):
            ops.append((rng.choice("un") if indep else "u", take(rng.choice([0, 1, 10, 1000, bs - 1, bs, bs + 7, bs // 3]))))
            if rng.random() < 0.2:
                ops.append(("f", 0))
    elif kind == "zeros":
        for _ in range(rng.choice([3, 6])):
            ops.append(("u", 0))
            ops.append(("u", take(rng.choice([0, 1, 13, 5000, bs]))))
            if rng.random() < 0.3:
                ops.append(("f", 0))
    elif kind == "flushwalk":
        step = rng.choice([1000, 4000, 9000, 30000])
        while left > 0 and len(ops) < 400:
            ops.append(("u", take(step + rng.randrange(0, 50))))
            if rng.random() < 0.8:
                ops.append(("f", 0))
    elif kind == "volatile":
        # blocks taken directly from a source that does not survive the call: the 64 KB history must have been saved
        while left > 0 and len(ops) < 60:
            ops.append(("u", take(rng.choice([3000, 9000, 20000]) + rng.randrange(0, 100)) if autoflush
                        else take(rng.choice([bs, bs + 100, 2 * bs + 5000, 70000]))))
            if rng.random() < 0.2:
                ops.append(("f", 0))
    elif kind == "indep":
        # many small blocks of mutually redundant content: each must stand alone (plus the dictionary)
        while left > 0 and len(ops) < 80:
            ops.append(("u", take(rng.choice([500, 2000, 6000]) + rng.randrange(0, 50))))
            if not autoflush or rng.random() < 0.1:
                ops.append(("f", 0))
    elif kind == "smallsteps":
        step = rng.choice([1, 7, 100, 3000, 20000])
        while left > 0 and len(ops) < 300:
            ops.append(("u", take(rng.randrange(0, 2 * step + 1))))
    else:  # random
        while left > 0 and len(ops) < 40:
            r = rng.random()
            if r < 0.15:
                ops.append(("f", 0))
            else:
                s = rng.choice([0, 1, rng.randrange(0, 300), rng.randrange(0, 70000), bs - 1, bs, bs + 1, rng.randrange(0, 3 * bs)])
                ops.append((("n" if (indep and rng.random() < 0.2) else "u"), take(s)))
    if left > 0:
        ops.append(("u", take(left)))
    if not indep:
        ops = [("u", s) if o == "n" else (o, s) for o, s in ops]
    return ops

SCRIPT_KINDS = ["tmpfull", "kblocks", "flushes", "switch", "zeros", "flushwalk", "smallsteps", "random", "volatile", "indep"]
SRC_MODES = ["fresh_free", "fresh_overwrite", "fresh_overwrite", "same_buffer", "slices_stable", "slices_unstable", "fresh_keep_stable"]

def equal_size_input(rng, L):
    """an input whose LZ4 block (fast, acceleration 1, no history) has exactly the size of the input:
    the producer must store it uncompressed (the format wants compressed blocks to be smaller).
    Shape: random head, a run (one match), random tail; the run length moves the balance by one byte per
    step once the match exists, the tail length by one byte at each literal-length extension (15, 270, ...)."""
    def csize(data):
        src = Buf(0, data=data); dst = Buf(L.compressBound(len(data)))
        r = L.compress_default(src.p, dst.p, len(data), dst.n)
        src.free(); dst.free()
        return r
    for _ in range(20):
        m = rng.choice([20, 100, 300, 1000, 3000])
        head = rng.randbytes(m)
        tails = [rng.randbytes(t) for t in (6, 15, 270, 525, 780)]
        for k in range(5, 60):
            body = head + bytes([head[-1]]) * k
            d0 = csize(body + tails[0]) - (len(body) + 6)
            if d0 > 0:
                continue
            if d0 < -4:
                break
            for tl in tails:
                data = body + tl
                if csize(data) == len(data):
                    return data
    return None

def gen_frame_equalsize(rng, tier, L):
    data = equal_size_input(rng, L)
    if data is None:
        return None
    p = gen_prefs(rng, tier, {"level": rng.choice([0, 1]), "bsid": rng.choice([0, 4, 5]), "contentSize": 0})
    script = [("u", len(data))] + ([("f", 0)] if rng.random() < 0.5 else [])
    return {"prefs": p, "dk": "n", "dict": b"", "X": data, "script": script, "kind": "equalsize", "data": "equalsize",
            "srcmode": rng.choice(SRC_MODES), "nullprefs": False, "period": None}

# ---- one cctx reused over several frames with every transition of (level class, dictionary kind, block mode)
REUSE_SYMS = [(lc, dk) for lc in "HF" for dk in "ndc"]       # H: level >= LZ4HC_CLEVEL_MIN (lz4hc context), F: fast

def reuse_cycle():
    """a cyclic sequence over REUSE_SYMS in which every ordered pair (incl. repeats) occurs exactly once (Eulerian circuit)"""
    n = len(REUSE_SYMS)
    nxt = [0] * n
    stack, out = [0], []
    while stack:
        v = stack[-1]
        if nxt[v] < n:
            w = (v + 1 + nxt[v]) % n
            nxt[v] += 1
            stack.append(w)
        else:
            out.append(stack.pop())
    return out[::-1][:-1]            # n*n symbols
REUSE_CYCLE = reuse_cycle()

def drift_from(rng, base, n):
    """n bytes: base repeated, ~0.5% of the bytes changed"""
    out = bytearray((base * (n // len(base) + 1))[:n])
    for _ in range(n // 200 + 1):
        if n:
            out[rng.randrange(n)] = rng.randrange(256)
    return bytes(out)

def gen_reuse_session(rng, tier, idx):
    """4 frames for one cctx.  Frame j has a theme (a short random pattern); its dictionary is drawn from its own theme,
    its input alternates between its own theme and the PREVIOUS frame's theme: a context that still refers to anything
    of the previous session (its CDict, its loaded dictionary, its hash tables) finds matches there, which the decoder,
    given only this frame's dictionary, cannot resolve."""
    nsym = len(REUSE_CYCLE)
    start = (3 * idx) % nsym
    syms = [REUSE_SYMS[REUSE_CYCLE[(start + j) % nsym]] for j in range(4)]
    npass = idx // (nsym // 3)                   # 12 sessions walk the whole cycle; the next 12 repeat it with the block modes flipped
    frames = []
    prev_base = None
    for j, (lc, dk) in enumerate(syms):
        p = gen_prefs(rng, tier, {"bsid": rng.choice([0, 4]), "level": rng.choice([2, 3, 4, 6, 9, 10, 12] if lc == "H" else [-3, -1, 0, 1]),
                                  "blockMode": (j + idx + npass) & 1})
        base = rng.randbytes(rng.choice([300, 1000, 4096]))
        dlen = rng.choice([4096, 20000, 65536, 65536]) if dk != "n" else 0
        if dk == "d" and p["blockMode"] == 0:
            dlen = 65536            # a full window loaded into the stream at Begin: the case in which a mis-initialised stream matters most
        # dictionary = incompressible front part (fills every hash table it is digested into) ++ theme part (what the input matches)
        m = min(dlen, max(2048, dlen // 8))
        dic = rng.randbytes(dlen - m) + drift_from(rng, base, m)
        n = rng.choice([20000, 50000, 90000])
        X = bytearray()
        turn = 0
        while len(X) < n:
            b = base if (turn % 2 == 0 or prev_base is None) else prev_base
            X += drift_from(rng, b, rng.randrange(500, 3000))
            turn += 1
        X = bytes(X[:n])
        indep = p["blockMode"] == 1
        script = split_script(rng, rng.choice(["flushes", "random", "indep", "smallsteps", "kblocks"]), n, 65536, indep, p["autoFlush"])
        total = sum(sz for o, sz in script)
        X = X[:total]
        p["contentSize"] = total if rng.random() < 0.3 else 0
        frames.append({"prefs": p, "dk": dk, "dict": dic, "X": X, "script": script, "kind": "reuse", "data": "themes",
                       "srcmode": rng.choice(SRC_MODES), "nullprefs": False, "period": None,
                       "unfinished": j < 3 and rng.random() < 0.25, "sym": lc + dk + ("i" if indep else "l")})
        prev_base = base
    return frames

def gen_frame(rng, tier, big=False, force_dk=None):
    """one streaming frame: prefs, dictionary kind, op script with data (force_dk: list of dictionary kinds to draw from,
    with dictionary sizes weighted towards > 64 KB - used by C12's LZ4F dictionary cases)"""
    p = gen_prefs(rng, tier)
    bs = BSIZE.get(p["bsid"], 65536)
    kind = rng.choice(SCRIPT_KINDS)
    if kind == "switch":
        p["blockMode"] = 1
        p["autoFlush"] = rng.choice([0, 0, 0, 1])
    if kind in ("tmpfull", "flushwalk", "smallsteps"):
        p["autoFlush"] = rng.choice([0, 0, 0, 1])
    if kind == "indep":
        p["blockMode"] = 1
        if not big:
            p["bsid"] = rng.choice([0, 4]); bs = 65536
    if kind == "volatile":
        p["blockMode"] = 0
        p["autoFlush"] = rng.choice([1, 1, 0])
        if not big:
            p["bsid"] = rng.choice([0, 4, 4, 5]); bs = BSIZE[p["bsid"]]
    if big:
        n = rng.choice([3, 5, 9]) * bs // 2 + rng.randrange(0, 1000)
    elif kind in ("kblocks", "tmpfull"):
        n = 4 * bs
    else:
        n = rng.choice([0, 1, 100, 5000, 20000, 70000, 140000, 200000])
    n = min(n, 5000000 if (tier == "thorough" and big) else 1100000)      # the extracted model and judges cost ~10 us per byte
    dk = rng.choice(["n", "n", "d", "c"])
    dlen = rng.choice(DICT_SIZES) if dk != "n" else 0
    if kind == "volatile":
        n = max(n, min(3 * bs, 200000))
    if kind == "indep":
        n = rng.choice([10000, 30000, 70000])
        dk = rng.choice(["n", "d", "c", "c"])
        dlen = rng.choice(DICT_SIZES) if dk != "n" else 0
    if force_dk:
        dk = rng.choice(force_dk)
        dlen = rng.choice([100, 4000, 65536, 70000, 70000, 100000, 100000])
        n = min(max(n, 5000), 200000)
    dkind, dic, X, period = gen_material(rng, n, dlen, tier, "drift" if kind in ("volatile", "indep") else None)
    script = split_script(rng, kind, n, bs, p["blockMode"] == 1, p["autoFlush"])
    total = sum(s for o, s in script)
    X = X[:total]
    cs = rng.random()
    declared = 0
    if cs < 0.35:
        declared = total
    elif cs < 0.42:
        declared = total + rng.choice([1, -1, 1000]) if total + 1 > 1 else total + 1    # wrong: End must fail
        declared = max(declared, 1)
    p["contentSize"] = declared
    return {"prefs": p, "dk": dk, "dict": dic, "X": X, "script": script, "kind": kind, "data": dkind,
            "srcmode": rng.choice(SRC_MODES) if kind != "volatile" else rng.choice(["fresh_overwrite", "fresh_overwrite", "fresh_free"]),
            "nullprefs": False, "period": period}

# ------------------------------------------------------------------ C side
class CSession:
    """one LZ4F_cctx driven call by call; returns (ret, output bytes) per call"""
    def __init__(self, L):
        self.L = L
        ctx = c_void_p()
        r = L.F_createCompressionContext(byref(ctx), 100)
        if L.F_isError(r):
            raise RuntimeError("createCompressionContext failed")
        self.ctx = ctx
        self.keep = []
        self.cdict = None
        self.samebuf = None
    def close(self):
        self.L.F_freeCompressionContext(self.ctx)
        if self.cdict:
            self.L.F_freeCDict(self.cdict)
        for b in self.keep:
            b.free()
        self.keep = []
    def _out(self, ret, dst):
        if self.L.F_isError(ret):
            return ret, b""
        return ret, dst.bytes(ret)
    def begin(self, p, dk, dic):
        L = self.L
        dst = Buf(19, fill=0xA5)
        q = cprefs(p)
        qp = byref(q) if q is not None else None
        if dk == "n":
            r = L.F_compressBegin(self.ctx, dst.p, 19, qp)
        elif dk == "d":
            d = Buf(0, data=dic); self.keep.append(d)       # dictionary must outlive the frame
            r = L.F_compressBegin_usingDict(self.ctx, dst.p, 19, d.p, len(dic), qp)
        else:
            d = Buf(0, data=dic)
            if self.cdict:
                L.F_freeCDict(self.cdict)
            self.cdict = L.F_createCDict(d.p, len(dic))
            d.write(0, b"\xEE" * len(dic)); d.free()          # CDict owns a copy
            if not self.cdict:
                raise RuntimeError("createCDict failed")
            r = L.F_compressBegin_usingCDict(self.ctx, dst.p, 19, self.cdict, qp)
        res = self._out(r, dst); dst.free()
        return res
    def src_buffer(self, mode, data, whole, off, future=None):
        """(pointer, stable flag, cleanup).  Non-stable sources do not survive the call: fresh_free frees the
        buffer (ASan sees any later read), fresh_overwrite keeps it mapped but rewrites it with the bytes the
        input holds one period later (so a stale read yields plausible, wrong matches), same_buffer reuses it."""
        n = len(data)
        if mode in ("slices_stable", "slices_unstable"):
            return whole.p + off, (1 if mode == "slices_stable" else 0), None
        if mode == "same_buffer":
            if self.samebuf is None or self.samebuf.n < n:
                self.samebuf = Buf(max(n, 1)); self.keep.append(self.samebuf)
            self.samebuf.write(0, data)
            return self.samebuf.p, 0, None
        b = Buf(0, data=data)
        if mode == "fresh_keep_stable":
            self.keep.append(b)
            return b.p, 1, None
        if mode == "fresh_overwrite":
            self.keep.append(b)
            def overwrite():
                if future:
                    b.write(0, future[:n])
                else:
                    libc.memset(b.p, 0xDD, n)
            return b.p, 0, overwrite
        def cleanup():
            libc.memset(b.p, 0xDD, n)
            b.free()
        return b.p, 0, cleanup
    def update(self, p, data, unc, mode, whole, off, extra_cap, future=None):
        L = self.L
        q = cprefs(p, sane=True)
        cap = L.F_compressBound(len(data), byref(q) if q is not None else None) + extra_cap
        dst = Buf(cap, fill=0xA5)
        ptr, stable, cleanup = self.src_buffer(mode, data, whole, off, future)
        o = COpts(); o.stableSrc = stable
        f = L.F_uncompressedUpdate if unc else L.F_compressUpdate
        r = f(self.ctx, dst.p, cap, ptr, len(data), byref(o))
        if cleanup:
            cleanup()
        res = self._out(r, dst); dst.free()
        return res
    def flush(self, p, end=False):
        L = self.L
        q = cprefs(p, sane=True)
        cap = L.F_compressBound(0, byref(q) if q is not None else None)
        dst = Buf(cap, fill=0xA5)
        r = (L.F_compressEnd if end else L.F_flush)(self.ctx, dst.p, cap, None)
        res = self._out(r, dst); dst.free()
        return res
    def frame(self, p, cdict_bytes, data, fresh):
        """LZ4F_compressFrame (fresh) or LZ4F_compressFrame_usingCDict on this context"""
        L = self.L
        q = cprefs(p)
        qp = byref(q) if q is not None else None
        qs = cprefs(p, sane=True)
        cap = L.F_compressFrameBound(len(data), byref(qs) if qs is not None else None)
        dst = Buf(cap, fill=0xA5)
        src = Buf(0, data=data)
        if fresh:
            r = L.F_compressFrame(dst.p, cap, src.p, len(data), qp)
        else:
            cd = None
            if cdict_bytes is not None:
                d = Buf(0, data=cdict_bytes)
                if self.cdict:
                    L.F_freeCDict(self.cdict)
                self.cdict = L.F_createCDict(d.p, len(cdict_bytes)); d.free()
                cd = self.cdict
            r = L.F_compressFrame_usingCDict(self.ctx, dst.p, cap, src.p, len(data), cd, qp)
        libc.memset(src.p, 0xDD, len(data)); src.free()
        res = self._out(r, dst); dst.free()
        return res

def parse_blocks(out, bcrc, ccrc, is_end):
    """split the bytes written by one call into whole blocks (+ EndMark and content checksum for End).
    Returns (tape items, blocks [(raw, stored)]) or None when the bytes are not a sequence of whole blocks."""
    items, blocks = [], []
    i = 0
    n = len(out)
    while i < n:
        if i + 4 > n:
            return None
        w = int.from_bytes(out[i:i + 4], "little")
        i += 4
        if w == 0:
            if not is_end:
                return None
            if ccrc:
                i += 4
            return (items, blocks) if i == n else None
        raw = w >> 31
        sz = w & 0x7FFFFFFF
        if i + sz + (4 if bcrc else 0) > n:
            return None
        data = out[i:i + sz]
        i += sz + (4 if bcrc else 0)
        items.append("r" if raw else hx(data))
        blocks.append((raw, data))
    return None if is_end else (items, blocks)

def cmp_model(resp, ret, out, L):
    """model response line vs C (ret, bytes)"""
    t = resp.split()
    if t[0] == "ok":
        if L.F_isError(ret):
            return "model ok(%s bytes) but code error %d" % (t[1], U64 - ret)
        if int(t[1]) != ret or t[2] != md5(out):
            return "model writes %s bytes md5 %s, code %d bytes md5 %s" % (t[1], t[2], ret, md5(out))
        return None
    if t[0] == "err":
        if not L.F_isError(ret) or U64 - ret != int(t[1]):
            return "model error %s, code returns %d" % (t[1], ret if not L.F_isError(ret) else -(U64 - ret))
        return None
    return "model: " + resp[:200]

def field(resp, name):
    for t in resp.split():
        if t.startswith(name + "="):
            return t[len(name) + 1:]
    return None

def run_frame(st, cs, fr, res, tier):
    """run one streaming frame on C and model.  Returns (F, X, ok, blocks) -- F None if the frame did not complete.
    After a model/code disagreement the C session goes on alone, so that the direct oracles still judge the frame."""
    L, orc = st["L"], st["oracle"]
    p = fr["prefs"]
    pp = None if fr.get("nullprefs") else p
    bcrc, ccrc = (p["bcrc"], p["ccrc"]) if pp is not None else (0, 0)
    eff = p if pp is not None else {k: 0 for k in PREF_KEYS}
    bs = BSIZE.get(eff["bsid"], 65536)
    outs = []
    blocks = []
    model = {"on": st.get("model_on", True)}
    def fail(kind, what, **detail):
        res["fails"].append({"status": kind, "what": what, "detail": dict(detail, prefs=pstr(pp), dk=fr["dk"], dictlen=len(fr["dict"]),
                                                                          script=fr["script"][:60], srcmode=fr["srcmode"], kind=fr["kind"])})
    def corr(what, **detail):
        fail("corr_fail", what, **detail)
        model["on"] = False
        st["model_on"] = False       # the model context is out of step for the rest of this session
    ret, out = cs.begin(pp, fr["dk"], fr["dict"])
    res["evals"] += 1
    if model["on"]:
        resp = orc.ask("fc_begin", pstr(pp), fr["dk"], hx(fr["dict"]))
        d = cmp_model(resp, ret, out, L)
        if d:
            corr("compressBegin: " + d)
    if not bsid_ok(eff["bsid"]):
        res["stats"]["begin_bad_bsid"] += 1
        if not L.F_isError(ret):
            fail("prop_fail", "compressBegin accepts the invalid blockSizeID %d and writes the header %s (F15)" % (eff["bsid"], out.hex()))
        elif U64 - ret != 2:
            fail("prop_fail", "compressBegin answers %s to the invalid blockSizeID %d, expected ERROR_maxBlockSize_invalid" % (L.F_getErrorName(ret).decode(), eff["bsid"]))
        return None, None, False, None
    if L.F_isError(ret):
        fail("prop_fail", "compressBegin fails with %s on preferences within the documented ranges" % L.F_getErrorName(ret).decode())
        return None, None, False, None
    outs.append(out)
    X = fr["X"]
    whole = Buf(0, data=X) if fr["srcmode"].startswith("slices") else None
    if whole:
        cs.keep.append(whole)
    off = 0
    buffered = 0
    okall = True
    script = list(fr["script"]) + ([] if fr.get("unfinished") else [("e", 0)])
    for opi, (o, sz) in enumerate(script):
        if o in ("u", "n"):
            data = X[off:off + sz]
            extra = (bs + 16) if st.get("carry_mode", "u") != o else 0     # a mode switch flushes the buffered block first
            P = fr.get("period")
            future = (X[off + P:off + P + sz] + data[max(0, len(X) - off - P):])[:sz] if P else None
            ret, out = cs.update(eff if pp is not None else None, data, o == "n", fr["srcmode"], whole, off, extra, future)
            off += sz
            st["carry_mode"] = o
            is_end = False
            cmd = "fc_unc" if o == "n" else "fc_update"
        elif o == "f":
            data = b""
            ret, out = cs.flush(eff if pp is not None else None)
            is_end = False
            cmd = "fc_flush"
        else:
            data = b""
            ret, out = cs.flush(eff if pp is not None else None, end=True)
            is_end = True
            cmd = "fc_end"
        res["evals"] += 1
        res["stats"]["op_" + cmd] += 1
        err = L.F_isError(ret)
        if err and U64 - ret == 11:
            fail("harness_error", "dstMaxSize_tooSmall with the documented capacity at op %d (%s,%d)" % (opi, o, sz))
            return None, None, False, None
        parsed = parse_blocks(out, bcrc, ccrc, is_end) if not err else ([], [])
        if parsed is None:
            corr("bytes written by call %d (%s,%d) are not a sequence of whole blocks" % (opi, o, sz), out=out[:64].hex())
            parsed = ([], [])
        items, blks = parsed
        if model["on"]:
            if is_end and err:
                # the block flushed before the error is not observable through the return value: let the model store it raw
                items = ["r"] if buffered > 0 else []
            args = ([hx(data)] if cmd in ("fc_update", "fc_unc") else []) + items
            resp = orc.ask(cmd, *args)
            d = cmp_model(resp, ret, out, L)
            buffered = int(field(resp, "tmp") or 0)
            if d:
                corr("call %d (%s,%d): %s" % (opi, o, sz, d), resp=resp[:300])
            elif not err:
                if field(resp, "badspec") != "-":
                    corr("block compressor contract blk_ok broken: block(s) %s of call %d do not decode to their content "
                         "with the history the model attributes to them (hist sizes %s)" % (field(resp, "badspec"), opi, field(resp, "hist")))
                    okall = False
                elif field(resp, "badstrict") != "-":
                    corr("block(s) %s of call %d violate the end-of-block conditions (strict_valid) on the model's history" % (field(resp, "badstrict"), opi))
                    okall = False
                elif field(resp, "nblk") != field(resp, "tape"):
                    corr("model made %s blocks, code made %s (call %d)" % (field(resp, "nblk"), field(resp, "tape"), opi))
                    okall = False
        outs.append(out)
        blocks += blks
        for raw, _ in blks:
            res["stats"]["blk_raw" if raw else "blk_comp"] += 1
        if err:
            code = U64 - ret
            res["stats"]["err_" + ERRNAME.get(code, str(code))] += 1
            declared = eff["contentSize"]
            if not (is_end and code == 14 and declared and declared != len(X)):
                fail("prop_fail", "call %d (%s,%d) of a legal session fails with %s" % (opi, o, sz, L.F_getErrorName(ret).decode()))
            return None, X, okall, blocks
    if fr.get("unfinished"):
        return None, X, okall, blocks       # abandoned before compressEnd: the next compressBegin on this cctx starts afresh
    if eff["contentSize"] and eff["contentSize"] != len(X):
        fail("prop_fail", "compressEnd succeeds although the declared content size %d differs from the %d bytes given" % (eff["contentSize"], len(X)))
    return b"".join(outs), X, okall, blocks

# ------------------------------------------------------------------ direct oracles
def spec_frame_decode(orc, dic, F, strict=False):
    r = orc.ask("frame", "1" if strict else "0", "0", hx(dic), hx(F))
    return r

def check_spec_roundtrip(orc, dic, F, X):
    r = spec_frame_decode(orc, dic, F)
    exp = "ok %d %s rest=0" % (len(X), md5(X))
    return None if r == exp else "spec frame_decode gives '%s', expected '%s'" % (r[:80], exp)

def field_positions(F, blocks, bcrc):
    """offsets just inside every header/size/checksum field of the frame"""
    pos = set(range(1, min(len(F), 20)))
    hlen = None
    # header length from FLG
    flg = F[4]
    hlen = 7 + (8 if flg & 8 else 0) + (4 if flg & 1 else 0)
    i = hlen
    for raw, data in blocks:
        pos.update([i + 1, i + 2, i + 3, i + 4, i + 4 + len(data)])
        i += 4 + len(data)
        if bcrc:
            pos.update([i + 1, i + 3, i + 4])
            i += 4
    pos.update(range(max(0, len(F) - 9), len(F)))
    return sorted(x for x in pos if 0 < x < len(F))

def chunkings(rng, F, blocks, bcrc, tier):
    """list of (name, cut positions, output capacity policy)"""
    n = len(F)
    res = [("whole/big", [], "big")]
    fp = field_positions(F, blocks, bcrc)
    res.append(("fields/big", fp, "big"))
    res.append(("fields/1", fp, "one" if n < 3000 else "small"))
    if n <= 4000:
        res.append(("bytes/big", list(range(1, n)), "big"))
        res.append(("bytes/1", list(range(1, n)), "one"))
    else:
        cuts = sorted(set(list(range(1, 40)) + list(range(n - 24, n)) + [rng.randrange(1, n) for _ in range(30)]))
        res.append(("edges+random/rand", cuts, "rand"))
    res.append(("whole/1" if n < 3000 else "whole/small", [], "one" if n < 3000 else "small"))
    res.append(("random/rand", sorted(set(rng.randrange(1, n) for _ in range(rng.choice([1, 3, 10])))) if n > 1 else [], "rand"))
    if tier == "quick":
        keep = [res[0]] + rng.sample(res[1:], min(3, len(res) - 1))
        return keep
    return res

def real_decompress(L, F, dic, cuts, policy, rng, xlen):
    """drive LZ4F_decompress(_usingDict) on a fresh context over the given input pieces and output
    capacities.  Returns (content, error string or None).  Checked here: no error, progress, return
    value 0 exactly when the last byte of the frame has been consumed (and never before)."""
    d = c_void_p()
    if L.F_isError(L.F_createDecompressionContext(byref(d), 100)):
        return None, "createDecompressionContext failed"
    dbuf = Buf(0, data=dic) if dic else None
    out = bytearray()
    bounds = [0] + [c for c in cuts if 0 < c < len(F)] + [len(F)]
    err = None
    finished = False
    consumed_total = 0
    bigbuf = Buf(xlen + 16, fill=0x5A) if policy == "big" else None
    try:
        for k in range(len(bounds) - 1):
            if finished:
                err = "LZ4F_decompress returned 0 after %d of %d bytes" % (consumed_total, len(F))
                break
            piece = F[bounds[k]:bounds[k + 1]]
            src = Buf(0, data=piece)
            pos = 0
            while True:
                if policy == "big":
                    cap = xlen + 16
                elif policy == "one":
                    cap = 1
                elif policy == "small":
                    cap = rng.choice([1, 2, 7, 64, 1000])
                else:
                    cap = rng.choice([1, 3, 100, 65536, 70000, xlen + 1])
                dst = bigbuf if bigbuf else Buf(cap, fill=0x5A)
                ss = c_size_t(len(piece) - pos); ds = c_size_t(cap)
                if dic:
                    r = L.F_decompress_usingDict(d, dst.p, byref(ds), src.p + pos, byref(ss), dbuf.p, len(dic), None)
                else:
                    r = L.F_decompress(d, dst.p, byref(ds), src.p + pos, byref(ss), None)
                if L.F_isError(r):
                    err = "error %s at input offset %d" % (L.F_getErrorName(r).decode(), bounds[k] + pos)
                else:
                    out += dst.bytes(ds.value)
                if not bigbuf:
                    dst.free()
                if err:
                    break
                pos += ss.value
                consumed_total += ss.value
                if r == 0:
                    finished = True
                    if pos < len(piece):
                        err = "returned 0 after %d of %d bytes" % (consumed_total, len(F))
                    break
                if pos >= len(piece):
                    if ds.value == cap:
                        continue            # output full: the decoder may hold more, call again without input
                    break
                if ss.value == 0 and ds.value == 0:
                    err = "no progress at input offset %d (capacity %d)" % (bounds[k] + pos, cap)
                    break
            src.free()
            if err:
                break
        if not err and not finished:
            err = "all %d bytes given, return value never reached 0" % len(F)
    finally:
        L.F_freeDecompressionContext(d)
        if dbuf:
            dbuf.free()
        if bigbuf:
            bigbuf.free()
    return bytes(out), err

def check_real_roundtrip(st, rng, F, dic, X, blocks, bcrc, tier, res):
    L = st["L"]
    for name, cuts, policy in chunkings(rng, F, blocks, bcrc, tier):
        content, err = real_decompress(L, F, dic, cuts, policy, rng, len(X))
        res["evals"] += 1
        res["stats"]["dec_" + name] += 1
        if err:
            return "LZ4F_decompress (%s, %d pieces): %s" % (name, len(cuts) + 1, err), {"cuts": cuts[:50], "policy": policy}
        if content != X:
            return "LZ4F_decompress (%s) returns %d bytes that differ from the %d input bytes" % (name, len(content), len(X)), {"cuts": cuts[:50], "policy": policy}
    return None, None

def check_conformance(orc, p, dic, F, X, blocks):
    """C07 direct oracle: the extracted audit (from the format document) on the produced frame."""
    r = orc.ask("audit", "1", hx(dic), hx(F))
    if not r.startswith("ok "):
        # say which weaker judgment still accepts, to make the report useful
        weaker = orc.ask("audit", "0", hx(dic), hx(F))
        dec = orc.ask("frame", "0", "1", hx(dic), hx(F))
        return "frame rejected by the conformance audit (strict blocks); audit without end-of-block conditions: %s; decode skipping checksums: %s" % (weaker[:60], dec[:60])
    t = r.split()
    if int(t[1]) != len(X) or t[2] != md5(X):
        return "audited content (%s bytes) differs from the input (%d bytes)" % (t[1], len(X))
    if field(r, "rest") != "0":
        return "bytes after the end of the frame: rest=%s" % field(r, "rest")
    if int(field(r, "nb")) != len(blocks):
        return "audit counts %s blocks, the calls wrote %d" % (field(r, "nb"), len(blocks))
    exp_bsid = p["bsid"] or 4
    want = {"indep": "true" if p["blockMode"] == 1 else "false", "bcrc": "true" if p["bcrc"] else "false",
            "ccrc": "true" if p["ccrc"] else "false",
            "csize": str(p["contentSize"]) if p["contentSize"] else "none",
            "dictid": str(p["dictID"]) if p["dictID"] else "none", "bsid": str(exp_bsid)}
    for k, v in want.items():
        if field(r, k) != v:
            return "descriptor field %s is %s, preferences ask for %s" % (k, field(r, k), v)
    if p["contentSize"] and p["contentSize"] != len(X):
        return "content-size field %d differs from the real size %d yet compressEnd succeeded" % (p["contentSize"], len(X))
    # python-side reading of the fixed fields (independent of the extracted parser)
    if F[:4] != b"\x04\x22\x4d\x18":
        return "magic number"
    flg, bd = F[4], F[5]
    if flg >> 6 != 1 or flg & 2 or bd & 0x8F:
        return "version/reserved bits: FLG=%02x BD=%02x" % (flg, bd)
    hlen = 7 + (8 if flg & 8 else 0) + (4 if flg & 1 else 0)
    hc = (int(orc.ask("xxh32", "0", hx(F[4:hlen - 1]))) >> 8) & 0xFF
    if F[hlen - 1] != hc:
        return "header checksum %02x, expected %02x" % (F[hlen - 1], hc)
    maxb = BSIZE[exp_bsid]
    # per block: size limit, flag/size relation, independence
    off = 0
    for i, (raw, data) in enumerate(blocks):
        if len(data) > maxb or len(data) == 0:
            return "block %d stored size %d (max %d)" % (i, len(data), maxb)
    if p["blockMode"] == 1:
        for i, (raw, data) in enumerate(blocks):
            if raw:
                clen = len(data)
            else:
                rr = orc.ask("strict", hx(dic), hx(data))
                if not rr.startswith("ok "):
                    return "block %d of an independent-blocks frame does not decode with the dictionary alone" % i
                clen = int(rr.split()[1])
                if rr.split()[2] != md5(X[off:off + clen]):
                    return "block %d decoded alone differs from the input" % i
                if clen <= len(data):
                    return "block %d is stored compressed (%d bytes) but is not smaller than its content (%d)" % (i, len(data), clen)
            off += clen
    return None

# ------------------------------------------------------------------ one case
def new_res():
    return {"evals": 0, "fails": [], "keys": set(), "stats": collections.Counter()}

def finish(res, kind):
    out = []
    for f in sorted(res["fails"], key=lambda f: 0 if f["status"] == "prop_fail" else 1)[:4]:
        f["nontrivial"] = True; f["kind"] = kind
        out.append(f)
    out.append({"status": "ok", "evals": res["evals"], "keys": sorted(res["keys"])[:500], "kind": kind,
                "stats": dict(res["stats"]), "nontrivial": False})
    return out

def frame_key(fr, nblocks):
    p = fr["prefs"]
    s = "%s|%s|%s|%d|%s|%s" % (pstr(p), fr["dk"], len(fr["dict"]), len(fr["X"]), fr["script"][:30], fr["srcmode"])
    return hashlib.sha1(s.encode()).hexdigest()

def run_session_case(st, case, which):
    """which: 'c03' | 'c07' selects the direct oracles; the correspondence part is common"""
    rng = random.Random(case["seed"])
    tier = case.get("tier", "quick")
    res = new_res()
    L, orc = st["L"], st["oracle"]
    kind = case["kind"]
    orc.ask("fc_reset")
    st["carry_mode"] = "u"
    st["model_on"] = True
    cs = CSession(L)
    try:
        if kind == "session":
            nframes = rng.choice([1, 1, 1, 2, 3])
            if rng.random() < 0.25:
                stray_ops(st, cs, rng, res, None)
            for fi in range(nframes):
                fr = gen_frame(rng, tier, big=case.get("big", False), force_dk=case.get("force_dk"))
                if case.get("force"):
                    fr["prefs"].update(case["force"])
                if rng.random() < 0.05:
                    fr["nullprefs"] = True
                    fr["script"] = [("u", s) if o == "n" else (o, s) for o, s in fr["script"]]   # NULL prefs = linked blocks
                    fr["prefs"] = {k: 0 for k in PREF_KEYS}
                for k in ("kind", "dk", "srcmode", "data"):
                    res["stats"]["%s_%s" % (k, fr[k])] += 1
                p = fr["prefs"]
                res["stats"]["bsid_%d" % p["bsid"]] += 1
                res["stats"]["level_%d" % p["level"]] += 1
                res["stats"]["linked" if p["blockMode"] == 0 else "independent"] += 1
                res["stats"]["autoFlush_%d" % p["autoFlush"]] += 1
                F, X, ok, blocks = run_frame(st, cs, fr, res, tier)
                if F is None:
                    if res["fails"]:
                        break
                    if rng.random() < 0.5:
                        stray_ops(st, cs, rng, res, fr["prefs"])
                    continue        # frame legitimately ended in an error (frameSize_wrong, refused blockSizeID)
                res["stats"]["frames"] += 1
                res["stats"]["bytes_in"] += len(X)
                if len(blocks) >= 2 or fr["dk"] != "n" or any(o == "n" for o, _ in fr["script"]):
                    res["keys"].add(frame_key(fr, len(blocks)))
                direct(st, rng, which, fr["prefs"], fr["dict"], F, X, blocks, res, tier,
                       {"prefs": pstr(fr["prefs"]), "dk": fr["dk"], "dictlen": len(fr["dict"]), "script": fr["script"][:60],
                        "srcmode": fr["srcmode"], "kind": fr["kind"]})
                if rng.random() < 0.3:
                    stray_ops(st, cs, rng, res, fr["prefs"])
        elif kind == "reuse":
            frames = gen_reuse_session(rng, tier, case["idx"])
            release = case["idx"] % 2 == 1          # LZ4F_freeCDict as soon as the frame that used it is over (legal)
            prev = None
            for fr in frames:
                if prev:
                    res["stats"]["trans_%s>%s" % (prev, fr["sym"])] += 1
                prev = fr["sym"]
                res["stats"]["kind_reuse"] += 1
                F, X, ok, blocks = run_frame(st, cs, fr, res, tier)
                if fr["dk"] == "c" and release and cs.cdict:
                    L.F_freeCDict(cs.cdict); cs.cdict = None
                if F is None:
                    if res["fails"]:
                        break
                    res["stats"]["frames_unfinished"] += 1
                    continue
                res["stats"]["frames"] += 1
                res["stats"]["bytes_in"] += len(X)
                res["keys"].add(frame_key(fr, len(blocks)))
                direct(st, rng, which, fr["prefs"], fr["dict"], F, X, blocks, res, tier,
                       {"prefs": pstr(fr["prefs"]), "dk": fr["dk"], "dictlen": len(fr["dict"]), "script": fr["script"][:60],
                        "srcmode": fr["srcmode"], "kind": "reuse", "history": [f["sym"] + ("*" if f["unfinished"] else "") for f in frames]})
                if res["fails"]:
                    break
        elif kind == "oneshot":
            for _ in range(case.get("count", 4)):
                oneshot(st, cs, rng, res, which, tier)
        elif kind == "corpus":
            corpus_case(st, cs, case, res)
        elif kind == "equalsize":
            for _ in range(case.get("count", 3)):
                fr = gen_frame_equalsize(rng, tier, L)
                if fr is None:
                    res["stats"]["equalsize_not_found"] += 1
                    continue
                res["stats"]["kind_equalsize"] += 1
                F, X, ok, blocks = run_frame(st, cs, fr, res, tier)
                if F is None:
                    break
                res["stats"]["frames"] += 1
                res["keys"].add(frame_key(fr, len(blocks)))
                direct(st, rng, which, fr["prefs"], fr["dict"], F, X, blocks, res, tier,
                       {"prefs": pstr(fr["prefs"]), "kind": "equalsize", "n": len(X), "script": fr["script"]})
    finally:
        cs.close()
    return finish(res, kind)

def load_corpus():
    """regression cases of repaired defects (corpus/c07_*.json, corpus/c03_*.json)"""
    import json, glob, os
    root = os.path.dirname(os.path.dirname(os.path.dirname(os.path.dirname(os.path.abspath(__file__)))))
    cases = []
    for f in sorted(glob.glob(os.path.join(root, "corpus", "c0[37]_*.json"))):
        cases += json.load(open(f)).get("cases", [])
    return cases
CORPUS = load_corpus()

def corpus_case(st, cs, case, res):
    """fixed regression cases of repaired defects: each must report a violation again if the repair is reverted"""
    L, orc = st["L"], st["oracle"]
    cid = case["id"]
    res["stats"]["corpus_" + cid] += 1
    X = bytes(range(256)) * 400
    if cid == "f15_compressFrame_bsid3":
        p = {k: 0 for k in PREF_KEYS}; p["bsid"] = 3; p["autoFlush"] = 1
        q = cprefs(p)
        dst = Buf(300000, fill=0xA5); src = Buf(0, data=X)
        r = L.F_compressFrame(dst.p, 300000, src.p, len(X), byref(q))
        res["evals"] += 1
        if not L.F_isError(r):
            F = dst.bytes(r)
            dec = orc.ask("frame", "0", "0", "-", hx(F))
            res["fails"].append({"status": "prop_fail", "what": "LZ4F_compressFrame with blockSizeID 3 returns %d bytes (header %s) instead of ERROR_maxBlockSize_invalid; "
                                 "the format decoder says '%s' (F15 reverted?)" % (r, F[:7].hex(), dec[:40]), "detail": {"corpus": cid}})
        elif U64 - r != 2:
            res["fails"].append({"status": "prop_fail", "what": "LZ4F_compressFrame with blockSizeID 3 answers %s" % L.F_getErrorName(r).decode(), "detail": {"corpus": cid}})
        resp = orc.ask("fc_oneshot", pstr(p), hx(X))
        d = cmp_model(resp, r, dst.bytes(r) if not L.F_isError(r) else b"", L)
        if d:
            res["fails"].append({"status": "corr_fail", "what": "corpus %s: %s" % (cid, d), "detail": {"corpus": cid}})
        dst.free(); src.free()
        return
    p = {k: 0 for k in PREF_KEYS}; p["bsid"] = 3
    p["autoFlush"] = 1 if cid.endswith("_autoflush") else 0
    q = cprefs(p)
    dst = Buf(1 << 20, fill=0xA5)
    r = L.F_compressBegin(cs.ctx, dst.p, dst.n, byref(q))
    res["evals"] += 1
    resp = orc.ask("fc_begin", pstr(p), "n", "-")
    d = cmp_model(resp, r, dst.bytes(r) if not L.F_isError(r) else b"", L)
    if d:
        res["fails"].append({"status": "corr_fail", "what": "corpus %s: compressBegin: %s" % (cid, d), "detail": {"corpus": cid}})
    if not L.F_isError(r):
        res["fails"].append({"status": "prop_fail", "what": "LZ4F_compressBegin accepts blockSizeID 3 (returns %d, header %s) instead of ERROR_maxBlockSize_invalid (F15 reverted?)"
                             % (r, dst.bytes(r).hex()), "detail": {"corpus": cid}})
        # what used to follow: three 50000-byte updates run past the 131070-byte tmpBuff (ASan) / produce an undecodable frame
        for i in range(3):
            src = Buf(0, data=X[:50000])
            L.F_compressUpdate(cs.ctx, dst.p, dst.n, src.p, 50000, None)
            src.free()
    elif U64 - r != 2:
        res["fails"].append({"status": "prop_fail", "what": "LZ4F_compressBegin with blockSizeID 3 answers %s" % L.F_getErrorName(r).decode(), "detail": {"corpus": cid}})
    dst.free()

def stray_ops(st, cs, rng, res, p):
    """calls outside a frame (context fresh or after compressEnd): cStage handling"""
    L, orc = st["L"], st["oracle"]
    if not st.get("model_on", True):
        return
    for _ in range(rng.choice([1, 2, 3])):
        o = rng.choice(["u", "f", "e", "n"])
        if o in ("u", "n"):
            data = rng.randbytes(rng.choice([0, 1, 100]))
            ret, out = cs.update(p, data, o == "n", "fresh_free", None, 0, 70000)
            resp = orc.ask("fc_unc" if o == "n" else "fc_update", hx(data))
        elif o == "f":
            ret, out = cs.flush(p)
            resp = orc.ask("fc_flush")
        else:
            ret, out = cs.flush(p, end=True)
            resp = orc.ask("fc_end")
        res["evals"] += 1
        res["stats"]["stray_" + o] += 1
        d = cmp_model(resp, ret, out, L)
        if d:
            res["fails"].append({"status": "corr_fail", "what": "call outside a frame (%s): %s" % (o, d), "detail": {"prefs": pstr(p)}})
            st["model_on"] = False
            return

def oneshot(st, cs, rng, res, which, tier):
    """LZ4F_compressFrame / LZ4F_compressFrame_usingCDict"""
    L, orc = st["L"], st["oracle"]
    p = gen_prefs(rng, tier)
    fresh = rng.random() < 0.5
    n = rng.choice([0, 1, 100, 65535, 65536, 65537, 70000, 200000, 262144, 262145, 300000]) if tier != "thorough" else \
        rng.choice([0, 1, 65536, 65537, 262144, 262145, 262145, 1048576, 1048577, 1048577, 4194304, 4194305])
    usecd = (not fresh) and rng.random() < 0.6
    dlen = rng.choice(DICT_SIZES) if usecd else 0
    dkind, dic, X, _ = gen_material(rng, n, dlen, tier)
    if rng.random() < 0.3:
        p["contentSize"] = rng.choice([1, n, 12345])        # auto-corrected by compressFrame
    nullp = rng.random() < 0.1
    pp = None if nullp else p
    ret, out = cs.frame(pp, dic if usecd else None, X, fresh)
    res["evals"] += 1
    res["stats"]["oneshot_" + ("fresh" if fresh else ("cdict" if usecd else "ctx"))] += 1
    req = p["bsid"] if pp is not None else 0
    if not bsid_ok(req):
        res["stats"]["oneshot_bad_bsid"] += 1
    if L.F_isError(ret):
        if not bsid_ok(req) and U64 - ret == 2:
            # refused, as it must be when the id is still invalid after LZ4F_optimalBSID; the model must refuse too
            resp = orc.ask("fc_oneshot", pstr(pp), hx(X)) if fresh else orc.ask("fc_frame", pstr(pp), hx(dic) if usecd else "none", hx(X))
            d = cmp_model(resp, ret, out, L)
            if d:
                res["fails"].append({"status": "corr_fail", "what": "compressFrame with blockSizeID %d: %s" % (req, d), "detail": {"prefs": pstr(pp), "n": n}})
            return
        res["fails"].append({"status": "prop_fail", "what": "LZ4F_compressFrame%s fails with %s at the documented capacity" % ("" if fresh else "_usingCDict", L.F_getErrorName(ret).decode()),
                             "detail": {"prefs": pstr(pp), "n": n}})
        return
    if not bsid_ok(req) and not bsid_ok(out[5] >> 4):
        res["fails"].append({"status": "prop_fail", "what": "LZ4F_compressFrame%s returns a frame with BD byte %02x for the invalid blockSizeID %d (F15)" % ("" if fresh else "_usingCDict", out[5], req),
                             "detail": {"prefs": pstr(pp), "n": n}})
        return
    # effective preferences (as documented: bsid reduced to fit, contentSize corrected, single block => independent)
    flg, bd = out[4], out[5]
    bcrc, ccrc = (flg >> 4) & 1, (flg >> 2) & 1
    hlen = 7 + (8 if flg & 8 else 0) + (4 if flg & 1 else 0)
    parsed = parse_blocks(out[hlen:], bcrc, ccrc, True)
    if parsed is None:
        res["fails"].append({"status": "corr_fail", "what": "one-shot frame body is not a sequence of whole blocks", "detail": {"prefs": pstr(pp), "n": n}})
        items, blocks = [], []
    else:
        items, blocks = parsed
        if fresh:
            resp = orc.ask("fc_oneshot", pstr(pp), hx(X), *items)
        else:
            resp = orc.ask("fc_frame", pstr(pp), hx(dic) if usecd else "none", hx(X), *items)
        d = cmp_model(resp, ret, out, L)
        if d:
            res["fails"].append({"status": "corr_fail", "what": "compressFrame: " + d, "detail": {"prefs": pstr(pp), "n": n, "fresh": fresh, "cdict": dlen if usecd else None, "resp": resp[:300]}})
        elif field(resp, "badspec") != "-" or field(resp, "badstrict") != "-":
            res["fails"].append({"status": "corr_fail", "what": "one-shot: block contract broken on the model's history (badspec=%s badstrict=%s)" % (field(resp, "badspec"), field(resp, "badstrict")),
                                 "detail": {"prefs": pstr(pp), "n": n}})
    eff = dict(p if pp is not None else {k: 0 for k in PREF_KEYS})
    eff["contentSize"] = n if eff["contentSize"] else 0
    eff["bsid"] = bd >> 4
    want_bsid = eff["bsid"]
    if n <= BSIZE.get(want_bsid, 65536):
        eff["blockMode"] = 1
    if len(blocks) >= 2 or usecd:
        res["keys"].add(hashlib.sha1(("%s|%d|%d|%s" % (pstr(pp), n, dlen, fresh)).encode()).hexdigest())
    direct(st, rng, which, eff, dic if usecd else b"", out, X, blocks, res, tier, {"prefs": pstr(pp), "n": n, "oneshot": True, "cdict": dlen if usecd else None})

def direct(st, rng, which, p, dic, F, X, blocks, res, tier, detail):
    orc = st["oracle"]
    if which == "c03":
        e = check_spec_roundtrip(orc, dic, F, X)
        res["evals"] += 1
        if e:
            res["fails"].append({"status": "prop_fail", "what": "frame does not decode to the input under the format specification: " + e, "detail": detail})
            return
        e, extra = check_real_roundtrip(st, rng, F, dic, X, blocks, p["bcrc"], tier, res)
        if e:
            res["fails"].append({"status": "prop_fail", "what": e, "detail": dict(detail, **(extra or {}))})
    else:
        e = check_conformance(orc, p, dic, F, X, blocks)
        res["evals"] += 1
        if e:
            res["fails"].append({"status": "prop_fail", "what": "produced frame does not conform: " + e, "detail": detail})
