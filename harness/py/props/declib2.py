"""Decoder-side machinery added for C05 / C16 (on top of declib.py):
 * a profile-driven generator of specification-valid blocks built FROM SEQUENCES
   (never from liblz4's compressors), aimed at the corners named by the properties;
 * the remaining real decoder entry points on exact ASan buffers: the deprecated
   LZ4_decompress_fast* family, in-place decoding, LZ4_decompress_safe_continue
   over multi-block streams in the documented buffer geometries;
 * the model side of the streaming decoder (oracle dec2, Model/DecStream.v);
 * an independent sequence walker used to recognise the offset-0 class (finding F5)."""
import random, struct, ctypes
import declib
from declib import enc_seq, enc_last, enc_len
from capi import Lib, Buf
from vlib import Oracle, hx, md5

# ---------------------------------------------------------------- fill pattern (same function as capi.pattern, cached)
_PAT = {}
def fill(n, salt=0):
    if n <= 0:
        return b""
    p = _PAT.get(salt)
    if p is None or len(p) < n:
        m = max(n, 4096) * 2
        p = bytes(((i * 131 + salt * 17 + (i >> 8) * 7 + 0x5a) & 0xff) for i in range(m))
        if len(_PAT) > 24:
            _PAT.clear()
        _PAT[salt] = p
    return p[:n]

# ---------------------------------------------------------------- block builder
def append_match(out, off, ml):
    start = len(out) - off
    if off >= ml:
        out += out[start:start + ml]
    else:
        pat = bytes(out[start:])
        out += (pat * (ml // off + 1))[:ml]

class Builder:
    def __init__(self, rng, hist=b""):
        self.rng = rng
        self.out = bytearray(hist)
        self.h = len(hist)
        self.blk = bytearray()
        self.seqs = []
    def cur(self):
        return len(self.out) - self.h
    def avail(self):
        return min(len(self.out), 65535)
    def lits(self, n):
        r = self.rng
        if n == 0:
            return b""
        k = r.random()
        if k < 0.6:
            return r.randbytes(n)
        if k < 0.8:
            return bytes([r.randrange(256)]) * n
        return bytes((i * 7 + 3) & 0xff for i in range(n))
    def seq(self, ll, off, ml):
        if len(self.out) == 0 and ll == 0:
            ll = 1
        lits = self.lits(ll)
        self.out += lits
        off = max(1, min(off, self.avail()))
        append_match(self.out, off, ml)
        self.seqs.append((ll, off, ml))
        self.blk += enc_seq(lits, off, ml)
    def finish(self, last_ll):
        if self.seqs and self.seqs[-1][2] + last_ll < 12:
            last_ll = 12 - self.seqs[-1][2]
        if self.seqs and last_ll < 5:
            last_ll = 5
        lits = self.lits(last_ll)
        self.out += lits
        self.blk += enc_last(lits)
        return bytes(self.blk), bytes(self.out[self.h:]), self.seqs

PROFILES = ["generic", "generic", "shortoff_end", "shortoff_end", "chain255", "exact_hist", "tiny", "zerolit", "straddle", "straddle"]
BIG_PROFILES = ["zerolit64k", "big", "bigchain"]

LL255 = [14, 15, 16, 269, 270, 271, 524, 525, 526, 779, 780]
ML255 = [18, 19, 20, 273, 274, 275, 528, 529, 530, 783, 784]

def gen_block(rng, hist=b"", profile=None):
    """returns (block, content, seqs, profile)"""
    if profile is None:
        profile = rng.choice(PROFILES)
    h = len(hist)
    if profile == "straddle" and h == 0:
        profile = "shortoff_end"
    if profile == "generic":
        blk, content, seqs = declib.gen_valid_block(rng, hist)
        return blk, content, seqs, profile
    b = Builder(rng, hist)
    if profile == "tiny":
        if rng.random() < 0.6:
            return b.finish(rng.choice([0, 0, 1, 2, 4, 5, 11, 12, 13, 14, 15, 16, 17, 20])) + (profile,)
        b.seq(rng.choice([0, 1, 2, 8]), rng.choice([1, 2, 3, 4, 8]), rng.choice([4, 5, 7, 8]))
        return b.finish(rng.choice([5, 6, 7, 8])) + (profile,)
    if profile == "shortoff_end":
        # short offsets x lengths x distance of the match end from the end of the output
        for _ in range(rng.randrange(0, 3)):
            b.seq(rng.choice([0, 1, 3, 8, 20]), rng.choice([1, 2, 3, 4, 5, 6, 7, 8, 9, 15, 16]), rng.choice(declib.ML))
        b.seq(rng.choice([0, 1, 2, 5, 8, 14, 15, 16, 17]), rng.randrange(1, 9), rng.choice([4, 5, 6, 7, 8, 9, 10, 11, 12, 13, 14, 15, 16, 17, 18, 19, 20, 23, 24, 25, 31, 32, 33, 40, 63, 64, 65]))
        return b.finish(rng.choice([5, 5, 6, 7, 8, 9, 10, 11, 12, 13, 17, 18, 19, 31, 32, 33, 63, 64, 65, 66])) + (profile,)
    if profile == "chain255":
        for _ in range(rng.randrange(1, 4)):
            b.seq(rng.choice(LL255 + [0, 3]), rng.choice(declib.OFFS), rng.choice(ML255 + [4, 17]))
        return b.finish(rng.choice(LL255 + [5, 12])) + (profile,)
    if profile == "bigchain":
        for _ in range(rng.randrange(1, 3)):
            k = rng.randrange(20, 300)
            b.seq(15 + 255 * k + rng.choice([-1, 0, 1]), rng.choice(declib.OFFS), 19 + 255 * rng.randrange(20, 300) + rng.choice([-1, 0, 1]))
        return b.finish(15 + 255 * rng.randrange(0, 40) + rng.choice([-1, 0, 1])) + (profile,)
    if profile == "exact_hist":
        for _ in range(rng.randrange(1, 6)):
            b.seq(rng.choice([0, 1, 5, 15, 40]), 65535, rng.choice(declib.ML))     # clamped to exactly the available history
        return b.finish(rng.choice([5, 8, 12, 13])) + (profile,)
    if profile == "zerolit":
        b.seq(rng.choice([1, 4, 20]), rng.choice([1, 2, 4, 7, 8]), rng.choice(declib.ML))
        for _ in range(rng.randrange(2, 10)):
            b.seq(0, rng.choice(declib.OFFS + [b.avail()]), rng.choice(declib.ML))
        return b.finish(rng.choice([5, 6, 12, 13])) + (profile,)
    if profile == "zerolit64k":
        b.seq(rng.choice([1, 8, 300]), rng.choice([1, 3, 8, 200, 65535]), rng.choice([65536, 66000, 70000, 65535 - 8]))
        for _ in range(rng.randrange(3, 14)):
            b.seq(0, rng.choice(declib.OFFS + [65535, 65534, 40000]), rng.choice(declib.ML))
        return b.finish(rng.choice([5, 6, 12, 13, 300])) + (profile,)
    if profile == "big":
        for _ in range(rng.randrange(1, 5)):
            b.seq(rng.choice([0, 5, 1000, 5000, 66000, 70000]), rng.choice(declib.OFFS + [65535, 30000]), rng.choice(declib.ML + [4096, 66000, 70000]))
        if b.cur() < 65536:
            b.seq(70000, 65535, 20)
        return b.finish(rng.choice([5, 12, 300, 70000])) + (profile,)
    if profile == "straddle":
        # matches that start in the history and run on into the current output
        n = rng.randrange(1, 5)
        for k in range(n):
            ll = rng.choice([0, 0, 1, 2, 7, 8, 15, 20])
            cur = b.cur() + ll
            reach = rng.choice([1, 2, 3, 7, 8, 9, 16, 17, 100, h // 2, h - 1, h])
            reach = max(1, min(reach, h, 65535 - cur)) if cur < 65535 else 0
            if reach <= 0:
                b.seq(ll, rng.choice(declib.OFFS), rng.choice(declib.ML))
                continue
            off = cur + reach
            ml = reach + rng.choice([0, 1, 2, 3, 4, 7, 8, 9, 15, 16, 17, 40, 300]) if rng.random() < 0.8 else max(4, reach - rng.choice([0, 1, 2]))
            b.seq(ll, off, max(4, ml))
        return b.finish(rng.choice([5, 6, 8, 12, 13, 40])) + (profile,)
    raise ValueError(profile)

# ---------------------------------------------------------------- independent sequence walker (harness side)
def walk(blk):
    """Parse a block as a chain of sequences the way doc/lz4_Block_format.md describes.
    returns (seqs [(ll, off, ml)], last_ll or None if the walk ran off the end)"""
    i = 0; n = len(blk); seqs = []
    while i < n:
        tok = blk[i]; i += 1
        ll = tok >> 4
        if ll == 15:
            while True:
                if i >= n: return seqs, None
                c = blk[i]; i += 1; ll += c
                if c != 255: break
        if i + ll > n: return seqs, None
        i += ll
        if i == n:
            return seqs, ll
        if i + 2 > n: return seqs, None
        off = blk[i] | (blk[i + 1] << 8); i += 2
        ml = tok & 15
        if ml == 15:
            while True:
                if i >= n: return seqs, None
                c = blk[i]; i += 1; ml += c
                if c != 255: break
        seqs.append((ll, off, ml + 4))
    return seqs, None

def has_zero_offset(blk):
    """the parsed sequences of the block contain a match offset 0 (finding F5's class)"""
    seqs, _ = walk(blk)
    return any(off == 0 for (_, off, _) in seqs)

# ---------------------------------------------------------------- spec oracle helpers
def spec(orc_full, cmd, hist, blk):
    """cmd: strict | specdec.  returns bytes or None"""
    a = orc_full.ask(cmd, hx(hist[-65536:]), hx(blk))
    t = a.split()
    if t[0] == "none":
        return None
    if t[0] != "ok":
        raise RuntimeError("oracle: " + a[:200])
    n = int(t[1])
    return bytes.fromhex(t[3]) if n else b""

# ---------------------------------------------------------------- real decoders: one-shot
class Dec2(declib.Dec):
    def run1(self, api, blk, srcsize, cap, target=0, hist=b"", salt=0, extra_src=b""):
        """safe-family one-shot call with the cached fill; returns (ret, image[0,cap), err)"""
        lib = self.lib
        srcb = Buf(len(blk) + len(extra_src), data=blk + extra_src)
        pre = hist if api in ("dict_p", "pdict_p") else b""
        whole = Buf(len(pre) + cap, data=pre + fill(cap, salt))
        dst = (whole.p or 0) + len(pre)
        dictb = None
        if api == "safe":
            r = lib.decompress_safe(srcb.p, dst, srcsize, cap)
        elif api == "partial":
            r = lib.decompress_safe_partial(srcb.p, dst, srcsize, target, cap)
        elif api == "dict_p":
            r = lib.decompress_safe_usingDict(srcb.p, dst, srcsize, cap, whole.p, len(pre))
        elif api == "pdict_p":
            r = lib.decompress_safe_partial_usingDict(srcb.p, dst, srcsize, target, cap, whole.p, len(pre))
        elif api in ("dict_x", "pdict_x"):
            dictb = Buf(len(hist), data=hist)
            if api == "dict_x":
                r = lib.decompress_safe_usingDict(srcb.p, dst, srcsize, cap, dictb.p, len(hist))
            else:
                r = lib.decompress_safe_partial_usingDict(srcb.p, dst, srcsize, target, cap, dictb.p, len(hist))
        else:
            raise ValueError(api)
        img = whole.bytes(cap, len(pre))
        err = None
        if whole.bytes(len(pre), 0) != pre:
            err = "prefix modified"
        if dictb is not None and dictb.bytes() != hist:
            err = "dictionary modified"
        if srcb.bytes() != blk + extra_src:
            err = "source modified"
        srcb.free(); whole.free()
        if dictb: dictb.free()
        return r, img, err

    def run_fast(self, api, blk, dsize, hist=b"", salt=0):
        """deprecated LZ4_decompress_fast family (valid blocks only). api: fast | fast_p | fast_x
        returns (ret, image[0,dsize), err)"""
        lib = self.lib
        srcb = Buf(len(blk), data=blk)
        pre = hist if api == "fast_p" else b""
        whole = Buf(len(pre) + dsize, data=pre + fill(dsize, salt))
        dst = (whole.p or 0) + len(pre)
        dictb = None
        if api == "fast":
            r = lib.decompress_fast(srcb.p, dst, dsize)
        elif api == "fast_p":
            r = lib.decompress_fast_usingDict(srcb.p, dst, dsize, whole.p, len(pre))
        else:
            dictb = Buf(len(hist), data=hist)
            r = lib.decompress_fast_usingDict(srcb.p, dst, dsize, dictb.p, len(hist))
        img = whole.bytes(dsize, len(pre))
        err = None
        if whole.bytes(len(pre), 0) != pre:
            err = "prefix modified"
        srcb.free(); whole.free()
        if dictb: dictb.free()
        return r, img, err

    def run_inplace(self, blk, dsize, capmode, salt=0):
        """block placed at the END of a buffer of LZ4_DECOMPRESS_INPLACE_BUFFER_SIZE(dsize) bytes,
        decoded to its start.  returns (ret, image[0,dsize))"""
        x = self.run_inplace_whole(blk, dsize, capmode, salt)
        return None if x is None else (x[0], x[1][:dsize])

    def run_inplace_whole(self, blk, dsize, capmode, salt=0, base=None):
        """the same, margin (dsize >> 8) + base (default: the macro's); returns (ret, the whole buffer afterwards)"""
        size = dsize + (inplace_margin(dsize) if base is None else (dsize >> 8) + base)
        if len(blk) > size:
            return None
        buf = Buf(size, data=fill(size - len(blk), salt) + blk)
        cap = dsize if capmode == 0 else size
        r = self.lib.decompress_safe(buf.p + size - len(blk), buf.p, len(blk), cap)
        img = buf.bytes(size, 0)
        buf.free()
        return r, img

_IPM = []
def inplace_margin(n):
    """LZ4_DECOMPRESS_INPLACE_MARGIN(n) of the working tree: (n >> 8) + base, both ends read by the translator"""
    if not _IPM:
        from vlib import gen_const
        base, at64k = gen_const("INPLACE_MARGIN_BASE"), gen_const("INPLACE_MARGIN_64K")
        if at64k - base != 256:
            raise RuntimeError("LZ4_DECOMPRESS_INPLACE_MARGIN no longer has the shape (n >> 8) + c: update Proofs/InplaceMargin.v and this function")
        _IPM.append(base)
    return (n >> 8) + _IPM[0]

# ---------------------------------------------------------------- model side, one-shot
def model_inplace(orc2, fastloop, blk, dsize, capmode, salt, base=None):
    """Model/DecInplace.v (oracle dec2): LZ4_decompress_safe inside one buffer of dsize + margin bytes, block at its end;
    returns (ret, ok, md5(whole buffer afterwards))"""
    size = dsize + (inplace_margin(dsize) if base is None else (dsize >> 8) + base)
    cap = dsize if capmode == 0 else size
    a = orc2.ask("inplace", hx(fill(size - len(blk), salt) + blk), str(size - len(blk)), str(len(blk)), str(cap), "1" if fastloop else "0")
    t = a.split()
    return int(t[0]), t[1], t[3]

def model_fast(orc2, api, blk, dsize, hist, salt):
    """Model/DecFast.v (oracle dec2): LZ4_decompress_fast / _fast_usingDict on a valid block; returns (ret, ok, md5(image[0,dsize)))"""
    pl, d = ("p", hist) if api == "fast_p" else (("x", hist) if api == "fast_x" else ("x", b""))
    a = orc2.ask("fastapi", hx(blk), str(len(blk)), str(dsize), pl, hx(d), hx(fill(dsize, salt)))
    t = a.split()
    return int(t[0]), t[1], t[3]

def model1(orc, fast, api, blk, srcsize, cap, target, hist, salt, extra_src=b""):
    part = api in ("partial", "pdict_p", "pdict_x")
    if api in ("safe", "partial"):
        pl, d = "x", b""
    else:
        pl, d = ("p" if api.endswith("_p") else "x"), hist
    a = orc.ask("decapi", "1" if fast else "0", "1" if part else "0", hx(blk + extra_src), str(srcsize), str(target), str(cap),
                pl, hx(d), hx(fill(cap, salt)))
    t = a.split()
    return int(t[0]), t[1], t[3]

# ---------------------------------------------------------------- streams: LZ4_decompress_safe_continue / _fast_continue
GEOMS2 = ["contig", "ring", "double", "setsd_ext", "setsd_prefix", "extchain", "contig", "double"]

def gen_block_sized(rng, hist, lo, hi):
    """a valid block whose decoded size lies in [lo, hi] (hi >= lo + 40, lo >= 0)"""
    b = Builder(rng, hist)
    h = len(hist)
    while b.cur() < lo - 30:
        room = hi - b.cur() - 14
        ll = min(rng.choice(declib.LL), max(0, room - 4))
        room -= ll
        if room < 4:
            break
        ml = min(rng.choice(declib.ML + [1000, 2000]), room)
        cur = b.cur() + ll
        cands = [o for o in declib.OFFS] + [65535, rng.randrange(1, 65536)]
        if h:
            cands += [cur + 1, cur + h // 2, cur + h]
        b.seq(ll, rng.choice(cands), max(4, ml))
    last = max(5, lo - b.cur()) + rng.randrange(0, 9)
    last = min(last, max(5, hi - b.cur()))
    blk, content, seqs = b.finish(last)
    return blk, content, seqs, "sized"

def gen_stream(rng, geom, nblocks, maxblock, big=False, ringfill=False):
    """blocks for one stream; the history each block may reference is what the geometry keeps available.
    returns list of dict(blk, content, hist)"""
    out = []
    total = bytearray()
    prev = b""
    for i in range(nblocks):
        if geom == "double":
            hist = prev
        elif geom in ("setsd_ext", "setsd_prefix") or (geom == "extchain" and i == 0):
            # the caller saved the last [keep] bytes (or provides a fresh dictionary for the first block)
            keep = rng.choice([0, 1, 7, 100, 4000, 65535, 65536, 70000])
            if len(total) == 0 and keep:
                total += random.Random(keep).randbytes(keep)
            hist = bytes(total[-keep:]) if keep else b""
            if geom == "extchain":
                total = bytearray(hist)
        else:
            hist = bytes(total[-65536:])
        out.append({"hist": hist})
        for attempt in range(20):
            if ringfill and rng.random() < 0.8:
                blk, content, seqs, prof = gen_block_sized(rng, hist, maxblock // 2, maxblock)
            else:
                prof = rng.choice(PROFILES + (BIG_PROFILES if big else []))
                blk, content, seqs, prof = gen_block(rng, hist, prof)
            if 0 < len(content) <= maxblock:
                break
        else:
            b = Builder(rng, hist); blk, content, seqs = b.finish(8); prof = "tiny"
        out[-1].update({"blk": blk, "content": content, "profile": prof})
        total += content
        prev = content
    # zero-length messages (the one-byte block 00): LZ4_decompress_safe_continue returns 0 and must leave the history it
    # keeps untouched, wherever the empty block is "decoded" (same place, other buffer, after a ring wrap)
    if geom in ("contig", "ring", "double", "extchain") and len(out) >= 2 and rng.random() < 0.5:
        for _ in range(rng.choice([1, 1, 2])):
            at = rng.randrange(1, len(out))
            out.insert(at, {"hist": out[at]["hist"], "blk": bytes([rng.choice([0x00, 0x00, 0x05, 0x0f])]), "content": b"", "profile": "empty"})
        if geom == "double":
            # in the double-buffer geometry a block's history is the previous NON-EMPTY block (an empty one leaves the state as is)
            last = b""
            for b in out:
                b["hist"] = last
                if b["content"]:
                    last = b["content"]
    return out

def ring_margin():
    """LZ4_DECODER_RING_BUFFER_SIZE(n) - 65536 - n of the working tree (generated constant DECODER_RING_MARGIN)"""
    from vlib import gen_const
    return gen_const("DECODER_RING_MARGIN")

def gen_ringmin(rng, margin=None):
    """the wrap of a decoding ring buffer of exactly 65536 + margin + maxblock bytes (default margin: the header's,
    i.e. LZ4_DECODER_RING_BUFFER_SIZE(maxblock)): literal-only blocks fill
    the first lap up to `lap` bytes (fewer than maxblock bytes remain), then a block at the ring start whose first match
    reaches as far back as the format allows, right after a literal run that the fast loop copies with LZ4_wildCopy32.
    returns (blocks, maxblock, lap)"""
    maxblock = rng.choice([1024, 1024, 300, 4000])
    if margin is None:
        margin = ring_margin()
    lap = 65536 + margin + rng.choice([1, 1, 2, 8, 15])        # ring size - lap < maxblock: the caller wraps
    out = []
    total = bytearray()
    while len(total) < lap:
        n = min(maxblock, lap - len(total))
        content = rng.randbytes(n)
        out.append({"hist": bytes(total[-65536:]), "blk": encode_seqs([], content), "content": content, "profile": "ringmin_lit"})
        total += content
    ll = rng.choice([33, 33, 65, 17, 34, 40, 47, 15, 14, 1])
    lits = rng.randbytes(ll)
    off = 65535 - rng.choice([0, 0, 0, 1, 7, 14])
    ml = rng.choice([4, 8, 8, 19, 40])
    last = rng.randbytes(rng.choice([40, 64, 100]))
    seqs = [(lits, off, ml)]
    content = decode_seqs(bytes(total), seqs, last)
    out.append({"hist": bytes(total[-65536:]), "blk": encode_seqs(seqs, last), "content": content, "profile": "ringmin_wrap"})
    return out, maxblock, lap

def ring14_witness():
    """the session of Proofs/DecRingMin.v (C05_ring_min_refuted): ring of 65536+14+1024 bytes, lap bytes i mod 251 up to
    65551, wrap block 33 literals | offset 65535 length 8 | 40 literals with literal bytes 160 + i mod 16"""
    lapdata = bytes(i % 251 for i in range(65551))
    out = []
    pos = 0
    while pos < 65551:
        n = min(1024, 65551 - pos)
        out.append({"hist": lapdata[max(0, pos - 65536):pos], "blk": encode_seqs([], lapdata[pos:pos + n]), "content": lapdata[pos:pos + n], "profile": "ring14_lit"})
        pos += n
    lits = bytes(160 + i % 16 for i in range(73))
    seqs = [(lits[:33], 65535, 8)]
    content = decode_seqs(lapdata, seqs, lits[33:])
    out.append({"hist": lapdata[-65536:], "blk": encode_seqs(seqs, lits[33:]), "content": content, "profile": "ring14_wrap"})
    return out, 1024, 65551

def model_ringwrap(orc2, fastloop, ring, lap, blk, cap):
    """Model/DecRingWrap.v (oracle dec2): the wrap call with the dictionary in the same memory; returns (ret, ok, md5(ring afterwards))"""
    a = orc2.ask("ringwrap", hx(ring), str(lap), hx(blk), str(cap), "1" if fastloop else "0")
    t = a.split()
    return int(t[0]), t[1], t[3]

def _ext(v):
    o = bytearray()
    while v >= 255:
        o.append(255); v -= 255
    o.append(v); return o

def encode_seqs(seqs, last):
    """independent encoder: seqs = [(literal bytes, offset, match length)], last = final literals"""
    blk = bytearray()
    for (lits, off, ml) in seqs:
        ll = len(lits)
        blk.append((min(ll, 15) << 4) | min(ml - 4, 15))
        if ll >= 15: blk += _ext(ll - 15)
        blk += lits
        blk += bytes([off & 255, off >> 8])
        if ml - 4 >= 15: blk += _ext(ml - 4 - 15)
    blk.append(min(len(last), 15) << 4)
    if len(last) >= 15: blk += _ext(len(last) - 15)
    blk += last
    return bytes(blk)

def decode_seqs(hist, seqs, last):
    out = bytearray(hist)
    for (lits, off, ml) in seqs:
        out += lits
        for _ in range(ml):
            out.append(out[-off])
    out += last
    return bytes(out[len(hist):])

def gen_edge64k(rng):
    """extchain stream aimed at the prefix-size thresholds of LZ4_decompress_safe_continue / _usingDict:
    an external dictionary, then contiguous literal-only blocks summing to exactly P in 65533..65537 bytes,
    then a block whose first match has an offset that reaches the last bytes of the dictionary (while P <= 65534),
    the first byte of the prefix, or straddles both."""
    dic = rng.randbytes(rng.choice([8, 64, 1000, 66000]))
    P = rng.choice([65533, 65534, 65534, 65534, 65535, 65536, 65537])
    parts = sorted(rng.sample(range(1, P), rng.choice([0, 1, 2])))
    sizes = [b - a for a, b in zip([0] + parts, parts + [P])]
    total = bytearray(dic)
    out = []
    for n in sizes:
        content = rng.randbytes(n)
        out.append({"hist": bytes(total[-65536:]), "blk": encode_seqs([], content), "content": content, "profile": "edge_lit"})
        total += content
    reach = min(65535, P + len(dic))
    offs = sorted({o for o in (reach, reach - 1, P, P + 1, P - 1, 65535, 65534, 1, 7) if 1 <= o <= reach})
    seqs = []
    cur = bytearray(total)
    for k in range(rng.choice([1, 2, 3])):
        lits = b"" if k == 0 else rng.randbytes(rng.choice([0, 1, 5, 20]))
        off = (reach if rng.random() < 0.7 else rng.choice(offs)) if k == 0 else (rng.choice(offs) if rng.random() < 0.5 else rng.choice([1, 2, 3, 8, 100]))
        ml = rng.choice([4, 5, 8, 19, 33, 70, 300])
        off = max(1, min(off, len(cur) + len(lits), 65535))
        seqs.append((lits, off, ml))
        cur += lits
        for _ in range(ml):
            cur.append(cur[-off])
    last = rng.randbytes(rng.choice([12, 13, 40]))
    content = decode_seqs(bytes(total), seqs, last)
    out.append({"hist": bytes(total[-65536:]), "blk": encode_seqs(seqs, last), "content": content, "profile": "edge_match"})
    # extchain takes the dictionary from the first block's history
    out[0]["hist"] = dic
    return out, max(len(b["content"]) for b in out)

class Arena:
    """C buffers mirrored into the model's single arena address space"""
    def __init__(self):
        self.bufs = []     # (Buf, arena base)
        self.next = 1 << 20
    def add(self, n, data=None):
        b = Buf(n, data=data) if data is not None else Buf(n)
        base = self.next
        self.next += ((n + (1 << 20)) >> 20 << 20) + (1 << 20)
        self.bufs.append((b, base))
        return b, base
    def to_arena(self, ptr):
        if not ptr:
            return 0
        for b, base in self.bufs:
            if b.p is not None and b.p <= ptr <= b.p + b.n:
                return base + (ptr - b.p)
        return -1
    def free(self):
        for b, _ in self.bufs:
            b.free()

def read_sd(sd, arena):
    ext, pe, eds, ps = struct.unpack("<QQQQ", sd.bytes(32))
    return (arena.to_arena(ext), arena.to_arena(pe), eds, ps)

def run_stream(lib, orc2, fast, geom, blocks, maxblock, rng, salt, use_fast_api=False, want_model=True):
    """Decode the stream with LZ4_decompress_safe_continue (or _fast_continue) in the given geometry,
    mirror every call on the model (oracle dec2) and return a list of per-block records:
      dict(ret, img (bytes of [dest,dest+cap)), cap, state(real), model=(ret, ok, state, md5) or None)"""
    L = lib
    ar = Arena()
    sd, _ = ar.add(32)
    L.setStreamDecode(sd.p, None, 0)
    if want_model:
        orc2.ask("sdnew")
    recs = []
    def poke(base, off, data):
        if want_model and data:
            orc2.ask("poke", str(base + off), hx(data))
    total = sum(len(b["content"]) for b in blocks)
    if geom == "contig":
        slack = rng.choice([0, 0, 1, 13, 64])
        buf, base = ar.add(total + slack, data=fill(total + slack, salt))
        poke(base, 0, fill(total + slack, salt))
        pos = 0
        plan = []
        for b in blocks:
            n = len(b["content"])
            cap = rng.choice([n, n, n + 1, n + 13, n + 64, total + slack - pos])
            cap = min(cap, total + slack - pos)
            plan.append((buf, base, pos, cap)); pos += n
    elif geom == "ring":
        size = L.decoderRingBufferSize(maxblock)
        extra = rng.choice([0, 0, 1, 100])
        size += extra
        buf, base = ar.add(size, data=fill(size, salt))
        poke(base, 0, fill(size, salt))
        pos = 0
        plan = []
        for b in blocks:
            n = len(b["content"])
            if size - pos < maxblock:
                pos = 0
            cap = rng.choice([n, maxblock, min(n + 13, maxblock)])
            plan.append((buf, base, pos, cap)); pos += n
    elif geom == "double":
        bufs = []
        for k in range(2):
            bb, bs = ar.add(maxblock, data=fill(maxblock, salt + k))
            poke(bs, 0, fill(maxblock, salt + k))
            bufs.append((bb, bs))
        plan = []
        k = 0            # number of non-empty blocks so far: an empty block leaves the decoder's history where it is, so the
        for i, b in enumerate(blocks):      # buffers alternate on the non-empty blocks only
            n = len(b["content"])
            bb, bs = bufs[k & 1]
            plan.append((bb, bs, 0, rng.choice([n, maxblock, min(n + 1, maxblock)])))
            if n:
                k += 1
    elif geom == "extchain":
        # LZ4_setStreamDecode(external dictionary) once, then contiguous blocks: ext-dict mode, then double-dict mode
        hist = blocks[0]["hist"]
        db, ds = ar.add(len(hist), data=hist)
        poke(ds, 0, hist)
        L.setStreamDecode(sd.p, db.p, len(hist))
        if want_model: orc2.ask("setsd", str(ds), str(len(hist)))
        slack = rng.choice([0, 1, 13])
        buf, base = ar.add(total + slack, data=fill(total + slack, salt))
        poke(base, 0, fill(total + slack, salt))
        pos = 0
        plan = []
        for b in blocks:
            n = len(b["content"])
            cap = min(rng.choice([n, n + 1, n + 13, n + 64]), total + slack - pos)
            plan.append((buf, base, pos, cap)); pos += n
    else:
        plan = [None] * len(blocks)
    for i, b in enumerate(blocks):
        n = len(b["content"])
        if geom in ("setsd_ext", "setsd_prefix"):
            hist = b["hist"]
            if geom == "setsd_prefix":
                cap = rng.choice([n, n + 1, n + 13, n + 64])
                bb, bs = ar.add(len(hist) + cap, data=hist + fill(cap, salt))
                poke(bs, 0, hist + fill(cap, salt))
                L.setStreamDecode(sd.p, bb.p, len(hist))
                if want_model: orc2.ask("setsd", str(bs), str(len(hist)))
                plan[i] = (bb, bs, len(hist), cap)
            else:
                cap = rng.choice([n, n + 1, n + 13, n + 64])
                db, ds = ar.add(len(hist), data=hist)
                poke(ds, 0, hist)
                bb, bs = ar.add(cap, data=fill(cap, salt))
                poke(bs, 0, fill(cap, salt))
                L.setStreamDecode(sd.p, db.p, len(hist))
                if want_model: orc2.ask("setsd", str(ds), str(len(hist)))
                plan[i] = (bb, bs, 0, cap)
        bb, bs, pos, cap = plan[i]
        srcb = Buf(len(b["blk"]), data=b["blk"])
        if use_fast_api:
            r = L.decompress_fast_continue(sd.p, srcb.p, bb.p + pos, n)
            cap = n
        else:
            r = L.decompress_safe_continue(sd.p, srcb.p, bb.p + pos, len(b["blk"]), cap)
        srcb.free()
        img = bb.bytes(cap, pos)
        state = read_sd(sd, ar)
        rec = {"ret": r, "img": img, "cap": cap, "state": state, "dest": bs + pos, "model": None}
        if want_model and not use_fast_api:
            a = orc2.ask("cont", "1" if fast else "0", hx(b["blk"]), str(len(b["blk"])), str(bs + pos), str(cap))
            t = a.split()
            rec["model"] = (int(t[0]), t[1], tuple(int(x) for x in t[2:6]), t[7])
        elif want_model and use_fast_api:
            # Model/DecFast.v: LZ4_decompress_fast_continue (srcSize = real size of the source buffer, for the access flag only)
            a = orc2.ask("fcont", hx(b["blk"]), str(len(b["blk"])), str(bs + pos), str(n))
            t = a.split()
            rec["model"] = (int(t[0]), t[1], tuple(int(x) for x in t[2:6]), t[7])
        recs.append(rec)
        if geom in ("setsd_ext", "setsd_prefix") and len(ar.bufs) > 12:
            # keep the arena small: free data buffers no longer referenced (the last call's buffers stay)
            keep = ar.bufs[:1] + ar.bufs[-3:]
            for x in ar.bufs[1:-3]:
                x[0].free()
            ar.bufs = keep
    ar.free()
    return recs

# ---------------------------------------------------------------- harness-side sequence semantics (for the partial converse and the F5 class)
def py_decode(hist, blk, limit):
    """Execute the sequences of blk on top of hist until [limit] output bytes exist or the input ends.
    returns (output bytes (at most limit), p0) where p0 = output position at which the first
    non-executable match (offset 0 or beyond the history) starts, or None; decoding stops there."""
    out = bytearray(hist[-65536:]); h = len(out)
    b = blk; i = 0; N = len(b)
    while len(out) - h < limit and i < N:
        tok = b[i]; i += 1
        ll = tok >> 4
        if ll == 15:
            while i < N:
                c = b[i]; i += 1; ll += c
                if c != 255: break
        out += b[i:i + ll]; i += ll
        if len(out) - h >= limit or i + 2 > N:
            break
        off = b[i] | (b[i + 1] << 8); i += 2
        ml = tok & 15
        if ml == 15:
            while i < N:
                c = b[i]; i += 1; ml += c
                if c != 255: break
        ml += 4
        if off == 0 or off > len(out):
            return bytes(out[h:h + limit]), len(out) - h
        append_match(out, off, min(ml, limit + 64))
    return bytes(out[h:h + limit]), None
