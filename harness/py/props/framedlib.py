"""Frame-decoder side shared machinery (C08, C19): frames built from parts in Python (no
liblz4 compressor needed for validity), the real LZ4F decoder on exact-size ASan buffers,
the extracted Coq model (oracle `framed`) driven call by call, and the lock-step driver
that compares every call's (consumed, produced bytes, return value)."""
import ctypes, random, hashlib, struct, collections
from ctypes import c_size_t, c_void_p, byref
import declib
from capi import Lib, Buf, DOpts, Prefs, pattern
from vlib import Oracle, hx, md5

MAGIC = 0x184D2204
SKIP0 = 0x184D2A50
BSIZE = {4: 65536, 5: 262144, 6: 1048576, 7: 4194304}
ERR = {1: "GENERIC", 2: "maxBlockSize_invalid", 6: "headerVersion_wrong", 7: "blockChecksum_invalid",
       8: "reservedFlag_set", 9: "allocation_failed", 12: "frameHeader_incomplete", 13: "frameType_unknown",
       14: "frameSize_wrong", 15: "srcPtr_wrong", 16: "decompressionFailed", 17: "headerChecksum_invalid",
       18: "contentChecksum_invalid", 19: "frameDecoding_alreadyStarted"}

# ------------------------------------------------------------------ XXH32 (own implementation)
P1, P2, P3, P4, P5 = 2654435761, 2246822519, 3266489917, 668265263, 374761393
M = 0xFFFFFFFF
def _rotl(x, r): return ((x << r) | (x >> (32 - r))) & M
def xxh32(data, seed=0):
    n = len(data); i = 0
    if n >= 16:
        v1 = (seed + P1 + P2) & M; v2 = (seed + P2) & M; v3 = seed & M; v4 = (seed - P1) & M
        while i + 16 <= n:
            a, b, c, d = struct.unpack_from("<IIII", data, i)
            v1 = (_rotl((v1 + a * P2) & M, 13) * P1) & M
            v2 = (_rotl((v2 + b * P2) & M, 13) * P1) & M
            v3 = (_rotl((v3 + c * P2) & M, 13) * P1) & M
            v4 = (_rotl((v4 + d * P2) & M, 13) * P1) & M
            i += 16
        h = (_rotl(v1, 1) + _rotl(v2, 7) + _rotl(v3, 12) + _rotl(v4, 18)) & M
    else:
        h = (seed + P5) & M
    h = (h + n) & M
    while i + 4 <= n:
        (a,) = struct.unpack_from("<I", data, i)
        h = (_rotl((h + a * P3) & M, 17) * P4) & M
        i += 4
    while i < n:
        h = (_rotl((h + data[i] * P5) & M, 11) * P1) & M
        i += 1
    h ^= h >> 15; h = (h * P2) & M; h ^= h >> 13; h = (h * P3) & M; h ^= h >> 16
    return h

# ------------------------------------------------------------------ frames from parts
def header(bsid=4, indep=True, bcrc=False, csize=None, ccrc=False, dictid=None, version=1, resv=0, bd_low=0, bd_hi=0,
           flg=None, bd=None, hc=None, magic=MAGIC):
    """frame header; flg/bd/hc may be forced (for the FLG/BD sweep and wrong checksums)"""
    if flg is None:
        flg = (version << 6) | ((1 if indep else 0) << 5) | ((1 if bcrc else 0) << 4) | ((1 if csize is not None else 0) << 3) \
              | ((1 if ccrc else 0) << 2) | (resv << 1) | (1 if dictid is not None else 0)
    if bd is None:
        bd = (bd_hi << 7) | ((bsid & 7) << 4) | bd_low
    desc = bytes([flg & 255, bd & 255])
    if flg & 8:
        desc += struct.pack("<Q", (csize or 0) & 0xFFFFFFFFFFFFFFFF)
    if flg & 1:
        desc += struct.pack("<I", (dictid or 0) & M)
    if hc is None:
        hc = (xxh32(desc) >> 8) & 255
    return struct.pack("<I", magic) + desc + bytes([hc & 255])

def block(data, raw, bcrc, bad_crc=False):
    w = len(data) | (0x80000000 if raw else 0)
    out = struct.pack("<I", w) + data
    if bcrc:
        c = xxh32(data)
        if bad_crc: c ^= 0x10
        out += struct.pack("<I", c)
    return out

def skippable(k, payload):
    return struct.pack("<II", SKIP0 + (k & 15), len(payload)) + payload

def gen_frame(rng, dict_=b"", small=True, bsid=None, indep=None, bcrc=None, ccrc=None, csize_mode=None, dictid=None,
              nblocks=None, big=False):
    """A valid frame built from parts.  Returns (frame bytes, content, meta)."""
    bsid = bsid if bsid is not None else rng.choice([4, 4, 4, 5, 6, 7])
    indep = indep if indep is not None else rng.random() < 0.5
    bcrc = bcrc if bcrc is not None else rng.random() < 0.5
    ccrc = ccrc if ccrc is not None else rng.random() < 0.5
    csize_mode = csize_mode if csize_mode is not None else rng.choice(["none", "none", "right", "right", "zero"])
    if dictid is None:
        dictid = rng.choice([None, None, None, rng.randrange(1 << 32)])
    maxb = BSIZE[bsid]
    nblocks = nblocks if nblocks is not None else rng.choice([0, 1, 1, 2, 3, 4])
    content = bytearray()
    body = bytearray()
    kinds = []
    for i in range(nblocks):
        hist = bytes(dict_) if indep else (bytes(dict_) + bytes(content))[-65536:]
        kind = rng.choice(["raw", "comp", "comp", "comp", "raw0"] if small else ["raw", "comp", "comp", "bigcomp", "bigraw"])
        if kind == "raw":
            n = rng.choice([1, 2, 3, 4, 5, 17, 64, 200])
            data = rng.randbytes(n); c = data; raw = True
        elif kind == "raw0":
            data = b""; c = b""; raw = True
        elif kind == "bigraw":
            n = rng.choice([maxb, maxb - 1, 65536, 40000, 70000])
            n = min(n, maxb)
            data = declib.gens.data(rng, rng.choice(["random", "text", "runs"]), n); c = data; raw = True
        elif kind == "bigcomp":
            # a block whose content is large (long matches / literal runs), still <= maxBlockSize
            for _ in range(20):
                data, c, seqs = declib.gen_valid_block(rng, hist, max_seqs=12, big=True)
                if 0 < len(c) <= maxb and len(data) <= maxb:
                    break
            else:
                data, c, seqs = declib.gen_valid_block(rng, hist, max_seqs=6)
            raw = False
        else:
            data, c, seqs = declib.gen_valid_block(rng, hist, max_seqs=rng.choice([1, 2, 4, 8]))
            raw = False
        if len(data) == 0 and not raw:
            continue
        if len(c) > maxb or len(data) > maxb:
            continue
        body += block(data, raw, bcrc)
        content += c
        kinds.append(kind)
    csize = None
    if csize_mode == "right":
        csize = len(content) if len(content) else None
    elif csize_mode == "zero":
        csize = 0
    fr = header(bsid, indep, bcrc, csize, ccrc, dictid) + bytes(body) + struct.pack("<I", 0)
    if ccrc:
        fr += struct.pack("<I", xxh32(bytes(content)))
    meta = {"bsid": bsid, "indep": indep, "bcrc": bcrc, "ccrc": ccrc, "csize": csize, "dictid": dictid, "kinds": kinds,
            "hlen": len(header(bsid, indep, bcrc, csize, ccrc, dictid))}
    return fr, bytes(content), meta

def far_match_block(rng, hist, nseq=None, off_lo=40000, off_hi=65535, maxc=60000):
    """A compressed block (built from sequences, strictly valid) whose matches all reach far back into the
    history: offsets in [off_lo, off_hi].  Returns (block, content)."""
    out = bytearray(hist)
    h = len(hist)
    blk = bytearray()
    nseq = nseq or rng.choice([3, 8, 20, 40])
    for k in range(nseq):
        lits = rng.randbytes(rng.choice([0, 1, 3, 16, 40]))
        avail = len(out) + len(lits)
        hi = min(off_hi, avail)
        lo = min(off_lo, hi)
        if hi < 1:
            break
        off = rng.randrange(lo, hi + 1)
        ml = rng.choice([4, 19, 200, 1000, 3000, 20000])
        if off >= 4:
            ml = max(4, min(ml, off))                     # no overlap: plain slice copy
        room = maxc - 64 - (len(out) - h) - len(lits)
        if room < 4:
            break
        ml = max(4, min(ml, room))
        out += lits
        start = len(out) - off
        if ml <= off:
            out += out[start:start + ml]
        else:
            for i in range(ml):
                out.append(out[start + i])
        blk += declib.enc_seq(lits, off, ml)
    # end-of-block conditions: last 5 bytes literals, last match starts >= 12 bytes before the end
    last = rng.randbytes(rng.choice([12, 13, 20, 30]))
    out += last
    blk += declib.enc_last(last)
    return bytes(blk), bytes(out[h:])

def gen_recycle_frame(rng, bsid=4, ccrc=None, bcrc=None, dict_=b"", delta=None, small_blocks=False, ncomp=None):
    """Directed family: LINKED blocks; a short uncompressed block, then uncompressed blocks until the output
    exceeds maxBlockSize + 128 KB (the capacity of the decoder's history buffer, so that a decoder working
    with small destination buffers has to recycle it) by [delta] < 40000 bytes, then one or two compressed
    blocks whose matches (offsets 40000..65535) reach across the recycling point.  Returns (frame, content, meta)."""
    maxb = BSIZE[bsid]
    ccrc = rng.random() < 0.5 if ccrc is None else ccrc
    bcrc = rng.random() < 0.3 if bcrc is None else bcrc
    delta = delta if delta is not None else rng.choice([1, 500, 3000, 10000, 10000, 20000, 35000, rng.randrange(1, 39000)])
    target = maxb + 131072 + delta                      # output before the first compressed block
    content = bytearray()
    body = bytearray()
    sizes = []
    first = rng.choice([1, 100, 3000, 10000, 10000, 20000])
    sizes.append(first)
    while sum(sizes) < target:
        rem = target - sum(sizes)
        n = rng.choice([300, 1000, 2500, 4096]) if small_blocks else maxb
        sizes.append(min(n, rem))
    for n in sizes:
        data = rng.randbytes(n)
        body += block(data, True, bcrc); content += data
    ncomp = ncomp or rng.choice([1, 1, 2])
    for j in range(ncomp):
        hist = (bytes(dict_) + bytes(content))[-65536:]
        blk, c = far_match_block(rng, hist, maxc=min(maxb, 60000))
        body += block(blk, False, bcrc); content += c
    csize = rng.choice([None, len(content)])
    fr = header(bsid, False, bcrc, csize, ccrc, None) + bytes(body) + struct.pack("<I", 0)
    if ccrc:
        fr += struct.pack("<I", xxh32(bytes(content)))
    meta = {"bsid": bsid, "indep": False, "bcrc": bcrc, "ccrc": ccrc, "csize": csize, "raw_sizes": sizes[:3] + ["..."] + [len(sizes)],
            "delta": delta, "hlen": len(header(bsid, False, bcrc, csize, ccrc, None)), "ncomp": ncomp}
    return fr, bytes(content), meta

def stored_max_block(rng, maxb):
    """A strictly valid compressed block whose STORED size is exactly maxb (lz4's own compressors never emit one:
    a block that does not shrink is stored raw).  All literals; if no literal count gives the exact size (the
    length encoding skips a value every 255) a leading 4-byte sequence shifts it.  Returns (block, content)."""
    for pre_lits in (None, 1, 2):
        pre = b"" if pre_lits is None else declib.enc_seq(b"x" * pre_lits, 1, 4)
        prec = b"" if pre_lits is None else b"x" * (pre_lits + 4)
        n = maxb - len(pre)
        while n > 0:
            tot = len(pre) + 1 + (((n - 15) // 255 + 1) if n >= 15 else 0) + n
            if tot == maxb:
                lits = rng.randbytes(n)
                blk = pre + declib.enc_last(lits)
                assert len(blk) == maxb
                return blk, prec + lits
            if tot < maxb:
                break
            n -= 1
    raise RuntimeError("no block of stored size %d" % maxb)

def mutate_frame(rng, fr):
    b = bytearray(fr)
    k = rng.randrange(7)
    if not b:
        return bytes([rng.randrange(256)])
    if k == 0:
        i = rng.randrange(len(b)); b[i] ^= 1 << rng.randrange(8)
    elif k == 1:
        b = b[:rng.randrange(len(b) + 1)]
    elif k == 2:
        i = rng.randrange(len(b)); b[i] = rng.choice([0, 1, 0x0f, 0x10, 0x80, 0xf0, 0xff])
    elif k == 3:
        b += rng.randbytes(rng.randrange(1, 12))
    elif k == 4:
        i = rng.randrange(len(b)); del b[i:i + rng.randrange(1, 5)]
    elif k == 5:
        i = rng.randrange(len(b)); b[i:i] = rng.randbytes(rng.randrange(1, 5))
    else:
        i = rng.randrange(max(1, len(b) - 4)); b[i:i + 4] = struct.pack("<I", rng.choice([0, 1, 0x80000000, 0x80000001, 65536, 65537, 0x7fffffff, 0xffffffff]))
    return bytes(b)

# ------------------------------------------------------------------ the real decoder
_PAT = {}
def fillpat(n, salt=0):
    key = salt & 3
    if key not in _PAT:
        _PAT[key] = pattern(4096, key)
    p = _PAT[key]
    return (p * (n // 4096 + 1))[:n]

class FLib(Lib):
    def __init__(self, path):
        Lib.__init__(self, path)
        L = self.L
        P, S = c_void_p, c_size_t
        self.F_getErrorCode = L.LZ4F_getErrorCode; self.F_getErrorCode.restype = ctypes.c_int; self.F_getErrorCode.argtypes = [S]
        self.peek = hasattr(L, "verif_dctx_stage")
        if self.peek:
            for n in ("verif_cctx_alloc", "verif_cctx_type", "verif_cctx_stage", "verif_dctx_stage", "verif_dctx_skip"):
                f = getattr(L, n); f.restype = ctypes.c_int; f.argtypes = [P]
            if hasattr(L, "verif_create_dctx"):
                L.verif_create_dctx.restype = P; L.verif_create_dctx.argtypes = []
                L.verif_alloc_count.restype = ctypes.c_int; L.verif_alloc_count.argtypes = []
                L.verif_alloc_get.restype = ctypes.c_ulonglong; L.verif_alloc_get.argtypes = [ctypes.c_int]
                L.verif_alloc_reset.restype = None; L.verif_alloc_reset.argtypes = []
            for n in ("verif_dctx_remaining", "verif_dctx_tmpInSize", "verif_dctx_tmpInTarget", "verif_dctx_maxBlockSize", "verif_dctx_maxBufferSize"):
                f = getattr(L, n); f.restype = ctypes.c_ulonglong; f.argtypes = [P]
    def dstate(self, ctx):
        """the private dctx fields the model mirrors: stage, frameRemainingSize, tmpInSize, tmpInTarget, maxBlockSize, maxBufferSize, skipChecksum"""
        L = self.L
        return "%d,%d,%d,%d,%d,%d,%s" % (L.verif_dctx_stage(ctx), L.verif_dctx_remaining(ctx), L.verif_dctx_tmpInSize(ctx),
                                         L.verif_dctx_tmpInTarget(ctx), L.verif_dctx_maxBlockSize(ctx), L.verif_dctx_maxBufferSize(ctx),
                                         "true" if L.verif_dctx_skip(ctx) else "false")

class FrameInfo(ctypes.Structure):
    _fields_ = [("blockSizeID", ctypes.c_int), ("blockMode", ctypes.c_int), ("contentChecksumFlag", ctypes.c_int),
                ("frameType", ctypes.c_int), ("contentSize", ctypes.c_ulonglong), ("dictID", ctypes.c_uint),
                ("blockChecksumFlag", ctypes.c_int)]

def sgn(v):
    return v - (1 << 64) if v >= (1 << 63) else v

class CDctx:
    """one LZ4F_dctx of the real library.  Every call gets its own exact-size src buffer; dst is either a fresh
    exact-size buffer per call (mode 'fresh': ASan sees any overflow) or a window advancing in one large buffer
    (mode 'contig': prefix-mode history; the bytes beyond the window's capacity are checked to be untouched)."""
    def __init__(self, lib, version=100):
        self.lib = lib
        self.logged = getattr(lib, "peek", False) and hasattr(lib.L, "verif_create_dctx")
        if self.logged:
            # internal buffers through a recording allocator (plain malloc underneath: ASan still sees them)
            p = c_void_p(lib.L.verif_create_dctx())
            if not p.value:
                raise RuntimeError("createDecompressionContext_advanced failed")
        else:
            p = c_void_p()
            r = lib.F_createDecompressionContext(byref(p), version)
            if r != 0:
                raise RuntimeError("createDecompressionContext failed")
        self.ctx = p
        self.allocs = []        # sizes requested by the last LZ4F_decompress call
        self.keep = []          # buffers that must stay alive (stableDst, dictionaries)
        self.contig = None
        self.cpos = 0
    def set_contig(self, size):
        self.contig = Buf(size, data=fillpat(size, 1)); self.cpos = 0
        self.keep.append(self.contig)
    def eff_cap(self, cap):
        if self.contig is not None:
            return max(0, min(cap, self.contig.n - self.cpos))
        return cap
    def decompress(self, src, cap, dstnull=False, skip=False, stable=False, dict_=None, salt=0):
        lib = self.lib
        sb = Buf(len(src), data=src)
        ssz = c_size_t(len(src))
        guard_bad = None
        tail0 = None
        if dstnull:
            db = None; dp = None; dsz = c_size_t(0)
        elif self.contig is not None:
            cap = self.eff_cap(cap)
            dp = self.contig.p + self.cpos; dsz = c_size_t(cap); db = None
            tail0 = self.contig.bytes(min(256, self.contig.n - self.cpos - cap), self.cpos + cap)
        else:
            db = Buf(cap, data=fillpat(cap, salt)); dp = db.p; dsz = c_size_t(cap)
        opts = DOpts(1 if stable else 0, 1 if skip else 0, 0, 0)
        if self.logged: lib.L.verif_alloc_reset()
        if dict_ is not None:
            if isinstance(dict_, Buf):
                dbuf = dict_
            else:
                dbuf = Buf(len(dict_), data=dict_); self.keep.append(dbuf)
            r = lib.F_decompress_usingDict(self.ctx, dp, byref(dsz), sb.p, byref(ssz), dbuf.p, dbuf.n, byref(opts))
        else:
            r = lib.F_decompress(self.ctx, dp, byref(dsz), sb.p, byref(ssz), byref(opts))
        consumed = ssz.value; produced = dsz.value
        if self.logged:
            self.allocs = [lib.L.verif_alloc_get(i) for i in range(lib.L.verif_alloc_count())]
        if dstnull:
            img = b""
        elif self.contig is not None:
            img = self.contig.bytes(cap, self.cpos)
            tail = self.contig.bytes(len(tail0), self.cpos + cap)
            if tail != tail0:
                guard_bad = "bytes beyond the given capacity were modified"
            if produced <= cap:
                self.cpos += produced
        else:
            img = db.bytes(cap)
            if stable:
                self.keep.append(db)
            else:
                db.free()
        sb.free()
        return consumed, produced, sgn(r), img, guard_bad
    def reset(self):
        self.lib.F_resetDecompressionContext(self.ctx)
    def frame_info(self, src):
        sb = Buf(len(src), data=src)
        ssz = c_size_t(len(src))
        fi = FrameInfo(-1, -1, -1, -1, 0xDEADBEEF, 0xDEAD, -1)
        r = self.lib.F_getFrameInfo(self.ctx, byref(fi), sb.p, byref(ssz))
        sb.free()
        written = fi.blockSizeID != -1
        info = None
        if written:
            info = "bsid=%d bmode=%d cc=%d ftype=%d csize=%d dictid=%d bc=%d" % (
                fi.blockSizeID, fi.blockMode, fi.contentChecksumFlag, fi.frameType, fi.contentSize, fi.dictID, fi.blockChecksumFlag)
        return ssz.value, sgn(r), info
    def header_size(self, src, null=False):
        sb = Buf(len(src), data=src)
        r = self.lib.F_headerSize(None if null else sb.p, len(src))
        sb.free()
        return sgn(r)
    def free(self):
        if self.ctx:
            self.lib.F_freeDecompressionContext(self.ctx); self.ctx = None
        for b in self.keep:
            b.free()
        self.keep = []

class MDctx:
    """the same context in the extracted Coq model"""
    def __init__(self, orc):
        self.orc = orc
        self.id = orc.ask("new")
    def decompress(self, src, cap, dstnull=False, skip=False, dict_=None):
        if dict_ is not None and getattr(self.orc, "_cur_dict", None) != dict_:
            self.orc.ask("setdict", hx(dict_)); self.orc._cur_dict = dict_
        a = self.orc.ask("dec", self.id, hx(src), str(cap), "1" if dstnull else "0", "1" if skip else "0",
                         "1" if dict_ is not None else "0").split()
        if len(a) < 8:
            raise RuntimeError("oracle: " + " ".join(a))
        st = [x for x in a if x.startswith("st=")]
        capm = [x for x in a if x.startswith("cap=")]
        return {"tmpInCap": int(capm[0][4:]) if capm else None, "consumed": int(a[0]), "produced": int(a[1]), "ret": int(a[2]), "fuel": a[3], "oob": a[4], "stage": a[5],
                "outlen": int(a[6]), "outmd5": a[7], "state": st[0][3:] if st else None}
    def reset(self):
        self.orc.ask("reset", self.id)
    def frame_info(self, src):
        a = self.orc.ask("info", self.id, hx(src)).split(" ", 4)
        return int(a[0]), int(a[1]), (None if a[4] == "none" else a[4]), a[2], a[3]
    def copy(self):
        m = MDctx.__new__(MDctx); m.orc = self.orc; m.id = self.orc.ask("copy", self.id); return m
    def state(self):
        return self.orc.ask("state", self.id)
    def free(self):
        self.orc.ask("free", self.id)

def spec_frame(orc, data, dict_=b"", skip=False):
    """frame_decode spec_decode on data: None | (len, md5, rest)"""
    a = orc.ask("specframe", "1" if skip else "0", hx(dict_), hx(data)).split()
    if a[0] == "none":
        return None
    return int(a[1]), a[2], int(a[-1].split("=")[1])

def has_offset0(blk):
    """some sequence of the block has match offset 0"""
    i = 0; n = len(blk)
    while i < n:
        tok = blk[i]; i += 1
        ll = tok >> 4
        if ll == 15:
            while i < n:
                b = blk[i]; i += 1; ll += b
                if b != 255: break
        i += ll
        if i + 2 > n:
            return False
        if blk[i] == 0 and blk[i + 1] == 0:
            return True
        i += 2
        if (tok & 15) == 15:
            while i < n:
                b = blk[i]; i += 1
                if b != 255: break
    return False

# ------------------------------------------------------------------ lock-step driver
CHUNKINGS = ["whole", "one", "hdr", "rand", "hint"]

def chunk_plan(rng, policy, total, hlen=7):
    """returns a function giving the size of the next piece"""
    if isinstance(policy, (list, tuple)):                 # explicit absolute cut positions
        cuts = sorted(set(int(c) for c in policy if 0 < c < total)) + [total]
        return lambda pos, hint: next(c for c in cuts if c > pos) - pos
    if policy == "whole":
        return lambda pos, hint: total - pos
    if policy == "one":
        return lambda pos, hint: 1
    if policy == "hdr":
        cut = rng.choice([1, 3, 4, 5, 6, 7, 8, 11, 14, 15, 18, 19, 20, hlen - 1, hlen, hlen + 1, hlen + 3, hlen + 4, hlen + 5])
        cut = max(1, cut)
        return lambda pos, hint: (cut - pos) if pos < cut else (total - pos)
    if policy == "hint":
        return lambda pos, hint: max(1, hint)
    if policy == "kb":
        return lambda pos, hint: rng.choice([1500, 4096, 10000, 30000])
    sizes = [1, 1, 2, 3, 4, 5, 7, 8, 15, 16, 19, 64, 300, 5000, 70000]
    return lambda pos, hint: rng.choice(sizes)

def cap_plan(rng, policy, bs):
    if policy == "rand":
        return lambda: rng.choice([0, 1, 2, 7, 100, bs - 1, bs, bs + 1])
    if policy == "small":
        return lambda: rng.choice([0, 1, 2, 7, 100, 1000])
    if isinstance(policy, str) and policy.startswith("fix"):          # "fix4096": the same small capacity every call
        v0 = int(policy[3:])
        return lambda: v0
    if policy == "kb":                                                 # a few KB, varying
        return lambda: rng.choice([1000, 3000, 4096, 10000, 20000])
    if policy == "mid":
        return lambda: rng.choice([1000, 4096, 20000, bs // 2, bs - 1, bs, rng.randrange(1000, bs)])
    v = {"1": 1, "7": 7, "bs-1": bs - 1, "bs": bs, "large": bs + 70000}[policy] if isinstance(policy, str) else int(policy)
    return lambda: v

class Session:
    """One byte string fed to a C context and to the model context in lock step."""
    def __init__(self, st, cd=None, md=None, no_model=False):
        self.st = st
        self.lib = st["lib"]; self.orc = st["oracle"]
        self.cd = cd or CDctx(self.lib)
        self.md = md or (None if no_model else MDctx(self.orc))
        self.trace = []
        self.calls = 0
        self.stages = {}
        self.corr = None          # first model/code disagreement; afterwards the session goes on with the real code only
        self.model_dead = no_model   # no_model: real code only (ASan + direct oracles), for very long call sequences
    def call(self, src, cap, dstnull=False, skip=False, stable=False, dict_=None, dictbuf=None, salt=0):
        """one LZ4F_decompress call on both sides.  Returns (kind, info):
        kind 'ok' -> info = (consumed, produced bytes, ret); 'corr' / 'prop' -> info = description"""
        if not dstnull:
            cap = self.cd.eff_cap(cap)
        c_cons, c_prod, c_ret, img, guard = self.cd.decompress(src, cap, dstnull, skip, stable, dictbuf if dictbuf is not None else dict_, salt)
        self.calls += 1
        self.trace.append((len(src), cap, c_cons, c_prod, c_ret))
        # properties of the real code first
        if guard:
            return "prop", guard
        if c_cons > len(src):
            return "prop", "consumed %d > given %d" % (c_cons, len(src))
        if c_prod > cap:
            return "prop", "produced %d > capacity %d" % (c_prod, cap)
        if self.model_dead:
            return "ok", (c_cons, img[:c_prod], c_ret)
        m = self.md.decompress(src, cap, dstnull, skip, dict_)
        problems = []
        if m["fuel"] != "ok":
            problems.append("model ran out of fuel (theorem C08_no_fuel_out contradicted)")
        if m["oob"] != "ok":
            problems.append("model staging buffer overflow flag set (theorem C08_staging_in_bounds contradicted)")
        if (c_cons, c_prod, c_ret) != (m["consumed"], m["produced"], m["ret"]):
            problems.append("call %d (src %d bytes, cap %d): code (consumed=%d, produced=%d, ret=%d) model (consumed=%d, produced=%d, ret=%d) model stage %s" % (
                self.calls, len(src), cap, c_cons, c_prod, c_ret, m["consumed"], m["produced"], m["ret"], m["stage"]))
        elif md5(img[:m["outlen"]]) != m["outmd5"]:
            problems.append("call %d: output bytes differ (%d bytes)" % (self.calls, m["outlen"]))
        elif self.lib.peek and c_ret >= 0 and m["state"] is not None:
            cs = self.lib.dstate(self.cd.ctx)
            self.stages[m["stage"]] = self.stages.get(m["stage"], 0) + 1
            al = self.cd.allocs
            if len(al) >= 2 and m.get("tmpInCap") is not None:
                want = (m["tmpInCap"], int(m["state"].split(",")[5]))
                if (al[-2], al[-1]) != want:
                    problems.append("call %d: internal buffers allocated as tmpIn=%d, tmpOutBuffer=%d bytes; the model (and theorem C08_staging_in_bounds) has tmpIn=%d, tmpOutBuffer=%d" % (
                        self.calls, al[-2], al[-1], want[0], want[1]))
            if cs != m["state"]:
                problems.append("call %d: context fields (stage,remaining,tmpInSize,tmpInTarget,maxBlockSize,maxBufferSize,skip) code %s model %s" % (self.calls, cs, m["state"]))
        if problems:
            cls = self.classify_blockdec()
            if cls:
                return "blockdec", cls
            self.corr = problems[0]
            self.model_dead = True
        return "ok", (c_cons, img[:c_prod], c_ret)
    def classify_blockdec(self):
        """Did the model (block decoder = spec_decode) and liblz4's block decoder disagree on a block decoded
        in the last call?  'endcond': the specification's sequence semantics accepts, liblz4 refuses (blocks
        violating the end-of-block conditions: outside what C05 promises); 'F5': liblz4 accepts a block with a
        match offset 0 (known finding F5); anything else: None (a real disagreement)."""
        a = self.orc.ask("bdlog").split()
        n = int(a[0])
        st = self.md.state()
        maxb = int(st.split("maxBlock=")[1].split()[0])
        for i in range(n):
            hist = bytes.fromhex(a[1 + 3 * i]) if a[1 + 3 * i] != "-" else b""
            blk = bytes.fromhex(a[2 + 3 * i]) if a[2 + 3 * i] != "-" else b""
            specok = a[3 + 3 * i] == "1"
            sb = Buf(len(blk), data=blk); db = Buf(maxb); hb = Buf(len(hist), data=hist)
            r = self.lib.decompress_safe_usingDict(sb.p, db.p, len(blk), maxb, hb.p, len(hist))
            sb.free(); db.free(); hb.free()
            if (r >= 0) != specok:
                if specok:
                    return "endcond"
                if has_offset0(blk):
                    return "F5"
                return None
        return None
    def free(self):
        self.cd.free()
        if self.md is not None: self.md.free()

def drive(sess, rng, data, chunking="whole", capmode="large", skip=False, stable=False, dict_=None, bs=65536, hlen=7,
          multi=False, max_calls=8000, dstnull_prob=0.0):
    """Feed [data] to the session.  Returns dict(verdict=complete|error|incomplete|prop|noprogress|blockdec|toolong, ...,
    corr = first model/code disagreement or None)."""
    r = _drive(sess, rng, data, chunking, capmode, skip, stable, dict_, bs, hlen, multi, max_calls, dstnull_prob)
    r["corr"] = sess.corr
    return r

def _drive(sess, rng, data, chunking, capmode, skip, stable, dict_, bs, hlen, multi, max_calls, dstnull_prob):
    nxt = chunk_plan(rng, chunking, len(data), hlen)
    capf = cap_plan(rng, capmode, bs)
    pos = 0; out = bytearray(); hint = 1
    frames = []
    dictbuf = None
    if dict_ is not None:
        dictbuf = Buf(len(dict_), data=dict_); sess.cd.keep.append(dictbuf)
    stall = 0
    for _ in range(max_calls):
        n = max(0, min(nxt(pos, hint), len(data) - pos))
        cap = capf()
        dn = (dstnull_prob > 0 and rng.random() < dstnull_prob)
        if dn: cap = 0
        kind, info = sess.call(data[pos:pos + n], cap, dstnull=dn, skip=skip, stable=stable, dict_=dict_, dictbuf=dictbuf, salt=pos)
        if kind != "ok":
            return {"verdict": kind, "what": info, "pos": pos, "frames": frames}
        cons, prod, ret = info
        pos += cons; out += prod
        if ret < 0:
            return {"verdict": "error", "code": -ret, "pos": pos, "out": bytes(out), "frames": frames}
        hint = ret
        if ret == 0:
            frames.append((pos, bytes(out)))
            if not multi or pos >= len(data):
                return {"verdict": "complete", "pos": pos, "out": bytes(out), "frames": frames}
            out = bytearray()
            continue
        if cons == 0 and len(prod) == 0:
            if n > 0 and cap > 0:
                return {"verdict": "noprogress", "what": "call with %d input bytes and capacity %d consumed and produced nothing (ret=%d)" % (n, cap, ret), "pos": pos, "frames": frames}
            if pos >= len(data) and cap > 0:
                return {"verdict": "incomplete", "pos": pos, "out": bytes(out), "hint": ret, "frames": frames}
            stall += 1
            if stall > 64:
                return {"verdict": "incomplete", "pos": pos, "out": bytes(out), "hint": ret, "frames": frames}
        else:
            stall = 0
    return {"verdict": "toolong", "what": "more than %d calls" % max_calls, "pos": pos, "frames": frames}


# ------------------------------------------------------------------ skipChecksums must not outlive its frame
def checksum_only_damage(rng):
    """A frame whose ONLY damage is one that a checksum reveals (it parses, every block decodes).
    Returns (damaged frame, description, content as it will be produced)."""
    e = struct.pack("<I", 0)
    k = rng.randrange(4)
    pre = b""; prec = b""
    if rng.random() < 0.4:
        prec = rng.randbytes(rng.choice([1, 20, 300])); 
    if k == 0:      # content checksum itself flipped
        bcrc = rng.random() < 0.5
        c = rng.randbytes(rng.choice([1, 40, 700]))
        comp = rng.random() < 0.5
        body = (block(prec, True, bcrc) if prec else b"") + block(declib.enc_last(c) if comp else c, not comp, bcrc)
        content = prec + c
        crc = xxh32(content) ^ (1 << rng.randrange(32))
        return header(4, rng.random() < 0.5, bcrc, None, True, None) + body + e + struct.pack("<I", crc), "content checksum field flipped", content
    if k == 1:      # payload byte of an uncompressed block flipped, block (and content) checksum of the original kept
        ccrc = rng.random() < 0.5
        orig = rng.randbytes(rng.choice([1, 33, 500, 5000]))
        blk = bytearray(block(orig, True, True))
        i = rng.randrange(len(orig)); blk[4 + i] ^= 1 << rng.randrange(8)
        fr = header(4, rng.random() < 0.5, True, None, ccrc, None) + (block(prec, True, True) if prec else b"") + bytes(blk) + e
        if ccrc:
            fr += struct.pack("<I", xxh32(prec + orig))
        return fr, "payload byte of an uncompressed block flipped (block checksum mismatch)", prec + bytes(blk[4:4 + len(orig)])
    if k == 2:      # literal byte inside a compressed block flipped; only the content checksum can tell
        c = bytearray(rng.randbytes(rng.choice([13, 40, 700])))
        good = bytes(c)
        i = rng.randrange(len(c)); c[i] ^= 1 << rng.randrange(8)
        fr = header(4, rng.random() < 0.5, False, None, True, None) + (block(prec, True, False) if prec else b"") + block(declib.enc_last(bytes(c)), False, False) + e \
             + struct.pack("<I", xxh32(prec + good))
        return fr, "literal byte of a compressed block flipped (content checksum mismatch)", prec + bytes(c)
    # block checksum field of an uncompressed block flipped
    c = rng.randbytes(rng.choice([1, 64, 900]))
    blk = bytearray(block(c, True, True)); blk[-1 - rng.randrange(4)] ^= 1 << rng.randrange(8)
    ccrc = rng.random() < 0.5
    fr = header(4, rng.random() < 0.5, True, None, ccrc, None) + (block(prec, True, True) if prec else b"") + bytes(blk) + e + (struct.pack("<I", xxh32(prec + c)) if ccrc else b"")
    return fr, "block checksum field of an uncompressed block flipped", prec + c

def run_skipleak(st, rng):
    """skipChecksums used on frame k (decoded completely, or abandoned half-way + reset, or completed + reset) must not
    disable verification of frame k+1 decoded WITHOUT the option on the same context.
    Returns (evals, None) or (evals, (status, what, detail))."""
    orc = st["oracle"]
    mode = rng.choice(["complete", "half_reset", "complete_reset", "skippable_between"])
    frA, contentA, metaA = gen_frame(rng, b"", nblocks=rng.choice([1, 2, 3]))
    frB, how, produced = checksum_only_damage(rng)
    sp = spec_frame(orc, frB, b"", skip=False)
    sess = Session(st)
    evals = 0
    try:
        det = {"mode": mode, "frameA": frA.hex()[:1200], "frameB_damaged": frB.hex()[:3000], "damage": how}
        cutA = len(frA) if mode != "half_reset" else rng.randrange(metaA["hlen"] + 1, max(metaA["hlen"] + 2, len(frA)))
        r = drive(sess, rng, frA[:cutA], rng.choice(["whole", "rand", "one"]), rng.choice(["large", "7", "rand"]), skip=True,
                  bs=BSIZE[metaA["bsid"]], hlen=metaA["hlen"])
        if r["verdict"] in ("prop", "noprogress"):
            return sess.calls, ("prop_fail", str(r["what"]), det)
        if mode != "half_reset" and (r["verdict"] != "complete" or r["out"] != contentA):
            return sess.calls, ("prop_fail", "valid frame not decoded with skipChecksums=1: %s %s" % (r["verdict"], r.get("code")), det)
        if mode in ("half_reset", "complete_reset"):
            sess.cd.reset()
            if not sess.model_dead: sess.md.reset()
        if mode == "skippable_between":
            r = drive(sess, rng, skippable(rng.randrange(16), rng.randbytes(5)), "whole", "large", skip=False)
        ch = rng.choice(["whole", "rand", "one", "hdr"]); cap = rng.choice(["large", "7", "rand"])
        pseed = rng.randrange(1 << 40)
        c0 = sess.calls
        r1 = drive(sess, random.Random(pseed), frB, ch, cap, skip=False)
        t1 = list(sess.trace[c0:])
        fresh = Session(st)
        r2 = drive(fresh, random.Random(pseed), frB, ch, cap, skip=False)
        t2 = list(fresh.trace)
        evals = sess.calls + fresh.calls
        fresh.free()
        det.update({"chunking": ch, "cap": cap, "pseed": pseed, "reused": (r1["verdict"], r1.get("code")), "fresh": (r2["verdict"], r2.get("code"))})
        for r in (r1, r2):
            if r["verdict"] in ("prop", "noprogress"):
                return evals, ("prop_fail", str(r["what"]), det)
        if r1["verdict"] == "complete" and sp is None:
            return evals, ("prop_fail", "a frame whose %s is reported COMPLETE (skipChecksums NOT requested) on a context that had used skipChecksums=1 "
                           "on an earlier frame (%s); a fresh context says %s %s; the specification rejects the frame" % (
                               how, mode, r2["verdict"], ERR.get(r2.get("code"), r2.get("code"))), det)
        if t1 != t2 or r1["verdict"] != r2["verdict"] or r1.get("code") != r2.get("code"):
            return evals, ("prop_fail", "after skipChecksums=1 on an earlier frame (%s) the context decodes a damaged frame differently from a fresh context: %s %s vs %s %s" % (
                mode, r1["verdict"], r1.get("code"), r2["verdict"], r2.get("code")), det)
        if r1.get("corr") or r2.get("corr"):
            return evals, ("corr_fail", "model/code disagree: " + str(r1.get("corr") or r2.get("corr")), det)
        return evals, None
    finally:
        sess.free()


# ------------------------------------------------------------------ getFrameInfo first, then LZ4F_decompress_usingDict
def run_info_then_dict(st, rng):
    """The normal way to learn a frame's dictID: LZ4F_getFrameInfo on the header, then LZ4F_decompress_usingDict
    for the rest (the context is in dstage_init when the dictionary is handed over).  Fresh or reused context,
    linked / independent blocks, dictionaries of several sizes; the first block references the dictionary.
    Direct oracle: output == Spec.frame_decode with that dictionary.  Returns (evals, None | (status, what, detail))."""
    orc = st["oracle"]
    dsz = rng.choice([1, 7, 64, 1000, 5000, 65536, 70000, 100000])
    dict_ = declib.gens.data(rng, rng.choice(["random", "text", "random"]), dsz)
    indep = rng.random() < 0.5
    bcrc = rng.random() < 0.4; ccrc = rng.random() < 0.5
    dictid = rng.choice([None, rng.randrange(1, 1 << 32)])
    content = bytearray(); body = bytearray()
    nb = rng.choice([1, 2, 3])
    for j in range(nb):
        hist = bytes(dict_) if indep else (bytes(dict_) + bytes(content))[-65536:]
        if j == 0 or indep:
            # every match of this block starts in the dictionary
            blk, c = far_match_block(rng, hist[-65535:], nseq=rng.choice([1, 3, 8]), off_lo=max(1, min(len(hist), 65535) // 2 + 1),
                                     off_hi=65535, maxc=rng.choice([200, 3000, 30000]))
        else:
            blk, c, _ = declib.gen_valid_block(rng, hist, max_seqs=rng.choice([1, 4, 8]))
        if not blk:
            continue
        body += block(blk, False, bcrc); content += c
    csize = rng.choice([None, len(content)]) if len(content) else None
    hdr = header(4, indep, bcrc, csize, ccrc, dictid)
    fr = hdr + bytes(body) + struct.pack("<I", 0) + (struct.pack("<I", xxh32(bytes(content))) if ccrc else b"")
    content = bytes(content)
    det = {"frame": fr.hex() if len(fr) < 4000 else "len=%d" % len(fr), "dict_len": dsz, "indep": indep, "dictid": dictid}
    sp = spec_frame(orc, fr, dict_, skip=False)
    if sp is None or sp[0] != len(content) or sp[1] != md5(content) or sp[2] != 0:
        return 0, ("harness_error", "generated dictionary frame is not what the specification decodes", det)
    sess = Session(st)
    try:
        reused = rng.random() < 0.5
        det["reused"] = reused
        if reused:      # some history first: a frame (with another dictionary or none), maybe abandoned + reset
            d0 = rng.choice([None, rng.randbytes(300)])
            fr0, c0, m0 = gen_frame(rng, d0 or b"", nblocks=rng.choice([1, 2]))
            cut = len(fr0) if rng.random() < 0.6 else rng.randrange(1, len(fr0))
            r0 = drive(sess, rng, fr0[:cut], rng.choice(["whole", "rand"]), rng.choice(["large", "7"]), dict_=d0, hlen=m0["hlen"])
            if r0["verdict"] in ("prop", "noprogress"):
                return sess.calls, ("prop_fail", str(r0["what"]), det)
            if r0["verdict"] != "complete":
                sess.cd.reset()
                if not sess.model_dead: sess.md.reset()
        give = rng.choice([len(hdr), len(hdr), len(hdr) + 3, len(fr)])
        ci = sess.cd.frame_info(fr[:give])
        if not sess.model_dead:
            mi = sess.md.frame_info(fr[:give])
            if ci != mi[:3]:
                sess.corr = "getFrameInfo: code %s model %s" % (ci, mi[:3]); sess.model_dead = True
        if ci[1] < 0 or ci[0] != len(hdr):
            return sess.calls + 1, ("prop_fail", "getFrameInfo on a valid header: consumed %d (header %d bytes), ret %d" % (ci[0], len(hdr), ci[1]), det)
        want_id = "dictid=%d" % (dictid or 0)
        if want_id not in (ci[2] or ""):
            return sess.calls + 1, ("prop_fail", "getFrameInfo reports [%s], the header has %s" % (ci[2], want_id), det)
        ch = rng.choice(["whole", "rand", "one", "hint"]); cap = rng.choice(["large", "7", "rand", "bs"])
        if len(content) > 3000 and cap == "7": cap = "kb"
        if len(fr) > 3000 and ch == "one": ch = "rand"
        det.update({"chunking": ch, "cap": cap})
        r = drive(sess, rng, fr[ci[0]:], ch, cap, dict_=dict_, hlen=0)
        det.update({"verdict": r["verdict"], "code": r.get("code")})
        if r["verdict"] in ("prop", "noprogress"):
            return sess.calls + 1, ("prop_fail", str(r["what"]), det)
        if r["verdict"] != "complete" or r["out"] != content or r["pos"] != len(fr) - ci[0]:
            return sess.calls + 1, ("prop_fail", "header read by LZ4F_getFrameInfo, rest by LZ4F_decompress_usingDict (dictionary of %d bytes, %s blocks, %s context): "
                                    "%s %s, %d of %d content bytes; the specification decodes this frame with this dictionary" % (
                                        dsz, "independent" if indep else "linked", "reused" if reused else "fresh", r["verdict"],
                                        ERR.get(r.get("code"), r.get("code")), len(r.get("out", b"")), len(content)), det)
        if sess.corr:
            return sess.calls + 1, ("corr_fail", "model/code disagree: " + str(sess.corr), det)
        return sess.calls + 1, None
    finally:
        sess.free()


# ------------------------------------------------------------------ getFrameInfo on a skippable frame, rest through LZ4F_decompress
def run_info_then_skippable(st, rng):
    """LZ4F_getFrameInfo at the start of a SKIPPABLE frame consumes the magic number only and leaves the context in
    dstage_getSFrameSize; the caller resumes at src + consumed, possibly with fewer than 4 bytes (the only way into
    the staging branch of that stage, seeded change C08_5).  The rest of the input, split in any way, must be skipped
    exactly and the following frame decoded.  Returns (evals, None | (status, what, detail))."""
    payload = rng.randbytes(rng.choice([0, 1, 3, 4, 5, 100, 300]))
    sk = skippable(rng.randrange(16), payload)
    fr, content, meta = gen_frame(rng, b"", nblocks=rng.choice([1, 2]))
    data = sk + fr
    det = {"data": data.hex()[:1200], "payload": len(payload)}
    sess = Session(st)
    try:
        if rng.random() < 0.5:      # a previous frame leaves stale bytes in the header staging area
            fr0, c0, m0 = gen_frame(rng, b"", nblocks=1)
            r0 = drive(sess, rng, fr0, rng.choice(["one", "rand"]), "large", hlen=m0["hlen"])
            if r0["verdict"] in ("prop", "noprogress"):
                return sess.calls, ("prop_fail", str(r0["what"]), det)
            if r0["verdict"] != "complete":
                sess.cd.reset()
                if not sess.model_dead: sess.md.reset()
            det["reused"] = True
        give = rng.choice([8, 8, 9, 12, len(data)])
        ci = sess.cd.frame_info(data[:give])
        if not sess.model_dead:
            mi = sess.md.frame_info(data[:give])
            if ci != mi[:3]:
                sess.corr = "getFrameInfo: code %s model %s" % (ci, mi[:3]); sess.model_dead = True
        if ci[1] < 0 or ci[0] not in (4, 8):
            return sess.calls + 1, ("prop_fail", "getFrameInfo on a skippable frame: consumed %d ret %d" % (ci[0], ci[1]), det)
        ch = rng.choice(["one", "one", "rand", "hint", "whole"])
        det.update({"chunking": ch, "info_consumed": ci[0]})
        r = drive(sess, rng, data[ci[0]:], ch, rng.choice(["large", "7", "rand"]), hlen=rng.choice([1, 2, 3, 4]), multi=True)
        det.update({"verdict": r["verdict"], "code": r.get("code")})
        if r["verdict"] in ("prop", "noprogress"):
            return sess.calls + 1, ("prop_fail", str(r["what"]), det)
        ends = [a for a, b in r.get("frames", [])]
        if r["verdict"] != "complete" or ends != [len(sk) - ci[0], len(data) - ci[0]] or r["frames"][1][1] != content:
            return sess.calls + 1, ("prop_fail", "skippable frame entered through LZ4F_getFrameInfo, rest fed as '%s' chunks: %s %s, frame ends %s (expected %s)" % (
                ch, r["verdict"], ERR.get(r.get("code"), r.get("code")), ends, [len(sk) - ci[0], len(data) - ci[0]]), det)
        if sess.corr:
            return sess.calls + 1, ("corr_fail", "model/code disagree: " + str(sess.corr), det)
        return sess.calls + 1, None
    finally:
        sess.free()
