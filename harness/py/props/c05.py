"""C05 - every spec-valid block decodes to the specified content in every decoder;
conversely a safe decoder that reports success produced what the specification's
sequence semantics define.

Judge: the block specification extracted from Coq (oracle block: strict = strict_valid,
specdec = spec_decode; written from doc/lz4_Block_format.md only).
Direct oracle on the real code: every decoder entry point, both LZ4_FAST_DEC_LOOP builds,
exact-size ASan buffers, address-dependent fill.
Correspondence: the same calls on the extracted decoder model (decapi) and on the
streaming model (oracle dec2: Model/DecStream.v), whole destination image + stream state."""
import random, hashlib, collections
import declib, declib2
from declib2 import fill, Dec2, gen_block, spec, model1, has_zero_offset
from capi import Lib
from vlib import Oracle, build_lib, hx, md5

THEOREMS = ["C05_valid_decodes", "C05_valid_decodes_safe", "C05_continue_step", "C05_success_sound", "C05_success_sound_strict_refuted", "C05_inplace_margin", "C05_fast_valid", "C05_fast_usingDict_valid", "C05_fast_continue_step", "C05_inplace_step_footprint", "C05_inplace_footprint_partial", "C05_inplace_decodes", "C05_inplace_decodes_any_margin", "C05_inplace_margin32_refuted", "C05_continue_session", "C05_session_init", "C05_continue_session_contiguous", "C05_continue_session_ring", "C05_continue_three_segments_refuted", "C05_ring_min_refuted", "C05_fast_continue_session", "C05_fast_continue_session_contiguous", "C05_fast_continue_session_ring", "C05_ring_margin_const", "C05_ring_wrap_eq", "C05_ring_wrap_block"]
ORACLES = ["block", "dec2"]
CORRESPONDENCE = [
    "dec_generic/decompress_usingDict model == LZ4_decompress_safe(_usingDict) on valid blocks (return value, whole destination image), fast loop on",
    "dec_generic/decompress_usingDict model == LZ4_decompress_safe(_usingDict) on valid blocks (return value, whole destination image), fast loop off",
    "DecStream.decompress_safe_continue model == LZ4_decompress_safe_continue (return value, destination image, the four LZ4_streamDecode_t fields) in every documented geometry",
    "DecInplace model (LZ4_decompress_safe with source and destination in ONE memory, input loads from the current contents) == LZ4_decompress_safe run in place at the end of a buffer of n + LZ4_DECOMPRESS_INPLACE_MARGIN(n) bytes (return value, the whole buffer afterwards), both fast-loop builds, capacity n and whole buffer; and at margin base 32 on the F16 witness (both fail alike)",
    "DecRingWrap model (the wrap call of a decoding ring buffer: external dictionary and destination in ONE memory, dictionary loads from the current contents) == LZ4_decompress_safe_continue at the wrap of a ring of 65536 + margin + maxBlock bytes, margin = the header's (LZ4_decoderRingBufferSize) and margin = 14 (finding F20: both corrupt alike on the fast-loop build; replay of C05_ring_min_refuted), return value and whole ring afterwards, both fast-loop builds",
    "DecFast model (LZ4_decompress_unsafe_generic) == LZ4_decompress_fast / _fast_usingDict on valid blocks (return value, destination image, no out-of-buffer access) and == LZ4_decompress_fast_continue (return value, image, LZ4_streamDecode_t fields) in every geometry"]
RULE = ("valid blocks generated from sequences by an independent encoder (profiles: generic, short offsets 1..8 x lengths near the buffer end, "
        "zero-literal sequences (also after 64 KB of output), 255-chains for literal and match lengths, matches straddling dictionary and output, "
        "offset = exactly the available history, blocks > 64 KB, tiny/empty) x history size {0,1,7,8,100,4000,65535,65536,70000} x placement "
        "{none, prefix, external} x capacity {|D|,+1,+13,+64,large} x both fast-loop builds x entry point {safe, safe_usingDict, safe_continue "
        "(contiguous, ring, double buffer, setStreamDecode ext/prefix, ext chain), decompress_fast, fast_usingDict, fast_continue, in-place}. "
        "converse: mutated/random blocks accepted by a safe decoder compared with spec_decode. "
        "non-trivial = block with at least one match sequence; distinct = distinct (block, history length, entry point, capacity) tuples")
TRUSTED = ["block specification Spec/BlockSpec.v (written from doc/lz4_Block_format.md) is the judge",
           "hand-written model Model/Dec.v, Model/DecApi.v, Model/DecStream.v tied by image comparison only",
           "converse for the partial entry points: the specified prefix comes from the extracted Model.DecSem.specified_output (oracle dec2 semout); a harness-side (Python) prefix decoder is used only to classify the F5 class and for inputs above 4000+3000 bytes"]
ASSUMPTIONS = ["buffers do not wrap the address space", "fixed-size LZ4_memcpy is load-then-store",
               "in-place decoding is exercised only for blocks with compressedSize < decompressedSize (documented presumption)"]

DICT_SIZES = [0, 1, 7, 8, 100, 4000, 65534, 65535, 65536, 70000]

def build(tier):
    return {"libs": {"fast1": build_lib("dec_fast1", flags=["-DLZ4_FAST_DEC_LOOP=1"]),
                     "fast0": build_lib("dec_fast0", flags=["-DLZ4_FAST_DEC_LOOP=0"])}}

def gen_cases(tier, seed):
    rng = random.Random(seed)
    nv, ns, nc, nb = {"quick": (100, 24, 30, 12), "search": (250, 48, 120, 20), "thorough": (400, 96, 200, 48)}[tier]
    cases = []
    for i in range(nv):
        cases.append({"kind": "valid", "bseed": rng.randrange(1 << 48), "count": 50})
    for i in range(nb):
        cases.append({"kind": "validbig", "bseed": rng.randrange(1 << 48), "count": 4})
    for i in range(ns):
        cases.append({"kind": "stream", "bseed": rng.randrange(1 << 48), "geom": declib2.GEOMS2[i % len(declib2.GEOMS2)], "big": (i % 11 == 10)})
    for i in range(nc):
        cases.append({"kind": "converse", "bseed": rng.randrange(1 << 48), "count": 60})
    for i in range({"quick": 12, "search": 24, "thorough": 80}[tier]):
        cases.append({"kind": "edge64k", "bseed": rng.randrange(1 << 48)})
    for i in range({"quick": 6, "search": 12, "thorough": 40}[tier]):
        cases.append({"kind": "inplace", "bseed": rng.randrange(1 << 48), "count": 150})
    for i in range({"quick": 3, "search": 6, "thorough": 16}[tier]):
        cases.append({"kind": "ringmin", "bseed": rng.randrange(1 << 48), "count": 4})
    cases.append({"kind": "ring14", "bseed": 0})
    cases.append({"kind": "f5", "bseed": 0})
    rng.shuffle(cases)
    # regression corpus of finding F14 (fixed in /repo): the 16 one-byte empty blocks x capacity 0; runs first
    cases.insert(0, {"kind": "f14", "bseed": 14})
    return cases

def worker_init(ctx):
    return {"libs": {k: Dec2(Lib(v)) for k, v in ctx["libs"].items()}, "oracle": Oracle(), "spec": Oracle(full=True),
            "dec2": Oracle(name="dec2"), "hists": {}}

def get_hist(st, rng, n):
    """one random history per size and worker (content matters little; length and placement do)"""
    if n == 0:
        return b""
    k = (n, rng.randrange(3))
    h = st["hists"].get(k)
    if h is None:
        r2 = random.Random(n * 7 + k[1])
        h = bytes(r2.choice(b"abcdefgh\x00\xff") for _ in range(n)) if k[1] == 0 else r2.randbytes(n)
        st["hists"][k] = h
    return h

def fail(res, status, what, **detail):
    res["fails"].append({"status": status, "what": what, "detail": detail})

def hshort(h):
    return h.hex() if len(h) <= 200 else "len=%d md5=%s" % (len(h), md5(h))

def check_valid_block(st, rng, res, blk, D, hist, gen_hist_len, profile, big=False):
    """direct oracle + correspondence for one valid block with decoded content D under history hist"""
    n = len(D)
    caps_all = [n, n + 1, n + 13, n + 64, n + rng.choice([1000, 5000, 70000])]
    caps = caps_all if not big else [n, rng.choice(caps_all[1:])]
    places = (["none"] if gen_hist_len == 0 else []) + (["prefix", "external"] if hist else [])
    nontriv = declib.nontrivial_hint(blk)
    salt = rng.randrange(256)
    combos = [(pl, cap) for pl in places for cap in caps]
    # correspondence on one sampled (placement, capacity) per block; large histories / capacities cost ~0.1 s per model call
    cheap = [i for i, (pl, cap) in enumerate(combos) if cap <= n + 64]
    model_pick = set()
    if (len(hist) < 60000 and not big) or rng.random() < 0.2:
        model_pick = {rng.choice(cheap if rng.random() < 0.9 else list(range(len(combos))))}
    for ci, (pl, cap) in enumerate(combos):
        api = {"none": "safe", "prefix": "dict_p", "external": "dict_x"}[pl]
        h = hist if pl != "none" else b""
        for bname, dec in st["libs"].items():
            r, img, perr = dec.run1(api, blk, len(blk), cap, 0, h, salt)
            res["evals"] += 1
            res["stats"]["api_" + api] += 1
            if perr:
                fail(res, "prop_fail", perr, blk=blk.hex(), api=api, cap=cap, build=bname, hist=hshort(h))
            if r != n or img[:n] != D:
                fail(res, "prop_fail", "valid block: %s returned %d (expected %d), content %s" % (api, r, n, "equal" if img[:n] == D else "DIFFERS"),
                     blk=blk.hex() if len(blk) < 4000 else "len=%d" % len(blk), api=api, cap=cap, build=bname, hist=hshort(h), profile=profile)
            if nontriv:
                res["keys"].add(hashlib.sha1(b"%s|%d|%s|%d" % (blk[:4000], len(h), api.encode(), cap - n)).hexdigest())
            if ci in model_pick:
                mr, mok, mimg = model1(st["oracle"], bname == "fast1", api, blk, len(blk), cap, 0, h, salt)
                res["stats"]["model_calls"] += 1
                if mok != "ok" or mr != r or mimg != md5(img):
                    fail(res, "corr_fail", "model/code disagree on a valid block: model ret=%d %s code ret=%d image %s" % (mr, mok, r, "same" if mimg == md5(img) else "differs"),
                         blk=blk.hex() if len(blk) < 4000 else "len=%d" % len(blk), api=api, cap=cap, build=bname, hist=hshort(h), salt=salt)
    # deprecated fast family (valid blocks only, originalSize = |D|): returns the number of source bytes read
    for pl in places:
        api = {"none": "fast", "prefix": "fast_p", "external": "fast_x"}[pl]
        h = hist if pl != "none" else b""
        for bname, dec in st["libs"].items():
            r, img, perr = dec.run_fast(api, blk, n, h, salt)
            res["evals"] += 1
            res["stats"]["api_" + api] += 1
            if perr or r != len(blk) or img != D:
                fail(res, "prop_fail", "valid block: LZ4_decompress_%s returned %d (expected %d = source size), content %s %s" % (api, r, len(blk), "equal" if img == D else "DIFFERS", perr or ""),
                     blk=blk.hex() if len(blk) < 4000 else "len=%d" % len(blk), api=api, build=bname, hist=hshort(h), profile=profile)
            if bname == "fast1" and rng.random() < (0.3 if (len(h) < 60000 and not big) else 0.08):
                # correspondence of Model/DecFast.v (the C function does not depend on LZ4_FAST_DEC_LOOP: one build suffices)
                mr, mok, mimg = declib2.model_fast(st["dec2"], api, blk, n, h, salt)
                res["stats"]["model_calls_fast"] += 1
                if mok != "ok" or mr != r or mimg != md5(img):
                    fail(res, "corr_fail", "DecFast model/code disagree on a valid block: model ret=%d %s code ret=%d image %s" % (mr, mok, r, "same" if mimg == md5(img) else "differs"),
                         blk=blk.hex() if len(blk) < 4000 else "len=%d" % len(blk), api=api, build=bname, hist=hshort(h), salt=salt)
    # in-place decoding with the documented margin
    if gen_hist_len == 0 and len(blk) < n:
        for capmode in (0, 1):
            for bname, dec in st["libs"].items():
                x = dec.run_inplace_whole(blk, n, capmode, salt)
                if x is None:
                    continue
                r, whole = x
                img = whole[:n]
                res["evals"] += 1
                res["stats"]["api_inplace"] += 1
                if len(whole) <= 6000 and rng.random() < 0.5:
                    mr, mok, mimg = declib2.model_inplace(st["dec2"], bname == "fast1", blk, n, capmode, salt)
                    res["stats"]["model_calls_inplace"] += 1
                    if mok != "ok" or mr != r or mimg != md5(whole):
                        fail(res, "corr_fail", "DecInplace model/code disagree: model ret=%d %s code ret=%d buffer %s" % (mr, mok, r, "same" if mimg == md5(whole) else "differs"),
                             blk=blk.hex(), api="inplace", capmode=capmode, build=bname, salt=salt)
                if r != n or img != D:
                    fail(res, "prop_fail", "in-place decoding (LZ4_DECOMPRESS_INPLACE_BUFFER_SIZE) returned %d (expected %d), content %s" % (r, n, "equal" if img == D else "DIFFERS"),
                         blk=blk.hex() if len(blk) < 4000 else "len=%d" % len(blk), api="inplace", capmode=capmode, build=bname, profile=profile)

def check_converse(st, rng, res, blk, hist, Dlen):
    """arbitrary bytes: success of a safe decoder => output = spec_decode (except the offset-0 class)"""
    api = rng.choice(["safe", "safe", "dict_p", "dict_x", "partial", "pdict_p", "pdict_x"])
    h = hist if api not in ("safe", "partial") else b""
    cap = rng.choice([Dlen, Dlen, Dlen + 1, Dlen + 13, Dlen + 64, Dlen + 1000, max(0, Dlen - 1), rng.randrange(0, Dlen + 70)])
    target = rng.choice([0, 1, max(0, Dlen - 1), Dlen, Dlen + 1, rng.randrange(0, Dlen + 3)])
    srcsize = len(blk)
    salt = rng.randrange(256)
    part = api in ("partial", "pdict_p", "pdict_x")
    expected = "unset"
    for bname, dec in st["libs"].items():
        r, img, perr = dec.run1(api, blk, srcsize, cap, target, h, salt)
        res["evals"] += 1
        res["stats"]["conv_" + ("neg" if r < 0 else "ok")] += 1
        if perr:
            fail(res, "prop_fail", perr, blk=blk.hex(), api=api, cap=cap, build=bname, hist=hshort(h))
        if r < 0:
            continue
        if not part:
            if expected == "unset":
                expected = spec(st["spec"], "specdec", h, blk)
            if expected is None or len(expected) != r or expected != img[:r]:
                exp, p0 = declib2.py_decode(h, blk, r)
                if expected is None and p0 is not None and exp[:p0] == img[:p0] and has_zero_offset(blk):
                    fail(res, "prop_fail", "safe decoder reports success (%d) on a block with match offset 0 that the specification rejects (output correct up to that match)" % r,
                         blk=blk.hex(), api=api, cap=cap, target=target, build=bname, hist=hshort(h), zero_offset=True)
                else:
                    fail(res, "prop_fail", "safe decoder returned %d but the specification's sequence semantics %s" %
                         (r, "reject the block" if expected is None else "define other content (len %d)" % len(expected)),
                         blk=blk.hex(), api=api, cap=cap, target=target, build=bname, hist=hshort(h))
            else:
                res["stats"]["conv_match"] += 1
                res["keys"].add(hashlib.sha1(b"conv|%s|%d|%s|%d" % (blk[:4000], len(h), api.encode(), cap)).hexdigest())
        else:
            if len(h) <= 4000 and len(blk) <= 3000:
                # judge: the extracted specified_output (Coq: theorem C16_partial_sound) - the Python decoder below only classifies F5
                a = st["dec2"].ask("semout", hx(h[-65536:]), hx(blk[:srcsize]), str(r)).split()
                res["stats"]["conv_sem_calls"] += 1
                if int(a[0]) >= r and a[1] == md5(img[:r]):
                    res["stats"]["conv_match_partial_sem"] += 1
                    continue
                if not has_zero_offset(blk):
                    fail(res, "prop_fail", "partial decoder returned %d but the output is not the prefix of the specified output (extracted sem; its length %s)" % (r, a[0]),
                         blk=blk.hex(), api=api, cap=cap, target=target, build=bname, hist=hshort(h))
                    continue
            exp, p0 = declib2.py_decode(h, blk[:srcsize], r)
            if p0 is not None and p0 < r and exp[:p0] == img[:p0] and has_zero_offset(blk):
                fail(res, "prop_fail", "partial decoder reports success (%d) on a block with match offset 0 (output correct up to that match)" % r,
                     blk=blk.hex(), api=api, cap=cap, target=target, build=bname, hist=hshort(h), zero_offset=True)
            elif p0 is not None and p0 < r or exp != img[:r]:
                fail(res, "prop_fail", "partial decoder returned %d but the output is not the prefix the sequence semantics define" % r,
                     blk=blk.hex(), api=api, cap=cap, target=target, build=bname, hist=hshort(h))
            else:
                res["stats"]["conv_match_partial"] += 1

def check_stream(st, rng, res, geom, big, edge=False):
    maxblock = rng.choice([300, 1000, 4000]) if not big else 70000
    nblocks = rng.choice([3, 6, 12]) if geom != "ring" else (rng.choice([40, 80]) if not big else 6)
    if big and geom != "ring":
        nblocks = 4
    if edge:
        blocks, maxblock = declib2.gen_edge64k(rng)
    else:
        blocks = declib2.gen_stream(rng, geom, nblocks, maxblock, big=big, ringfill=(geom == "ring" and not big))
    # judge: every block must be strictly valid w.r.t. its history, with the generator's content
    for b in blocks:
        D = spec(st["spec"], "strict", b["hist"], b["blk"])
        if D is None or D != b["content"]:
            fail(res, "harness_error", "generator produced a block the specification does not accept as generated", blk=b["blk"].hex()[:2000], hist_len=len(b["hist"]))
            return
    salt = rng.randrange(200)
    for bname, dec in st["libs"].items():
        r2 = random.Random(rng.randrange(1 << 30))
        state = r2.getstate()
        recs = declib2.run_stream(dec.lib, st["dec2"], bname == "fast1", geom, blocks, maxblock, r2, salt)
        bad = False
        for i, (b, rec) in enumerate(zip(blocks, recs)):
            n = len(b["content"])
            res["evals"] += 1
            res["stats"]["stream_" + geom] += 1
            if rec["ret"] != n or rec["img"][:n] != b["content"]:
                fail(res, "prop_fail", "LZ4_decompress_safe_continue (%s geometry, block %d) returned %d (expected %d), content %s" %
                     (geom, i, rec["ret"], n, "equal" if rec["img"][:n] == b["content"] else "DIFFERS"), geom=geom, build=bname, block=i, blk=b["blk"].hex()[:4000])
                bad = True
                break
        # the property is judged over the whole stream first: a model/code disagreement on an early block does not hide
        # the failing block behind it
        for i, (b, rec) in enumerate(zip(blocks, recs)):
            if bad:
                break
            n = len(b["content"])
            m = rec["model"]
            if m is not None and (m[0] != rec["ret"] or m[1] != "ok" or tuple(m[2]) != tuple(rec["state"]) or m[3] != md5(rec["img"])):
                fail(res, "corr_fail", "stream model/code disagree (%s geometry, block %d): model ret=%d %s state=%s, code ret=%d state=%s, image %s" %
                     (geom, i, m[0], m[1], m[2], rec["ret"], rec["state"], "same" if m[3] == md5(rec["img"]) else "differs"), geom=geom, build=bname, block=i)
                break
            res["keys"].add(hashlib.sha1(b"st|%s|%s|%d" % (geom.encode(), b["blk"][:2000], rec["cap"] - n)).hexdigest())
        # deprecated LZ4_decompress_fast_continue over the same stream (model: Model/DecFast.v, on one build)
        r2.setstate(state)
        recs = declib2.run_stream(dec.lib, st["dec2"], bname == "fast1", geom, blocks, maxblock, r2, salt, use_fast_api=True, want_model=(bname == "fast1" and (geom != "ring" or len(blocks) <= 12)))
        bad = False
        for i, (b, rec) in enumerate(zip(blocks, recs)):
            n = len(b["content"])
            res["evals"] += 1
            res["stats"]["faststream_" + geom] += 1
            if rec["ret"] != len(b["blk"]) or rec["img"][:n] != b["content"]:
                fail(res, "prop_fail", "LZ4_decompress_fast_continue (%s geometry, block %d) returned %d (expected %d), content %s" %
                     (geom, i, rec["ret"], len(b["blk"]), "equal" if rec["img"][:n] == b["content"] else "DIFFERS"), geom=geom, build=bname, block=i, blk=b["blk"].hex()[:4000])
                bad = True
                break
        for i, (b, rec) in enumerate(zip(blocks, recs)):
            if bad:
                break
            n = len(b["content"])
            m = rec["model"]
            if m is not None and (m[0] != rec["ret"] or m[1] != "ok" or tuple(m[2]) != tuple(rec["state"]) or m[3] != md5(rec["img"])):
                fail(res, "corr_fail", "fast stream model/code disagree (%s geometry, block %d): model ret=%d %s state=%s, code ret=%d state=%s, image %s" %
                     (geom, i, m[0], m[1], m[2], rec["ret"], rec["state"], "same" if m[3] == md5(rec["img"]) else "differs"), geom=geom, build=bname, block=i)
                break

def _ring_session(st, res, blocks, maxblock, lap, margin, salt, judge):
    """decode [blocks] in a ring of 65536 + margin + maxblock bytes by the documented rule (restart at the ring start when
    fewer than maxblock bytes remain).  Correspondence (always): the wrap call of the last block == Model/DecRingWrap.v
    (dictionary and destination in one memory), return value and the whole ring afterwards.  Property (judge=True): every
    call returns the decoded size with the right content.  returns {build: (ret, decoded bytes of the last block)}"""
    from capi import Buf
    out = {}
    for bname, dec in st["libs"].items():
        L = dec.lib
        size = 65536 + margin + maxblock
        if margin == declib2.ring_margin() and L.decoderRingBufferSize(maxblock) != size:
            fail(res, "harness_error", "LZ4_decoderRingBufferSize(%d) = %d but the generated constant DECODER_RING_MARGIN says %d" % (maxblock, L.decoderRingBufferSize(maxblock), size))
            return out
        ring = Buf(size, data=fill(size, salt))
        sd = Buf(32)
        L.setStreamDecode(sd.p, None, 0)
        pos = 0
        for i, b in enumerate(blocks):
            n = len(b["content"])
            before = None
            if size - pos < maxblock:
                before, lapsize, pos = ring.bytes(size, 0), pos, 0
            srcb = Buf(len(b["blk"]), data=b["blk"])
            r = L.decompress_safe_continue(sd.p, srcb.p, ring.p + pos, len(b["blk"]), maxblock)
            srcb.free()
            res["evals"] += 1
            res["stats"]["stream_ringmin_%d" % margin] += 1
            after = ring.bytes(size, 0)
            if i == len(blocks) - 1:
                out[bname] = (r, after[pos:pos + n])
            if before is not None and i == len(blocks) - 1:
                mr, mok, mimg = declib2.model_ringwrap(st["dec2"], bname == "fast1", before, lapsize, b["blk"], maxblock)
                res["stats"]["model_calls_ringwrap"] += 1
                if mok != "ok" or mr != r or mimg != md5(after):
                    fail(res, "corr_fail", "DecRingWrap model/code disagree at the ring wrap (margin %d): model ret=%d %s code ret=%d ring %s" % (margin, mr, mok, r, "same" if mimg == md5(after) else "differs"),
                         geom="ringmin", build=bname, blk=b["blk"].hex(), lap=lapsize, maxblock=maxblock, margin=margin)
            if judge and (r != n or after[pos:pos + n] != b["content"]):
                got = after[pos:pos + n]
                first = next((k for k in range(min(len(got), n)) if got[k] != b["content"][k]), -1)
                fail(res, "prop_fail", "LZ4_decompress_safe_continue in a ring buffer of LZ4_decoderRingBufferSize(%d) = %d bytes: block %d (decoded at ring offset %d after a lap of %d bytes) returned %d (expected %d), content %s (first wrong byte at %d)"
                     % (maxblock, size, i, pos, lap, r, n, "equal" if got == b["content"] else "DIFFERS", first),
                     geom="ringmin", build=bname, block=i, blk=b["blk"].hex(), lap=lap, maxblock=maxblock, ring=size)
                break
            pos += n
        ring.free(); sd.free()
    return out

def check_ringmin(st, rng, res):
    """decoding ring buffer of exactly LZ4_decoderRingBufferSize(maxblock) bytes (the documented minimum; the margin is the
    generated constant DECODER_RING_MARGIN), wrapped by the documented rule; the block decoded at the wrap references the
    oldest bytes the format can reach right after a literal run / with the offsets that the 31-byte over-copy of
    LZ4_wildCopy32 endangers (finding F20: margin 14).  The same generator at margin 14 is run for the model/code
    correspondence only (there the fast-loop build corrupts the output, and so must the model)."""
    margin = declib2.ring_margin()
    for m, judge in ((margin, True), (14, False)):
        blocks, maxblock, lap = declib2.gen_ringmin(rng, m)
        for b in (blocks[0], blocks[-2], blocks[-1]):
            D = spec(st["spec"], "strict", b["hist"], b["blk"])
            if D is None or D != b["content"]:
                fail(res, "harness_error", "ringmin generator produced a block the specification does not accept as generated", blk=b["blk"].hex()[:2000])
                return
        _ring_session(st, res, blocks, maxblock, lap, m, rng.randrange(200), judge)
        res["keys"].add(hashlib.sha1(b"ringmin|%d|" % m + blocks[-1]["blk"]).hexdigest())

RING14_JUNK = bytes([173, 174, 175, 160, 161, 162, 163, 164])

def check_ring14(st, res):
    """replay of C05_ring_min_refuted (Proofs/DecRingMin.v) on the real decoder: ring of 65536 + 14 + 1024 bytes, the theorem's
    lap and wrap block.  With LZ4_FAST_DEC_LOOP the call returns 81 and the eight matched bytes are the theorem's wrong
    bytes; with the safe loop the content is right; model == code in both (checked inside _ring_session)."""
    blocks, maxblock, lap = declib2.ring14_witness()
    b = blocks[-1]
    D = spec(st["spec"], "strict", b["hist"], b["blk"])
    if D is None or D != b["content"]:
        fail(res, "harness_error", "ring14 witness block is not accepted by the specification as generated", blk=b["blk"].hex())
        return
    out = _ring_session(st, res, blocks, maxblock, lap, 14, 170, False)
    for bname, (r, got) in out.items():
        want = b["content"] if bname != "fast1" else b["content"][:33] + RING14_JUNK + b["content"][41:]
        if r != 81 or got != want:
            fail(res, "harness_error", "replay of C05_ring_min_refuted on build %s: returned %d, bytes [33,41) = %s (theorem: 81, %s)" % (bname, r, got[33:41].hex(), want[33:41].hex()),
                 build=bname, blk=b["blk"].hex())
    res["keys"].add(hashlib.sha1(b"ring14|" + b["blk"]).hexdigest())

F5_BLOCK = bytes.fromhex("10410000506263646566")

def run_case(st, case):
    rng = random.Random(case["bseed"])
    res = {"evals": 0, "fails": [], "keys": set(), "stats": collections.Counter()}
    kind = case["kind"]
    if kind in ("valid", "validbig"):
        for j in range(case["count"]):
            big = kind == "validbig"
            hs = rng.choice(DICT_SIZES)
            hist = get_hist(st, rng, hs)
            unrelated = (not big) and hs > 0 and rng.random() < 0.25
            gen_hist = b"" if unrelated else hist
            prof = rng.choice(declib2.BIG_PROFILES) if big else None
            blk, content, seqs, prof = gen_block(rng, gen_hist, prof)
            res["stats"]["profile_" + prof] += 1
            res["stats"]["hist_%d" % hs] += 1
            D = spec(st["spec"], "strict", hist, blk)
            if D is None or D != content:
                fail(res, "harness_error", "generator produced a block the specification does not accept as generated (profile %s)" % prof,
                     blk=blk.hex()[:4000], hist_len=len(hist))
                continue
            check_valid_block(st, rng, res, blk, D, hist, len(gen_hist), prof, big=big)
    elif kind == "stream":
        check_stream(st, rng, res, case["geom"], case.get("big", False))
    elif kind == "edge64k":
        check_stream(st, rng, res, "extchain", True, edge=True)
    elif kind == "converse":
        for j in range(case["count"]):
            hs = rng.choice(DICT_SIZES[:6] + [65535, 65536])
            hist = get_hist(st, rng, hs)
            k = rng.random()
            if k < 0.75:
                blk, content, seqs = declib.gen_valid_block(rng, hist, valid_end=rng.random() < 0.6)
                for _ in range(rng.choice([0, 1, 1, 2, 3])):
                    blk = declib.mutate(rng, blk)
                Dlen = len(content)
            else:
                n = rng.choice([0, 1, 2, 3, 5, 8, 16, 17, 30, 64, 200])
                blk = bytes(rng.choice([0, 1, 0x0f, 0x10, 0xf0, 0xff, rng.randrange(256)]) for _ in range(n))
                Dlen = rng.choice([0, 10, 100, 1000])
            check_converse(st, rng, res, blk, hist, Dlen)
    elif kind == "ring14":
        check_ring14(st, res)
    elif kind == "ringmin":
        for j in range(case["count"]):
            check_ringmin(st, rng, res)
    elif kind == "inplace":
        # in-place decoding at the documented margin: blocks whose tail keeps the input cursor as close to the
        # output cursor as the format allows (match lengths = 1, 2, 3 mod 32 so that LZ4_wildCopy32 overshoots by
        # 31, 30, 29; literal runs at the 255-chain boundaries 15 + 255k - 1 .. + 1; long early matches so that the
        # block still shrinks).  F16 corpus first: 16 literals | offset 16, length 33 | 65 literals.
        for j in range(case["count"]):
            seqs = []
            if j == 0:
                seqs, l2 = [(16, 16, 33)], 65
            else:
                first = True
                produced = 0
                for s_ in range(rng.choice([1, 1, 2, 3, 4])):
                    ll = rng.choice([rng.randrange(40), 15 + 255 * rng.randrange(4) + rng.randrange(-1, 2), rng.randrange(600)])
                    if first:
                        ll = max(ll, 16)
                    ml = rng.choice([32 * rng.randrange(1, 13) + rng.randrange(1, 4), 4 + rng.randrange(400)])
                    if first and rng.random() < 0.3:
                        ml = 2000 + rng.randrange(3000)
                    off = rng.choice([16, rng.randrange(1, 17), rng.randrange(16, 33) if ll >= 32 or not first else 16])
                    off = min(off, produced + ll)          # never beyond the output produced so far
                    produced += ll + ml
                    seqs.append((ll, off, ml)); first = False
                l2 = rng.choice([5 + rng.randrange(80), 15 + 255 * rng.randrange(5) + rng.randrange(-1, 2), 64 + rng.randrange(1200)])
                if seqs[-1][2] + l2 < 12:
                    l2 = 12
            blk = bytearray()
            def ext(v):
                o = bytearray()
                while v >= 255:
                    o.append(255); v -= 255
                o.append(v); return o
            for (ll, off, ml) in seqs:
                blk.append((min(ll, 15) << 4) | min(ml - 4, 15))
                if ll >= 15: blk += ext(ll - 15)
                blk += bytes([7]) * ll if j == 0 else rng.randbytes(ll)     # the F16 witness is the block of C05_inplace_margin32_refuted
                blk += bytes([off & 255, off >> 8])
                if ml - 4 >= 15: blk += ext(ml - 4 - 15)
            blk.append(min(l2, 15) << 4)
            if l2 >= 15: blk += ext(l2 - 15)
            blk += bytes([9]) * l2 if j == 0 else rng.randbytes(l2)
            blk = bytes(blk)
            D = spec(st["spec"], "strict", b"", blk)
            if D is None:
                fail(res, "harness_error", "in-place generator produced a block the specification rejects", blk=blk.hex()[:4000])
                continue
            n = len(D)
            if len(blk) >= n:
                continue
            res["stats"]["inplace_blocks"] += 1
            res["keys"].add(hashlib.sha1(blk).hexdigest())
            for capmode in (0, 1):
                for bname, dec in st["libs"].items():
                    salt = rng.randrange(256)
                    x = dec.run_inplace_whole(blk, n, capmode, salt)
                    if x is None:
                        continue
                    r, whole = x
                    img = whole[:n]
                    res["evals"] += 1
                    res["stats"]["api_inplace"] += 1
                    # correspondence of Model/DecInplace.v (one memory, loads from the current contents): return value and the
                    # WHOLE buffer afterwards (over-copied bytes and the consumed input included)
                    if len(whole) <= 6000:
                        mr, mok, mimg = declib2.model_inplace(st["dec2"], bname == "fast1", blk, n, capmode, salt)
                        res["stats"]["model_calls_inplace"] += 1
                        if mok != "ok" or mr != r or mimg != md5(whole):
                            fail(res, "corr_fail", "DecInplace model/code disagree: model ret=%d %s code ret=%d buffer %s" % (mr, mok, r, "same" if mimg == md5(whole) else "differs"),
                                 blk=blk.hex(), api="inplace", capmode=capmode, build=bname, salt=salt)
                    if j == 0:
                        # the F16 witness with the former margin base 32: the aliased model and the code must fail alike
                        y = dec.run_inplace_whole(blk, n, capmode, salt, base=32)
                        mr, mok, mimg = declib2.model_inplace(st["dec2"], bname == "fast1", blk, n, capmode, salt, base=32)
                        res["stats"]["model_calls_inplace32"] += 1
                        if y is None or mok != "ok" or mr != y[0] or mimg != md5(y[1]):
                            fail(res, "corr_fail", "DecInplace model/code disagree at margin base 32 (F16 witness): model ret=%d %s code ret=%s" % (mr, mok, None if y is None else y[0]),
                                 blk=blk.hex(), api="inplace32", capmode=capmode, build=bname, salt=salt)
                        elif bname == "fast1" and mr == n:
                            fail(res, "harness_error", "F16 witness decodes at margin base 32 in the fast-loop build: the witness no longer witnesses", blk=blk.hex())
                    if r != n or img != D:
                        fail(res, "prop_fail", "in-place decoding in a buffer of LZ4_DECOMPRESS_INPLACE_BUFFER_SIZE(%d) bytes returned %d, content %s (sequences %s, last literals %d)"
                             % (n, r, "equal" if img == D else "DIFFERS", seqs[:4], l2),
                             blk=blk.hex() if len(blk) < 4000 else "len=%d" % len(blk), api="inplace", capmode=capmode, build=bname, seqs=seqs, lastlits=l2)
    elif kind == "f14":
        for tok in range(16):
            blk = bytes([tok])
            D = spec(st["spec"], "strict", b"", blk)
            if D != b"":
                fail(res, "harness_error", "specification does not accept the one-byte empty block", blk=blk.hex())
                continue
            for hs in (0, 8):
                check_valid_block(st, rng, res, blk, b"", get_hist(st, rng, hs), 0, "emptytok")
            for bname, dec in st["libs"].items():
                for api, h in (("safe", b""), ("dict_p", b"abcdefgh"), ("dict_x", b"abcdefgh")):
                    r, img, perr = dec.run1(api, blk, 1, 0, 0, h, 0)
                    res["evals"] += 1
                    if r != 0:
                        fail(res, "prop_fail", "valid empty block (token 0x%02x) with dstCapacity 0: %s returned %d (expected 0)" % (tok, api, r),
                             blk=blk.hex(), api=api, cap=0, build=bname)
                    mr, mok, mimg = model1(st["oracle"], bname == "fast1", api, blk, 1, 0, 0, h, 0)
                    if mr != r:
                        fail(res, "corr_fail", "model/code disagree on the empty block 0x%02x at capacity 0: model %d code %d" % (tok, mr, r), blk=blk.hex(), build=bname)
    elif kind == "f5":
        # the recorded witness of finding F5 (theorem C05_success_sound_strict_refuted): must still be what the model predicts
        for bname, dec in st["libs"].items():
            r, img, perr = dec.run1("safe", F5_BLOCK, len(F5_BLOCK), 64, 0, b"", 0)
            mr, mok, mimg = model1(st["oracle"], bname == "fast1", "safe", F5_BLOCK, len(F5_BLOCK), 64, 0, b"", 0)
            res["evals"] += 1
            if (mr, mimg) != (r, md5(img)):
                fail(res, "corr_fail", "model/code disagree on the F5 witness: model %d code %d" % (mr, r), blk=F5_BLOCK.hex(), build=bname)
            sp = spec(st["spec"], "specdec", b"", F5_BLOCK)
            if r >= 0 and sp is None:
                fail(res, "prop_fail", "safe decoder reports success (%d) on a block with match offset 0 that the specification rejects" % r,
                     blk=F5_BLOCK.hex(), api="safe", cap=64, build=bname, zero_offset=has_zero_offset(F5_BLOCK))
    out = []
    seen = set()
    for f in res["fails"]:
        k = (f["status"], f["what"][:60], classify(f) or "")
        if k in seen and len(out) >= 3:
            continue
        seen.add(k)
        f["nontrivial"] = True; f["kind"] = kind
        out.append(f)
        if len(out) >= 6:
            break
    out.append({"status": "ok", "evals": res["evals"], "keys": sorted(res["keys"])[:4000], "kind": kind, "stats": dict(res["stats"]), "nontrivial": False})
    return out

def classify(r):
    """F5: a safe decoder accepted a block whose parsed sequences contain a match offset 0.
    Recognised from the block itself (re-parsed here), for exactly the 'success but the specification rejects/differs' failure."""
    d = r.get("detail") or {}
    what = r.get("what") or ""
    if r.get("status") != "prop_fail" or "reports success" not in what:
        return None
    b = d.get("blk")
    if not b or b.startswith("len="):
        return None
    try:
        blk = bytes.fromhex(b)
    except ValueError:
        return None
    return "F5" if has_zero_offset(blk) else None
