"""C07 - produced frames conform to the LZ4 frame format specification.
Theorem side: Properties_C07.v over Model/FrameC.v and the audit Model/FrameAudit.v (written from
doc/lz4_Frame_format.md).  Tie: same per-call byte correspondence as C03.  Direct oracle: the extracted
audit (strict block validity with the right history, sizes, flags, checksums by the spec XXH32, EndMark,
content size), descriptor fields against the preferences, block independence (each block of an
independent-blocks frame decoded alone with the dictionary only)."""
import random
import framelib
from capi import Lib
from vlib import Oracle, build_lib

PID = "c07"
THEOREMS = ['C07_frame_conformant', 'C07_header_roundtrip', 'C07_header_bytes', 'C07_independent_blocks', 'C07_linked_window', 'C07_frameSize_wrong', 'C07_compressFrame_conformant', 'C07_audit_sound', "C07_frame_conformant_linked_discharged", "C07_frame_conformant_linked_fast", "C07_frame_conformant_linked_hc_mid", "C07_frame_conformant_linked_hc_opt", "C07_blk_contract_linked", "C07_body_is_C07_frame_conformant",
            "C07_frame_conformant_indep_discharged",
            "C07_frame_conformant_fast_stream_discharged",
            "C07_frame_conformant_hc_stream_discharged",
            "C07_frame_conformant_mid_stream_discharged",
            "C07_parser_bytes_mid", "C07_parser_bytes_chain", "C07_parser_bytes_opt",
            "C07_blk_bytes_unguarded_indep", "C07_blk_bytes_unguarded_fast_stream", "C07_blk_bytes_unguarded_mid_stream",
            "C07_blk_bytes_unguarded_hc_stream", "C07_blk_bytes_unguarded_blk_of"]
ORACLES = ["framec"]
CORRESPONDENCE = [
    "FrameC model == LZ4F_compressBegin*/compressUpdate/uncompressedUpdate/flush/compressEnd (return value and every output byte of every call)",
    "FrameC model == LZ4F_compressFrame / LZ4F_compressFrame_usingCDict (return value and frame bytes)",
    "block contract blk_ok on the model's history: every compressed block of the real output decodes (Spec.spec_decode, strict_valid) to its content with the history the model attributes to that call"]
RULE = ("sessions on one LZ4F_cctx: 1-3 frames, each with random preferences (blockSizeID 0,4..7; linked/independent; block/content checksum; "
        "contentSize absent/exact/wrong; dictID; level -3..12; autoFlush; favorDecSpeed; NULL preferences) x dictionary {none, compressBegin_usingDict, CDict} of "
        "sizes {0,1,7,8,100,4000,65535,65536,70000,100000} x op script {tmp buffer exactly full, k*blockSize+-1, flushes with 0/1/blockSize-1 buffered, "
        "compressed<->uncompressed switches with data buffered, size-0 updates, flush walk through tmpBuff (64 KB relocation), small steps, random} x source placement "
        "{fresh buffer freed and overwritten after the call, same buffer reused, slices of one buffer with stableSrc 0/1, separate kept buffers with stableSrc=1}, "
        "calls outside a frame (cStage), one-shot LZ4F_compressFrame(_usingCDict); 'reuse' sessions: ONE cctx over 4 frames walking every ordered pair of "
        "(fast|HC level) x (no dictionary|compressBegin_usingDict|CDict) x block mode of the second frame (72 transitions per 24 sessions), a quarter of the earlier frames abandoned before "
        "compressEnd, the CDict released right after its frame in every other session, dictionaries = incompressible part ++ theme, input alternating between this frame's and the PREVIOUS "
        "frame's theme (so that anything retained from the previous session yields matches the decoder cannot resolve). non-trivial = frame with >= 2 blocks, a dictionary or an uncompressed update; "
        "distinct = distinct (preferences, dictionary kind/size, input size, script, placement)")
TRUSTED = ["hand-written model Model/FrameC.v of the LZ4F compression API, tied by per-call byte comparison only",
           "abstraction: the model keeps the bytes of tmpIn and of the 64 KB history, not their addresses (tmpIn inside tmpBuff, LZ4F_localSaveDict, stableSrc, relocation): "
           "covered by the run-time validation of every real block against the model's history, not by proof",
           "block compressors appear only through the contract blk_ok (C01/C06/C11/C12 are the properties that establish it); it is re-validated on every block of every run",
           "destination capacities are always the documented bounds (capacity errors are property C10's)",
           "Model/FrameAudit.v renders the conformance conditions of doc/lz4_Frame_format.md (audit_sound: an audited frame is decoded by FrameSpec.frame_decode to the same content)",
           "Spec/FrameSpec.v, Spec/BlockSpec.v, Spec/XXH32.v render the format documents faithfully"]
ASSUMPTIONS = ["preferences enums within their declared values (blockSizeID in {0,4..7}, blockMode/checksum flags in {0,1})",
               "LZ4F_uncompressedUpdate only with independent blocks (documented)", "malloc succeeds", "total input < 2^64 bytes"]

def build(tier):
    return {"lib": build_lib("framec"), "case_timeout": 1800}

def gen_cases(tier, seed):
    rng = random.Random(seed * 1000003 + (3 if PID == "c03" else 7))
    n_sess, n_one, n_big = {"quick": (100, 8, 3), "search": (400, 30, 10), "thorough": (150, 12, 8)}[tier]
    cases = [{"kind": "session", "seed": rng.randrange(1 << 48), "tier": tier} for _ in range(n_sess)]
    cases += [{"kind": "oneshot", "seed": rng.randrange(1 << 48), "tier": tier, "count": 4 if tier != "thorough" else 2} for _ in range(n_one)]
    cases += [{"kind": "session", "seed": rng.randrange(1 << 48), "tier": tier, "big": True} for _ in range(n_big)]
    cases += [{"kind": "equalsize", "seed": rng.randrange(1 << 48), "tier": tier, "count": 3} for _ in range({"quick": 6, "search": 12, "thorough": 20}[tier])]
    # one cctx over 4 frames: every ordered pair of (fast|HC level, no dictionary|usingDict|CDict) x block mode of the second frame
    cases += [{"kind": "reuse", "seed": rng.randrange(1 << 48), "tier": tier, "idx": i} for i in range({"quick": 24, "search": 48, "thorough": 48}[tier])]
    rng.shuffle(cases)
    return [dict(c) for c in framelib.CORPUS] + cases       # regression corpus of repaired defects runs first

def worker_init(ctx):
    return {"L": Lib(ctx["lib"]), "oracle": Oracle(name="framec")}

def run_case(st, case):
    return framelib.run_session_case(st, case, PID)
