"""Streaming / dictionary / context-reuse op scripts on the REAL library (C11, C12, C18).

One arena (a single heap buffer, gaps between its regions poisoned through ASan's manual
poisoning interface when libasan is loaded) holds every source block, dictionary, ring and
save buffer, so that the address relations the code depends on (dictEnd == source, overlap of the
new source with the old dictionary, ...) are chosen by the script and can be mirrored in the
Coq model: a model address is BASE + arena offset, NULL is 0.

Fast family : every operation is also run on the extracted model (oracle `stream`, Model/FastStream.v)
and return value, output bytes and the whole public LZ4_stream_t state are compared exactly.
HC family   : direct oracles only (not modelled in Coq).

Direct oracles on every successful block:
  * the independent decoder extracted from the Coq block specification (`strict`: format + end
    conditions) with history = last 64 KB of what the DEcoder side has, must return the source;
  * real decoders in the documented geometries: LZ4_decompress_safe_usingDict (dictionary external /
    as prefix), LZ4_decompress_safe_continue (ring of LZ4_decoderRingBufferSize, synchronised mirror).
"""
import ctypes, struct, random, collections, hashlib
from ctypes import c_int, c_void_p, c_size_t, byref
import gens
from capi import Lib, Buf, libc
from vlib import Oracle, hx, md5, build_lib

BASE = 1 << 32            # model address of arena offset 0 (NULL = 0 can never collide with NULL + u32)
K64 = 65536
MAXI = 0x7E000000
FAST_STATE = 16416
HC_OFF = 262144           # offset of `end` in LZ4HC_CCtx_internal

def bound(n):
    return 0 if n < 0 or n > MAXI else n + n // 255 + 16

# ------------------------------------------------------------------ ASan manual poisoning
try:
    _poison = libc.__asan_poison_memory_region
    _unpoison = libc.__asan_unpoison_memory_region
    _poison.argtypes = [c_void_p, c_size_t]; _unpoison.argtypes = [c_void_p, c_size_t]
    _poison.restype = None; _unpoison.restype = None
    HAVE_POISON = True
except AttributeError:
    HAVE_POISON = False

_FILL = None
def fillpat():
    global _FILL
    if _FILL is None:
        _FILL = random.Random(0xF111).randbytes(65521)
    return _FILL

class Arena:
    """regions are handed out left to right; between two regions lies a poisoned gap"""
    def __init__(self, size):
        self.size = size
        self.buf = Buf(size, fill=fillpat())
        self.top = 64
        self.gaps = []
    def alloc(self, n, gap=40, align=1):
        off = self.top
        if align > 1:
            off = (off + align - 1) // align * align
        end = off + n
        g0, g1 = end, end + gap
        if g1 > self.size:
            raise MemoryError("arena too small: need %d have %d" % (g1, self.size))
        if HAVE_POISON:
            _poison(self.buf.p + g0, gap)
            self.gaps.append((g0, gap))
        self.top = g1
        return BASE + off
    def ptr(self, addr):
        return 0 if addr == 0 else self.buf.p + (addr - BASE)
    def addr(self, ptr):
        return 0 if not ptr else ptr - self.buf.p + BASE
    def inside(self, ptr):
        return self.buf.p <= ptr <= self.buf.p + self.size
    def write(self, addr, data):
        if data:
            ctypes.memmove(self.ptr(addr), data, len(data))
    def read(self, addr, n):
        return ctypes.string_at(self.ptr(addr), n) if n > 0 else b""
    def free(self):
        if HAVE_POISON:
            for g0, gap in self.gaps:
                _unpoison(self.buf.p + g0, gap)
        self.buf.free()

# ------------------------------------------------------------------ block parsing (python side, statistics only)
def parse_seqs(out):
    """[(litlen, offset, matchlen)] of a well-formed block, None when malformed (statistics only)"""
    i, n, res = 0, len(out), []
    try:
        while True:
            tok = out[i]; i += 1
            ll = tok >> 4
            if ll == 15:
                while True:
                    b = out[i]; i += 1; ll += b
                    if b != 255: break
            i += ll
            if i >= n:
                res.append((ll, 0, 0)); return res if i == n else None
            off = out[i] | (out[i + 1] << 8); i += 2
            ml = tok & 15
            if ml == 15:
                while True:
                    b = out[i]; i += 1; ml += b
                    if b != 255: break
            res.append((ll, off, ml + 4))
    except IndexError:
        return None

def history_refs(out):
    """(number of matches, number reaching before the block start, max reach before the start)"""
    sq = parse_seqs(out)
    if not sq:
        return 0, 0, 0
    pos = nm = nh = far = 0
    for ll, off, ml in sq:
        pos += ll
        if ml:
            nm += 1
            if off > pos:
                nh += 1; far = max(far, off - pos)
            pos += ml
    return nm, nh, far

# ------------------------------------------------------------------ data
def make_block(rng, n, hist, base, near=None):
    """n bytes made of pieces: fresh random bytes, slices of the visible history (so that matches into
    every region of the previous 64 KB / the dictionary exist), slices of a per-session base text."""
    out = bytearray()
    H = len(hist)
    while len(out) < n:
        k = rng.random()
        want = n - len(out)
        if k < 0.45 and H >= 4:
            l = min(want, rng.choice([4, 5, 8, 12, 19, 40, 100, 300, 1000, 5000]))
            r = rng.random()
            if r < 0.25:
                s = max(0, H - rng.randrange(1, min(H, 70) + 1))              # very near
            elif r < 0.5:
                s = max(0, H - min(H, K64) + rng.randrange(0, 40))            # far end of the window
            elif r < 0.6:
                s = max(0, H - min(H, K64 + 40) + rng.randrange(0, 40))       # just outside / at the edge of the window
            elif r < 0.7:
                s = rng.randrange(0, min(H, 64))                                # very beginning of what exists
            else:
                s = rng.randrange(0, H)
            out += hist[s:s + l]
        elif k < 0.7 and len(base) >= 8:
            l = min(want, rng.choice([6, 16, 64, 200, 2000]))
            s = rng.randrange(0, len(base) - 4)
            out += base[s:s + l]
        elif k < 0.8 and len(out) >= 4:
            l = min(want, rng.choice([4, 8, 30, 300]))
            s = rng.randrange(0, len(out))
            for j in range(l):
                out.append(out[s + j])
        else:
            out += rng.randbytes(min(want, rng.choice([1, 2, 3, 5, 9, 17, 60, 400])))
    return bytes(out[:n])

def make_base(rng, n=6000):
    return gens.data(rng, rng.choice(["text", "runs", "period", "twosym", "mixed", "selfdict", "barely"]), n)

# ------------------------------------------------------------------ result plumbing
def new_res():
    return {"evals": 0, "fails": [], "keys": set(), "stats": collections.Counter()}

def key_of(*parts):
    h = hashlib.sha1()
    for p in parts:
        h.update(p if isinstance(p, (bytes, bytearray)) else str(p).encode()); h.update(b"|")
    return h.hexdigest()[:20]

def finish(res, kind):
    out = []
    for f in res["fails"][:3]:
        f["nontrivial"] = True; f["kind"] = kind
        out.append(f)
    out.append({"status": "ok", "evals": res["evals"], "keys": sorted(res["keys"])[:3000], "kind": kind,
                "stats": dict(res["stats"]), "nontrivial": False})
    return out

class Stop(Exception):
    """a failure was recorded; abandon the rest of the script"""

# ------------------------------------------------------------------ decoder side
class DecSide:
    """What the decoder of one stream session has: H = dictionary ++ every block emitted so far.
    Each emitted block is checked by the extracted specification decoder and by the real decoders."""
    def __init__(self, sess, name, maxblock):
        self.s = sess; self.name = name
        self.H = b""
        self.maxblock = max(maxblock, 16)
        self.ring = None; self.sd = None; self.rpos = 0; self.dictb = None
        self.mir = None; self.mdict = None
        self.dict_addr = 0
        self.nblocks = 0
        self.no_mirror = False
    def reset(self, dict_=b"", dict_addr=0):
        """new stream session; the decoder is given the dictionary (its last 64 KB), which lies at dict_addr in the arena"""
        if dict_ and len(dict_) > K64:
            if dict_addr: dict_addr += len(dict_) - K64
            dict_ = dict_[-K64:]
        self.H = bytes(dict_) if dict_ else b""
        self.dict_addr = dict_addr if dict_ else 0
        self.drop()
        self.nblocks = 0
        self.no_mirror = False
    def drop(self):
        for b in (self.ring, self.sd, self.dictb, self.mdict):
            if b: b.free()
        self.ring = self.sd = self.dictb = self.mdict = None
        if self.mir: self.mir[0].free(); self.mir[1].free(); self.mir = None
    def fail(self, what, detail):
        self.s.fail("prop_fail", what, detail)
    def block(self, src, out, addr):
        """one successfully compressed block (source bytes, compressed bytes, arena address of the source)"""
        s = self.s; lib = s.lib; res = s.res
        n = len(src)
        hist = self.H[-K64:]
        want = "ok %d %s" % (n, md5(src))
        a = s.orc_block.ask("strict", hx(hist), hx(out))
        res["evals"] += 1
        det = {"stream": self.name, "n": n, "hist_len": len(hist), "block_no": self.nblocks,
               "out": out.hex() if len(out) <= 300 else "len=%d" % len(out)}
        if a != want:
            self.fail("block does not decode to its source with the decoder-side history (independent decoder from the block specification): got '%s', expected '%s'" % (a, want), det)
        nm, nh, far = history_refs(out)
        res["stats"]["blocks"] += 1
        if nh:
            res["stats"]["blocks_referencing_history"] += 1
            res["stats"]["reach_" + ("<=64" if far <= 64 else "<=4K" if far <= 4096 else "<=60K" if far <= 60000 else "<=64K")] += 1
            res["keys"].add(key_of(src, out, len(hist)))
        elif nm:
            res["stats"]["blocks_matches_inside_only"] += 1
        # real decoders: stateless, dictionary external and as prefix
        if s.rng.random() < s.p_realdec or self.nblocks < 2:
            cb = Buf(len(out), data=out)
            for mode in ("ext", "prefix"):
                if mode == "ext":
                    db = Buf(len(hist), data=hist); ob = Buf(n, fill=0xA5)
                    r = lib.decompress_safe_usingDict(cb.p, ob.p, len(out), n, db.p, len(hist))
                    got = ob.bytes(n) if r == n else None
                    db.free(); ob.free()
                else:
                    wb = Buf(len(hist) + n, data=hist + b"\xA5" * n)
                    r = lib.decompress_safe_usingDict(cb.p, (wb.p or 0) + len(hist), len(out), n, wb.p, len(hist))
                    got = wb.bytes(n, len(hist)) if r == n else None
                    if wb.bytes(len(hist)) != hist:
                        self.fail("LZ4_decompress_safe_usingDict modified its dictionary (prefix placement)", det)
                    wb.free()
                res["evals"] += 1
                if r != n or got != src:
                    self.fail("LZ4_decompress_safe_usingDict (dictionary %s, %d bytes) returned %d / wrong bytes, expected %d" % (mode, len(hist), r, n), det)
            cb.free()
        # real streaming decoder, ring buffer of LZ4_decoderRingBufferSize(maxblock), not synchronised with the encoder
        if s.use_ring:
            if self.ring is not None and n > self.ringM:
                for b in (self.ring, self.sd, self.dictb): b.free()
                self.ring = None
            if self.ring is None:
                self.ringM = max(self.maxblock, n)
                rs = lib.decoderRingBufferSize(self.ringM)
                self.ring = Buf(rs, fill=0x5A); self.rsize = rs; self.rpos = 0
                self.sd = Buf(32, fill=0)
                self.dictb = Buf(len(hist), data=hist)       # the dictionary / earlier history, external
                lib.setStreamDecode(self.sd.p, self.dictb.p, len(hist))
            if self.rsize - self.rpos < self.ringM:
                self.rpos = 0
            cb = Buf(len(out), data=out)
            r = lib.decompress_safe_continue(self.sd.p, cb.p, self.ring.p + self.rpos, len(out), n)
            got = self.ring.bytes(n, self.rpos) if r == n else None
            cb.free()
            res["evals"] += 1
            if r != n or got != src:
                self.fail("LZ4_decompress_safe_continue (ring buffer of LZ4_decoderRingBufferSize(%d)) returned %d / wrong bytes, expected %d" % (self.ringM, r, n), det)
            self.rpos += n
        # real streaming decoder, synchronised mirror of the encoder arena (same positions, same update rule)
        if s.use_mirror and addr and not self.no_mirror:
            if self.mir is None:
                mb = Buf(s.arena.size, fill=0x3C)
                sd = Buf(32, fill=0)
                if self.dict_addr and self.nblocks == 0:
                    mb.write(self.dict_addr - BASE, self.H)
                    lib.setStreamDecode(sd.p, mb.p + (self.dict_addr - BASE), len(self.H))
                else:
                    self.mdict = Buf(len(hist), data=hist)
                    lib.setStreamDecode(sd.p, self.mdict.p, len(hist))
                self.mir = (mb, sd)
            mb, sd = self.mir
            cb = Buf(len(out), data=out)
            off = addr - BASE
            r = lib.decompress_safe_continue(sd.p, cb.p, mb.p + off, len(out), n)
            got = mb.bytes(n, off) if r == n else None
            cb.free()
            res["evals"] += 1
            if r != n or got != src:
                self.fail("LZ4_decompress_safe_continue (synchronised mirror of the encoder buffers) returned %d / wrong bytes, expected %d" % (r, n), det)
        self.H = (self.H + src)[-(K64 + 64):]
        self.nblocks += 1
    def drop_mirror(self):
        """LZ4_saveDict(HC) while a dictionary context stays attached: the synchronised decoder cannot follow (LZ4_setStreamDecode
        takes ONE dictionary segment, the encoder now has dictionary ++ saved bytes): not used for the rest of the session;
        the specification decoder, the stateless decoders and the ring-buffer decoder go on"""
        if self.mir:
            self.mir[0].free(); self.mir[1].free(); self.mir = None
        if self.mdict:
            self.mdict.free(); self.mdict = None
        self.no_mirror = True
        self.s.res["stats"]["mirror_decoder_dropped"] += 1
    def mirror_save(self, addr, n):
        """the decoder's counterpart of LZ4_saveDict: move its last n bytes to the same place, setStreamDecode"""
        if self.mir is None:
            return
        mb, sd = self.mir
        h = self.H[-n:] if n > 0 else b""
        off = addr - BASE
        if h:
            ctypes.memmove(mb.p + off, h, len(h))
        self.s.lib.setStreamDecode(sd.p, mb.p + off if h else None, len(h))

# ------------------------------------------------------------------ session
class Sess:
    """One script: arena + streams (fast and HC) on the real library (+ extracted model for the fast family)."""
    def __init__(self, st, rng, res, info, arena_size, model=True, use_ring=True, use_mirror=True, p_realdec=0.3):
        self.st = st; self.lib = st["lib"]; self.rng = rng; self.res = res; self.info = info
        self.orc_block = st["oracle"]
        self.orc = st.get("stream_oracle") if model else None
        self.arena = Arena(arena_size)
        self.fast = {}     # sid -> Buf
        self.hc = {}
        self.dec = {}      # (fam, sid) -> DecSide
        self.log = []
        self.use_ring = use_ring; self.use_mirror = use_mirror; self.p_realdec = p_realdec
        self.failed_state = set()     # streams whose last compression failed (must be reset before reuse)
        self.hmodel = {}              # HC sid -> the extracted lz4mid model is synchronised with the real context
        if self.orc:
            a = self.orc.ask("reset")
            if a != "ok":
                raise RuntimeError("stream oracle: " + a)
    def close(self):
        for d in self.dec.values():
            d.drop()
        for b in list(self.fast.values()) + list(self.hc.values()):
            b.free()
        self.arena.free()
    # -- failures
    def fail(self, status, what, detail=None):
        d = dict(self.info)
        d["ops"] = self.log[-40:]
        if detail: d.update(detail)
        self.res["fails"].append({"status": status, "what": what, "detail": d})
        raise Stop()
    # -- memory
    def write(self, addr, data):
        self.arena.write(addr, data)
        self.log.append("w %d+%d" % (addr - BASE, len(data)))
        if self.orc and data:
            a = self.orc.ask("w", str(addr), hx(data))
            if a != "ok":
                self.fail("harness_error", "stream oracle w: " + a)
    # -- fast streams: state
    def fstate(self, sid):
        raw = self.fast[sid].bytes(FAST_STATE)
        dp, cp = struct.unpack_from("<QQ", raw, 16384)
        cur, tt, ds = struct.unpack_from("<III", raw, 16400)
        dctx = -1
        if cp:
            dctx = -2
            for k, b in self.fast.items():
                if b.p == cp: dctx = k
        if dp and not self.arena.inside(dp):
            daddr = -1
        else:
            daddr = self.arena.addr(dp)
        return {"cur": cur, "tt": tt, "ds": ds, "dict": daddr, "dctx": dctx, "tab": md5(raw[:16384]), "raw": raw}
    def dict_region(self, sid):
        """[start, end) model addresses the fast stream designates as dictionary (last 64 KB of it)"""
        s = self.fstate(sid)
        if s["ds"] == 0 or s["dict"] <= 0:
            return None
        e = s["dict"] + s["ds"]
        return (max(s["dict"], e - K64), e)
    def cmp_model(self, sid, opname, ret, out, consumed=None, extra=None):
        """compare the model's answer for the same op with the real result and the public state"""
        a = self.model_answer
        t = a.split()
        if len(t) < 4 or "=" not in a:
            self.fail("harness_error", "stream oracle answered '%s' to %s" % (a[:200], opname))
        m = {"ret": int(t[0]), "consumed": int(t[1]), "len": int(t[2]), "md5": t[3]}
        for x in t[4:]:
            k, v = x.split("=")
            m[k] = v
        s = self.fstate(sid)
        bad = None
        if m["ret"] != ret:
            bad = "return value: model %d, code %d" % (m["ret"], ret)
        elif out is not None and ret > 0 and (m["len"] != len(out) or m["md5"] != md5(out)):
            bad = "output bytes differ (ret=%d)" % ret
        elif consumed is not None and ret > 0 and consumed != m["consumed"]:
            bad = "consumed: model %d, code %d" % (m["consumed"], consumed)
        else:
            code = (str(s["cur"]), str(s["tt"]), str(s["ds"]), str(s["dict"]), "1" if s["dctx"] != -1 else "0", s["tab"])
            mod = (m["cur"], m["tt"], m["ds"], m["dict"], m["dctx"], m["tab"])
            if code != mod:
                names = ["currentOffset", "tableType", "dictSize", "dictionary", "dictCtx!=NULL", "hashTable"]
                diff = [("%s: code %s model %s" % (names[i], code[i], mod[i])) for i in range(6) if code[i] != mod[i]]
                bad = "context after the call differs: " + "; ".join(diff)
        if bad is None and extra:
            for k, v in extra.items():
                if m.get(k) != v:
                    bad = "%s: code %s model %s" % (k, v, m.get(k))
        self.res["evals"] += 1
        if bad:
            self.fail("corr_fail", "FastStream model/code disagree after %s: %s" % (opname, bad))
    def ask(self, *toks):
        self.model_answer = self.orc.ask(*[str(x) for x in toks])
    # -- fast streams: ops
    def f_new(self, sid, junk=True):
        b = Buf(FAST_STATE, data=self.rng.randbytes(FAST_STATE) if junk else bytes(FAST_STATE))
        self.fast[sid] = b
        self.dec[("f", sid)] = DecSide(self, "fast%d" % sid, 16)
        self.f_init(sid)
    def f_init(self, sid):
        self.lib.initStream(self.fast[sid].p, FAST_STATE)
        self.log.append("init f%d" % sid)
        self.failed_state.discard(("f", sid))
        self.dec[("f", sid)].reset()
        if self.orc:
            self.ask("init", sid); self.cmp_model(sid, "LZ4_initStream", 0, None)
    def f_reset_fast(self, sid):
        self.lib.resetStream_fast(self.fast[sid].p)
        self.log.append("rsf f%d" % sid)
        self.failed_state.discard(("f", sid))
        self.dec[("f", sid)].reset()
        if self.orc:
            self.ask("rsf", sid); self.cmp_model(sid, "LZ4_resetStream_fast", 0, None)
    def f_load(self, sid, addr, n, slow=False):
        f = self.lib.loadDictSlow if slow else self.lib.loadDict
        r = f(self.fast[sid].p, self.arena.ptr(addr), n)
        self.log.append("ld%s f%d %d+%d -> %d" % ("S" if slow else "", sid, addr - BASE, n, r))
        self.failed_state.discard(("f", sid))
        d = self.arena.read(addr, n)
        self.res["stats"]["loadDict" + ("Slow" if slow else "")] += 1
        want = 0 if n < 8 else min(n, K64)
        if r != want:
            self.fail("prop_fail", "LZ4_loadDict%s(%d bytes) returned %d, documented: the loaded size %d (last 64 KB)" % ("Slow" if slow else "", n, r, want))
        self.dec[("f", sid)].reset(d, addr)
        if self.orc:
            self.ask("ld", sid, addr, n, 1 if slow else 0); self.cmp_model(sid, "LZ4_loadDict" + ("Slow" if slow else ""), r, None)
        return r
    def f_attach(self, sid, did):
        self.lib.attach_dictionary(self.fast[sid].p, self.fast[did].p if did is not None else None)
        self.log.append("att f%d <- %s" % (sid, "f%d" % did if did is not None else "NULL"))
        if did is not None:
            ds = self.fstate(did)
            dd = self.arena.read(ds["dict"], ds["ds"]) if ds["ds"] and ds["dict"] > 0 else b""
            self.dec[("f", sid)].reset(dd, ds["dict"])
        self.res["stats"]["attach"] += 1
        if self.orc:
            self.ask("att", sid, did if did is not None else -1); self.cmp_model(sid, "LZ4_attach_dictionary", 0, None)
    def f_continue(self, sid, addr, n, cap, acc, force_ext=False, expect_ok=None):
        """LZ4_compress_fast_continue (or the hidden LZ4_compress_forceExtDict); returns (ret, out)"""
        lib = self.lib
        if force_ext:
            cap = bound(n)
        dst = Buf(max(cap, 0), fill=0xC3)
        snaps = self.snap_dicts(sid)
        src = self.arena.read(addr, n) if addr else b""
        if force_ext:
            r = lib.L.LZ4_compress_forceExtDict(c_void_p(self.fast[sid].p), c_void_p(self.arena.ptr(addr)), c_void_p(dst.p), c_int(n))
        else:
            r = lib.compress_fast_continue(self.fast[sid].p, self.arena.ptr(addr) or None, dst.p, n, cap, acc)
        out = dst.bytes(r) if 0 < r <= cap else b""
        dst.free()
        self.log.append("%s f%d %d+%d cap=%d acc=%d -> %d" % ("fext" if force_ext else "cont", sid, addr - BASE if addr else -1, n, cap, acc, r))
        st = self.res["stats"]
        st["fast_continue"] += 1
        st["fast_ret_" + ("pos" if r > 0 else "zero")] += 1
        st["fast_n_" + size_class(n)] += 1
        if r < 0 or r > max(cap, 0):
            self.fail("prop_fail", "LZ4_compress_fast_continue returned %d with capacity %d" % (r, cap))
        if self.arena.read(addr, n) != src:
            self.fail("prop_fail", "compression modified its source")
        self.check_snaps(snaps, "LZ4_compress_fast_continue")
        try:
            # property oracles first (a violated property is reported as such even when the model disagrees too)
            if r > 0:
                self.dec[("f", sid)].maxblock = max(self.dec[("f", sid)].maxblock, n)
                self.dec[("f", sid)].block(src, out, addr)
        finally:
            if self.orc:
                if force_ext: self.ask("fext", sid, addr, n)
                else: self.ask("cont", sid, addr, n, cap, acc)
                if not self.res["fails"]:
                    self.cmp_model(sid, "LZ4_compress_forceExtDict" if force_ext else "LZ4_compress_fast_continue", r, out)
        if r > 0:
            pass
        else:
            self.failed_state.add(("f", sid))
            if expect_ok:
                self.fail("prop_fail", "LZ4_compress_fast_continue failed with capacity %d >= LZ4_compressBound(%d)" % (cap, n))
        return r, out
    def f_save(self, sid, addr, n):
        before = self.fstate(sid)
        r = self.lib.saveDict(self.fast[sid].p, self.arena.ptr(addr) or None, n)
        self.log.append("save f%d %d+%d -> %d" % (sid, addr - BASE if addr else -1, n, r))
        self.res["stats"]["saveDict"] += 1
        want = min(n if 0 <= n <= K64 else K64, before["ds"])
        if r != want:
            self.fail("prop_fail", "LZ4_saveDict(%d) returned %d with dictSize %d" % (n, r, before["ds"]))
        d = self.dec[("f", sid)]
        if r > 0 and d.H[-r:] != self.arena.read(addr, r) and len(d.H) >= r:
            self.fail("prop_fail", "LZ4_saveDict did not save the last %d bytes of the stream" % r)
        if self.orc:
            self.ask("save", sid, addr, n)
            self.cmp_model(sid, "LZ4_saveDict", r, None, extra={"mem": md5(self.arena.read(addr, r))})
        if self.fstate(sid)["dctx"] != -1:
            d.drop_mirror()        # (only before the first non-empty block: the dictionary context is still attached)
        else:
            d.mirror_save(addr, r)
        return r
    def f_oneshot(self, sid, kind, addr, n, cap, acc):
        """kind: fr (LZ4_compress_fast_extState_fastReset) | ext (LZ4_compress_fast_extState) | dsz (LZ4_compress_destSize_extState)"""
        lib = self.lib
        dst = Buf(max(cap, 0), fill=0xC3)
        src = self.arena.read(addr, n)
        consumed = n
        if kind == "fr":
            r = lib.compress_fast_extState_fastReset(self.fast[sid].p, self.arena.ptr(addr), dst.p, n, cap, acc)
        elif kind == "ext":
            r = lib.compress_fast_extState(self.fast[sid].p, self.arena.ptr(addr), dst.p, n, cap, acc)
        else:
            sz = c_int(n)
            r = lib.compress_destSize_extState(self.fast[sid].p, self.arena.ptr(addr), dst.p, byref(sz), cap, acc)
            consumed = sz.value
        out = dst.bytes(r) if 0 < r <= cap else b""
        dst.free()
        self.log.append("%s f%d %d+%d cap=%d acc=%d -> %d (%d)" % (kind, sid, addr - BASE, n, cap, acc, r, consumed))
        st = self.res["stats"]
        st["fast_oneshot_" + kind] += 1
        st["fast_ret_" + ("pos" if r > 0 else "zero")] += 1
        st["fast_n_" + size_class(n)] += 1
        self.failed_state.discard(("f", sid))
        if r < 0 or r > max(cap, 0):
            self.fail("prop_fail", "one-shot compressor (%s) returned %d with capacity %d" % (kind, r, cap))
        d = self.dec[("f", sid)]
        d.reset()
        try:
            if r > 0:
                if kind == "dsz" and not (0 <= consumed <= n):
                    self.fail("prop_fail", "destSize consumed %d of %d" % (consumed, n))
                self.independent(src[:consumed], out, "fast one-shot " + kind)
            elif cap >= bound(n) and kind != "dsz":
                self.fail("prop_fail", "one-shot compressor (%s) failed with capacity %d >= bound" % (kind, cap))
        finally:
            if self.orc:
                self.ask(kind, sid, addr, n, cap, acc)
                if not self.res["fails"]:
                    self.cmp_model(sid, {"fr": "LZ4_compress_fast_extState_fastReset", "ext": "LZ4_compress_fast_extState", "dsz": "LZ4_compress_destSize_extState"}[kind],
                                   r, out, consumed=consumed if kind == "dsz" else None)
        return r, out
    def independent(self, src, out, what):
        """a block that must decode on its own (no history)"""
        n = len(src)
        a = self.orc_block.ask("strict", "-", hx(out))
        self.res["evals"] += 1
        self.res["stats"]["independent_blocks"] += 1
        if a != "ok %d %s" % (n, md5(src)):
            self.fail("prop_fail", "%s: block does not decode to its input without history (a match refers to earlier, unrelated data?): decoder says '%s'" % (what, a),
                      {"out": out.hex() if len(out) <= 300 else "len=%d" % len(out), "n": n})
        cb = Buf(len(out), data=out); ob = Buf(n, fill=0xA5)
        r = self.lib.decompress_safe(cb.p, ob.p, len(out), n)
        got = ob.bytes(n) if r == n else None
        cb.free(); ob.free()
        if r != n or got != src:
            self.fail("prop_fail", "%s: LZ4_decompress_safe returned %d / wrong bytes, expected %d" % (what, r, n))
        if history_refs(out)[0]:
            self.res["keys"].add(key_of(src, out, what))
    def f_shift(self, sid, delta):
        """state injection: add delta to currentOffset and to every non-zero table entry (u32 table)"""
        raw = bytearray(self.fast[sid].bytes(FAST_STATE))
        cur, tt, ds = struct.unpack_from("<III", raw, 16400)
        if tt != 2:            # only used 32-bit tables (Proofs.FastStreamProofs.shift_inv)
            return False
        tab = list(struct.unpack_from("<4096I", raw, 0))
        tab = [(x + delta) & 0xFFFFFFFF if x else 0 for x in tab]
        struct.pack_into("<4096I", raw, 0, *tab)
        struct.pack_into("<I", raw, 16400, (cur + delta) & 0xFFFFFFFF)
        self.fast[sid].write(0, bytes(raw))
        self.log.append("shift f%d +%d (cur %d -> %d)" % (sid, delta, cur, cur + delta))
        self.res["stats"]["state_injection"] += 1
        if self.orc:
            self.ask("shift", sid, delta); self.cmp_model(sid, "state injection", 0, None)
        return True
    # -- shared dictionary objects must never change
    def snap_dicts(self, sid):
        """snapshot of the dictionary stream attached to fast stream sid (whole LZ4_stream_t + dictionary bytes)"""
        s = self.fstate(sid)
        if s["dctx"] < 0:
            return None
        ds = self.fstate(s["dctx"])
        return (s["dctx"], ds["raw"], ds["dict"], self.arena.read(ds["dict"], ds["ds"]) if ds["ds"] else b"")
    def check_snaps(self, snaps, what):
        if not snaps:
            return
        did, raw, daddr, dbytes = snaps
        self.res["stats"]["dict_stream_memcmp"] += 1
        if self.fast[did].bytes(FAST_STATE) != raw:
            self.fail("prop_fail", "%s modified the attached dictionary stream (LZ4_stream_t differs byte-wise after use)" % what)
        if dbytes and self.arena.read(daddr, len(dbytes)) != dbytes:
            self.fail("prop_fail", "%s modified the dictionary buffer" % what)

    # ------------------------------------------------------------ HC streams
    # levels 1-2 (LZ4MID): every call is mirrored on the extracted Model.HcMidStream (oracle commands h*), levels 3-9
    # (hash chain) on Model.HcChainStream (commands c*), and the model's whole view of the context is compared after every
    # call; levels >= 10, strategy changes inside a history and the calls the models leave out (answer "out"): direct
    # oracles only, the model is re-synchronised from the real context (himport / cimport) before the next mirrored call.
    # self.hmodel[sid]: None/False = not synchronised, "h" / "c" = synchronised in that model.
    def haddr(self, ptr):
        if not ptr: return 0
        return self.arena.addr(ptr) if self.arena.inside(ptr) else -1
    def hview(self, sid):
        """the lz4mid view of the real context, in the model's vocabulary"""
        s = self.hstate(sid)
        raw = self.hc[sid].bytes(131072)
        did = -1
        if s["dctx"]:
            did = -2
            for k, b in self.hc.items():
                if b.p == s["dctx"]: did = k
        return {"end": self.haddr(s["end"]), "ps": self.haddr(s["prefixStart"]), "ds": self.haddr(s["dictStart"]),
                "dl": s["dictLimit"], "ll": s["lowLimit"], "ntu": s["nextToUpdate"], "lvl": s["level"], "dirty": 1 if s["dirty"] else 0,
                "dctx": did, "h4": md5(raw[:65536]), "h8": md5(raw[65536:]), "raw": raw,
                "ht": md5(raw), "ct": md5(self.hc[sid].bytes(131072, 131072)), "fav": 1 if s["favor"] else 0}
    def h_import(self, sid, kind="h"):
        """(re)synchronise the model [kind] with the real context: used after calls that are outside the model"""
        v = self.hview(sid)
        if v["end"] < 0 or v["ps"] < 0 or v["ds"] < 0:
            return False
        tab = v["raw"].hex() if kind == "h" else (v["raw"] + self.hc[sid].bytes(131072, 131072)).hex()
        args = [str(sid), str(v["end"]), str(v["ps"]), str(v["ds"]), str(v["dl"]), str(v["ll"]), str(v["ntu"]), str(v["lvl"]), str(v["dirty"])]
        if kind == "o": args.append(str(v["fav"]))
        a = self.orc.ask(kind + "import", *(args + [tab]))
        if "=" not in a:
            self.fail("harness_error", "stream oracle %simport: %s" % (kind, a[:200]))
        self.hmodel[sid] = kind
        if v["dctx"] >= 0:
            if self.hmodel.get(v["dctx"]) != kind:
                self.h_import(v["dctx"], kind)
            self.orc.ask(kind + "att", str(sid), str(v["dctx"]))
        elif v["dctx"] == -1:
            self.orc.ask(kind + "att", str(sid), "-1")
        self.res["stats"]["hc_model_import_" + kind] += 1
        return True
    def h_model_ready(self, sid, op):
        """in which model is this call mirrored ("h" / "c"), or None?  [op]: the strategy of the parser the call runs
        (kind_of_level), None when no model covers it, False for pure bookkeeping (mirrored wherever the context is synchronised)"""
        if not self.orc or op is None:
            return None
        cur = self.hmodel.get(sid) or None
        if op is False or cur == op or (cur == "o" and op == "c"):      # the "o" model covers levels 3..12 (chain <-> opt on the same tables)
            if cur:
                d = self.hview(sid)["dctx"]
                if d >= 0 and self.hmodel.get(d) != cur:
                    self.h_import(d, cur); self.orc.ask(cur + "att", str(sid), str(d))
            return cur
        return op if self.h_import(sid, op) else None
    def hcmp(self, sid, opname, ret, out, consumed=None, extra=None):
        a = self.model_answer
        st = self.res["stats"]
        if a == "out":
            self.hmodel[sid] = False
            st["hc_model_out"] += 1
            return
        t = a.split()
        if len(t) < 4 or "=" not in a:
            self.fail("harness_error", "stream oracle answered '%s' to %s" % (a[:200], opname))
        m = {"ret": int(t[0]), "consumed": int(t[1]), "len": int(t[2]), "md5": t[3]}
        for x in t[4:]:
            k, v = x.split("="); m[k] = v
        c = self.hview(sid)
        bad = None
        if m["ret"] != ret:
            bad = "return value: model %d, code %d" % (m["ret"], ret)
        elif out is not None and ret > 0 and (m["len"] != len(out) or m["md5"] != md5(out)):
            bad = "output bytes differ (ret=%d)" % ret
        elif consumed is not None and ret > 0 and consumed != m["consumed"]:
            bad = "consumed: model %d, code %d" % (m["consumed"], consumed)
        else:
            names = ["end", "ps", "ds", "dl", "ll", "ntu", "lvl", "dirty"] + (["ht", "ct"] if "ct" in m else ["h4", "h8"]) + (["fav"] if "fav" in m else [])
            diff = ["%s: code %s model %s" % (k, c[k], m[k]) for k in names if str(c[k]) != m[k]]
            if (c["dctx"] != -1) != (m["dctx"] == "1"):
                diff.append("dictCtx!=NULL: code %s model %s" % (c["dctx"] != -1, m["dctx"]))
            if diff:
                bad = "context after the call differs (end/ps/ds = end/prefixStart/dictStart, dl/ll/ntu = dictLimit/lowLimit/nextToUpdate): " + "; ".join(diff)
        if bad is None and extra:
            for k, v in extra.items():
                if m.get(k) != v:
                    bad = "%s: code %s model %s" % (k, v, m.get(k))
        self.res["evals"] += 1
        st["hc_model_compared"] += 1
        if "fav" in m: st["hc_opt_model_compared"] += 1
        elif "ct" in m: st["hc_chain_model_compared"] += 1
        if bad:
            self.fail("corr_fail", "%s model/code disagree after %s: %s" % ("HcOptStream" if "fav" in m else "HcChainStream" if "ct" in m else "HcMidStream", opname, bad))
    def hstate(self, sid):
        raw = self.hc[sid].bytes(40, HC_OFF)
        end, ps, dstart = struct.unpack_from("<QQQ", raw, 0)
        dl, ll, ntu = struct.unpack_from("<III", raw, 24)
        lvl, fav, dirty = struct.unpack_from("<hbb", raw, 36)
        (dctx,) = struct.unpack_from("<Q", self.hc[sid].bytes(8, HC_OFF + 40), 0)
        return {"end": end, "prefixStart": ps, "dictStart": dstart, "dictLimit": dl, "lowLimit": ll, "nextToUpdate": ntu,
                "level": lvl, "favor": fav, "dirty": dirty, "dctx": dctx}
    def h_regions(self, sid):
        """model-address intervals the HC stream may still reference (prefix, external segment), last 64 KB"""
        s = self.hstate(sid)
        out = []
        if s["prefixStart"] and s["end"] > s["prefixStart"] and self.arena.inside(s["end"]):
            e = self.arena.addr(s["end"]); b = self.arena.addr(s["prefixStart"])
            out.append((max(b, e - K64), e))
        xl = s["dictLimit"] - s["lowLimit"]
        if s["dictStart"] and xl > 0 and self.arena.inside(s["dictStart"]) and s["dictStart"] != s["prefixStart"]:
            b = self.arena.addr(s["dictStart"])
            out.append((b, b + xl))
        return out
    def h_new(self, sid, level=None):
        n = self.lib.sizeofStateHC()
        self.hc[sid] = Buf(n, data=self.rng.randbytes(n))
        self.dec[("h", sid)] = DecSide(self, "hc%d" % sid, 16)
        self.lib.initStreamHC(self.hc[sid].p, n)
        self.log.append("init h%d" % sid)
        if self.orc:
            k = kind_of_level(level if level is not None else 9) or "h"      # the model the first compression will run on
            self.ask(k + "init", sid); self.hmodel[sid] = k; self.hcmp(sid, "LZ4_initStreamHC", 0, None)
        if level is not None:
            self.h_level(sid, level)
    def h_init(self, sid):
        self.lib.initStreamHC(self.hc[sid].p, self.hc[sid].n)
        self.log.append("init h%d" % sid)
        self.failed_state.discard(("h", sid))
        self.dec[("h", sid)].reset()
        if self.orc:
            self.ask("cinit", sid); self.hmodel[sid] = "c"; self.hcmp(sid, "LZ4_initStreamHC", 0, None)      # level = LZ4HC_CLEVEL_DEFAULT = 9
    def h_level(self, sid, level):
        ready = self.h_model_ready(sid, False)
        self.lib.setCompressionLevel(self.hc[sid].p, level)
        self.log.append("level h%d %d" % (sid, level))
        if ready:
            self.ask(ready + "lvl", sid, level); self.hcmp(sid, "LZ4_setCompressionLevel", 0, None)
    def h_favor(self, sid, f):
        ready = self.h_model_ready(sid, False)
        self.lib.favorDecompressionSpeed(self.hc[sid].p, f)
        self.log.append("favor h%d %d" % (sid, f))
        if ready == "o":          # the other two models do not keep favorDecSpeed (never read at their levels)
            self.ask("ofav", sid, 1 if f else 0); self.hcmp(sid, "LZ4_favorDecompressionSpeed", 0, None)
    def h_reset_fast(self, sid, level):
        dirty = self.hstate(sid)["dirty"]
        ready = self.h_model_ready(sid, False)
        self.lib.resetStreamHC_fast(self.hc[sid].p, level)
        self.log.append("rsf h%d level=%d (dirty was %d)" % (sid, level, dirty))
        self.res["stats"]["hc_reset_fast" + ("_dirty" if dirty else "")] += 1
        self.failed_state.discard(("h", sid))
        self.dec[("h", sid)].reset()
        s = self.hstate(sid)
        if s["dirty"] or s["dctx"]:
            self.fail("prop_fail", "LZ4_resetStreamHC_fast left dirty=%d dictCtx=%x" % (s["dirty"], s["dctx"]))
        if ready:
            self.ask(ready + "rsf", sid, level); self.hcmp(sid, "LZ4_resetStreamHC_fast", 0, None)
        elif self.orc and dirty:
            # a dirty context is fully re-initialised: the model is synchronised again
            k = kind_of_level(level) or "h"
            self.ask(k + "init", sid); self.ask(k + "lvl", sid, level); self.hmodel[sid] = k; self.hcmp(sid, "LZ4_resetStreamHC_fast (dirty)", 0, None)
    def h_load(self, sid, addr, n):
        kind = kind_of_level(self.hstate(sid)["level"])
        if self.orc and kind and self.hmodel.get(sid) != kind:
            self.orc.ask(kind + "lvl", str(sid), str(self.hstate(sid)["level"])); self.hmodel[sid] = kind    # loadDictHC only reads the level
        ready = kind if (self.orc is not None and kind and self.hmodel.get(sid) == kind) else None
        r = self.lib.loadDictHC(self.hc[sid].p, self.arena.ptr(addr), n)
        self.log.append("ld h%d %d+%d -> %d" % (sid, addr - BASE, n, r))
        self.res["stats"]["loadDictHC"] += 1
        self.failed_state.discard(("h", sid))
        if r != min(n, K64):
            self.fail("prop_fail", "LZ4_loadDictHC(%d) returned %d" % (n, r))
        self.dec[("h", sid)].reset(self.arena.read(addr, n), addr)
        if ready:
            self.ask(ready + "ld", sid, addr, n); self.hcmp(sid, "LZ4_loadDictHC", r, None)
        elif self.orc:
            self.hmodel[sid] = False
        return r
    def h_attach(self, sid, did):
        ready = self.h_model_ready(sid, False)
        self.lib.attach_HC_dictionary(self.hc[sid].p, self.hc[did].p if did is not None else None)
        if ready:
            if did is not None and self.hmodel.get(did) != ready:
                self.h_import(did, ready)
            self.ask(ready + "att", sid, did if did is not None else -1); self.hcmp(sid, "LZ4_attach_HC_dictionary", 0, None)
        self.log.append("att h%d <- %s" % (sid, "h%d" % did if did is not None else "NULL"))
        self.res["stats"]["attach_HC"] += 1
        if did is not None:
            s = self.hstate(did)
            n = s["end"] - s["prefixStart"] if s["prefixStart"] else 0
            dd = self.arena.read(self.arena.addr(s["prefixStart"]), n) if n > 0 else b""
            self.dec[("h", sid)].reset(dd, self.arena.addr(s["prefixStart"]))
            self.res["stats"]["attach_HC_levels_%s_%s" % (lvl_class(self.hstate(sid)["level"]), lvl_class(s["level"]))] += 1
    def h_snap(self, sid):
        s = self.hstate(sid)
        if not s["dctx"]:
            return None
        for k, b in self.hc.items():
            if b.p == s["dctx"]:
                d = self.hstate(k)
                n = d["end"] - d["prefixStart"] if d["prefixStart"] else 0
                a = self.arena.addr(d["prefixStart"]) if n > 0 else 0
                return (k, b.bytes(b.n), a, self.arena.read(a, n) if n > 0 else b"")
        return None
    def h_check_snap(self, snap, what):
        if not snap:
            return
        k, raw, a, dbytes = snap
        self.res["stats"]["dict_stream_memcmp"] += 1
        if self.hc[k].bytes(self.hc[k].n) != raw:
            self.fail("prop_fail", "%s modified the attached dictionary stream (LZ4_streamHC_t differs byte-wise after use)" % what)
        if dbytes and self.arena.read(a, len(dbytes)) != dbytes:
            self.fail("prop_fail", "%s modified the dictionary buffer" % what)
    def h_continue(self, sid, addr, n, cap, destsize=False):
        dst = Buf(max(cap, 0), fill=0xC3)
        src = self.arena.read(addr, n)
        snap = self.h_snap(sid)
        lvl = self.hstate(sid)["level"]
        ready = self.h_model_ready(sid, model_kind(lvl, n))
        consumed = n
        if destsize:
            sz = c_int(n)
            r = self.lib.compress_HC_continue_destSize(self.hc[sid].p, self.arena.ptr(addr), dst.p, byref(sz), cap)
            consumed = sz.value
        else:
            r = self.lib.compress_HC_continue(self.hc[sid].p, self.arena.ptr(addr), dst.p, n, cap)
        out = dst.bytes(r) if 0 < r <= cap else b""
        dst.free()
        self.log.append("%s h%d %d+%d cap=%d lvl=%d -> %d (%d)" % ("cds" if destsize else "cont", sid, addr - BASE, n, cap, lvl, r, consumed))
        st = self.res["stats"]
        st["hc_continue"] += 1; st["hc_level_" + lvl_class(lvl)] += 1
        st["hc_ret_" + ("pos" if r > 0 else "zero")] += 1
        st["hc_n_" + size_class(n)] += 1
        if r < 0 or r > max(cap, 0):
            self.fail("prop_fail", "LZ4_compress_HC_continue returned %d with capacity %d" % (r, cap))
        if self.arena.read(addr, n) != src:
            self.fail("prop_fail", "compression modified its source")
        self.h_check_snap(snap, "LZ4_compress_HC_continue")
        s = self.hstate(sid)
        try:
            if destsize:
                st["hc_continue_destSize" + ("_partial" if 0 < r and consumed < n else "")] += 1
                if r > 0 and not (0 <= consumed <= n):
                    self.fail("prop_fail", "LZ4_compress_HC_continue_destSize consumed %d of %d" % (consumed, n))
            if r > 0:
                self.dec[("h", sid)].maxblock = max(self.dec[("h", sid)].maxblock, n)
                self.dec[("h", sid)].block(src[:consumed], out, addr)
            else:
                self.failed_state.add(("h", sid))
                if not s["dirty"] and not (destsize and cap < 1):
                    self.fail("prop_fail", "LZ4_compress_HC_continue returned %d but did not set the dirty flag" % r)
                if cap >= bound(n) and not destsize:
                    self.fail("prop_fail", "LZ4_compress_HC_continue failed with capacity %d >= LZ4_compressBound(%d)" % (cap, n))
        finally:
            if ready:
                if destsize: self.ask(ready + "cds", sid, addr, n, cap)
                else: self.ask(ready + "cont", sid, addr, n, cap)
                if not self.res["fails"]:
                    self.hcmp(sid, "LZ4_compress_HC_continue" + ("_destSize" if destsize else ""), r, out, consumed=consumed if destsize else None)
            elif self.orc:
                self.hmodel[sid] = False
        if destsize:
            return r, out, consumed
        return r, out
    def h_save(self, sid, addr, n):
        s0 = self.hstate(sid)
        pre = s0["end"] - s0["prefixStart"] if s0["prefixStart"] else 0
        ready = self.h_model_ready(sid, False)
        r = self.lib.saveDictHC(self.hc[sid].p, self.arena.ptr(addr) or None, n)
        self.log.append("save h%d %d+%d -> %d" % (sid, addr - BASE, n, r))
        self.res["stats"]["saveDictHC"] += 1
        want = min(n, K64)
        if want < 4: want = 0
        want = min(want, pre)
        if r != want:
            self.fail("prop_fail", "LZ4_saveDictHC(%d) returned %d with prefix size %d" % (n, r, pre))
        d = self.dec[("h", sid)]
        if r > 0 and len(d.H) >= r and d.H[-r:] != self.arena.read(addr, r):
            self.fail("prop_fail", "LZ4_saveDictHC did not save the last %d bytes of the stream" % r)
        if ready:
            self.ask(ready + "save", sid, addr, n)
            self.hcmp(sid, "LZ4_saveDictHC", r, None, extra={"mem": md5(self.arena.read(addr, r))})
        elif self.orc and r > 0:
            # keep the model's memory in step even when the context is not compared
            a = self.orc.ask("w", str(addr), hx(self.arena.read(addr, r)))
        if self.hstate(sid)["dctx"]:
            d.drop_mirror()        # whole prefix saved, dictionary context still attached: LZ4_setStreamDecode cannot express "dictionary ++ saved bytes"
        else:
            d.mirror_save(addr, r)
        return r
    def h_oneshot(self, sid, kind, addr, n, cap, level):
        """kind: fr (LZ4_compress_HC_extStateHC_fastReset) | ext (LZ4_compress_HC_extStateHC)"""
        dst = Buf(max(cap, 0), fill=0xC3)
        src = self.arena.read(addr, n)
        f = self.lib.compress_HC_extStateHC_fastReset if kind == "fr" else self.lib.compress_HC_extStateHC
        lk = model_kind(level, n)
        ready = (lk if self.orc is not None else None) if kind == "ext" else self.h_model_ready(sid, lk)
        r = f(self.hc[sid].p, self.arena.ptr(addr), dst.p, n, cap, level)
        out = dst.bytes(r) if 0 < r <= cap else b""
        dst.free()
        self.log.append("%s h%d %d+%d cap=%d lvl=%d -> %d" % (kind, sid, addr - BASE, n, cap, level, r))
        st = self.res["stats"]
        st["hc_oneshot_" + kind] += 1; st["hc_level_" + lvl_class(level)] += 1
        st["hc_ret_" + ("pos" if r > 0 else "zero")] += 1
        st["hc_n_" + size_class(n)] += 1
        self.failed_state.discard(("h", sid))
        self.dec[("h", sid)].reset()
        if r < 0 or r > max(cap, 0):
            self.fail("prop_fail", "HC one-shot (%s) returned %d with capacity %d" % (kind, r, cap))
        s = self.hstate(sid)
        try:
            if r > 0:
                self.independent(src, out, "HC one-shot %s level %d" % (kind, level))
            else:
                if not s["dirty"]:
                    self.fail("prop_fail", "HC one-shot returned %d but did not set the dirty flag" % r)
                if cap >= bound(n):
                    self.fail("prop_fail", "HC one-shot failed with capacity %d >= bound" % cap)
        finally:
            if ready:
                self.ask(ready + ("fr" if kind == "fr" else "ext"), sid, addr, n, cap, level)
                self.hmodel[sid] = ready
                if not self.res["fails"]:
                    self.hcmp(sid, "LZ4_compress_HC_extStateHC" + ("_fastReset" if kind == "fr" else ""), r, out)
            elif self.orc:
                self.hmodel[sid] = False
        return r, out
    def h_shift(self, sid, delta):
        """state injection for HC: shift every index (hash table entries, dictLimit, lowLimit, nextToUpdate)"""
        b = self.hc[sid]
        raw = b.bytes(131072)
        tab = struct.unpack("<32768I", raw)
        b.write(0, struct.pack("<32768I", *[(x + delta) & 0xFFFFFFFF for x in tab]))
        s = self.hstate(sid)
        b.write(HC_OFF + 24, struct.pack("<III", (s["dictLimit"] + delta) & 0xFFFFFFFF, (s["lowLimit"] + delta) & 0xFFFFFFFF,
                                         (s["nextToUpdate"] + delta) & 0xFFFFFFFF))
        self.log.append("shift h%d +%d (dictLimit %d)" % (sid, delta, s["dictLimit"]))
        self.res["stats"]["state_injection_hc"] += 1
        self.hmodel[sid] = False          # the model is re-synchronised (himport) before the next mirrored call

def size_class(n):
    return "0" if n == 0 else "1-12" if n <= 12 else "<4K" if n < 4096 else "4K" if n <= 4097 else "<64K" if n < 65536 else ">=64K"
def kind_of_level(l):
    """which extracted model covers the parser of this compression level: "h" = Model.HcMidStream (lz4mid, levels 1-2),
    "c" = Model.HcChainStream (hash chain, levels 3-9; a level < 1 means LZ4HC_CLEVEL_DEFAULT = 9),
    "o" = Model.HcOptStream (levels 10-12, and the hash-chain levels once a history has touched 10-12)"""
    if l < 1: l = 9
    return "h" if l <= 2 else "c" if l <= 9 else "o"
OPT_MODEL_MAX = 1200
def model_kind(l, n):
    """the model a compression call of n bytes at level l is mirrored on; the extracted optimal parser (big integers, up to
    16384 searches per position at level 12) is too slow for long inputs: those calls are checked by the direct oracles only
    and the model is re-synchronised from the real context afterwards"""
    k = kind_of_level(l)
    return None if (k == "o" and n > OPT_MODEL_MAX) else k
def lvl_class(l):
    return "mid" if 1 <= l <= 2 else "hc" if 3 <= l <= 9 else "opt" if l >= 10 else "dflt"

# ------------------------------------------------------------------ placement rule
def legal_source(regions, s, n):
    """May a new block [s, s+n) be written given the regions the stream still uses as history?
    Rule (documented use + the overlap check of the compressors): the block does not touch a region,
    or it ends strictly inside it (then the compressor trims the overlapped front part)."""
    for (b, e) in regions:
        if s + n <= b or s >= e:
            continue
        if b < s + n < e:
            continue
        return False
    return True

def worker_init(ctx):
    # one extracted oracle process: linear-time block specification decoder + the FastStream model session
    orc = Oracle(name="stream")
    st = {"lib": Lib(ctx["lib"]), "oracle": orc, "ctx": ctx}
    if ctx.get("model", True):
        st["stream_oracle"] = orc
    return st

# ====================================================================== scenarios
ACCELS = [1, 1, 1, 1, 2, 5, 0, -3, 65537, 100]
HC_LEVELS = [2, 2, 3, 4, 6, 9, 9, 10, 11, 12, 1, 0, 13]
HC_LEVELS_CHEAP = [2, 2, 3, 4, 6, 9, 10]

def pick_size(rng, M):
    r = rng.random()
    if r < 0.07: return 0
    if r < 0.2: return min(M, rng.choice([1, 2, 3, 4, 5, 8, 11, 12, 13, 14, 20]))
    if r < 0.4: return M
    if r < 0.5: return max(0, M - rng.randrange(1, 14))
    return rng.randrange(0, M + 1)

def pick_cap(rng, n, pfail):
    b = bound(n)
    if rng.random() >= pfail:
        return rng.choice([b, b, b, b + 1, b + 100])
    return rng.choice([0, 1, max(0, n // 2), max(0, n - 1), n, max(0, b - 1), rng.randrange(0, b + 1)])

class Geo:
    """source placement of a stream of blocks"""
    def __init__(self, S, rng, kind, M, nblocks, fam):
        self.S = S; self.rng = rng; self.kind = kind; self.M = max(M, 1); self.fam = fam
        A = S.arena
        M = self.M
        self.pos = 0
        if kind == "contig":
            self.size = min(M * nblocks, 300000) + 16
            self.base = A.alloc(self.size)
        elif kind in ("ring", "ringdoc"):
            extra = rng.choice([0, 0, 1, rng.randrange(0, M + 1), rng.randrange(0, 3 * M + 1)])
            self.size = 2 * M + extra
            self.base = A.alloc(self.size)
        elif kind == "double":
            self.bufs = [A.alloc(M, gap=rng.choice([40, 8, 64])), A.alloc(M)]
            self.turn = 0
        elif kind in ("save", "saveprefix"):
            self.safe = A.alloc(K64, gap=0)          # safe buffer immediately followed by the source buffer
            self.src = A.alloc(M)
            self.other = A.alloc(K64)                 # a second, unrelated safe buffer
        elif kind == "scatter":
            self.slots = [A.alloc(2 * M + rng.randrange(0, 64)) for _ in range(rng.choice([3, 5]))]
            self.slotsize = 2 * M
        else:
            raise ValueError(kind)
    def regions(self, sid):
        if self.fam == "f":
            r = self.S.dict_region(sid)
            return [r] if r else []
        return []          # HC trims / drops every overlapped segment itself
    def place(self, n, sid):
        """address for the next block of n bytes, or None when the geometry is exhausted"""
        k = self.kind; rng = self.rng
        if k == "contig":
            if self.pos + n > self.size: return None
            a = self.base + self.pos; self.pos += n; return a
        if k == "ring":
            if self.pos + n > self.size: self.pos = 0
            a = self.base + self.pos; self.pos += n; return a
        if k == "ringdoc":
            if self.size - self.pos < self.M: self.pos = 0
            a = self.base + self.pos; self.pos += n; return a
        if k == "double":
            a = self.bufs[self.turn]; self.turn ^= 1; return a
        if k in ("save", "saveprefix"):
            return self.src
        if k == "scatter":
            regs = self.regions(sid)
            inslot = lambda a: any(s0 <= a and a + n <= s0 + self.slotsize for s0 in self.slots)
            for _ in range(40):
                r = rng.random()
                if r < 0.3 and regs:
                    a = regs[0][1]                                       # contiguous to the dictionary: prefix mode
                elif r < 0.5 and regs:
                    b, e = regs[0]                                       # overlap the front of the dictionary
                    a = b - rng.randrange(0, n + 1) + rng.choice([0, 0, 1, 5])
                elif r < 0.55 and regs:
                    a = regs[0][0] - n                                   # ends exactly where the dictionary starts
                else:
                    a = rng.choice(self.slots) + rng.randrange(0, self.slotsize - n + 1)
                if inslot(a) and legal_source(regs, a, n):
                    return a
            return None
    def after(self, sid, n):
        """geometry-specific operation after a successful block"""
        S = self.S; rng = self.rng
        save = S.f_save if self.fam == "f" else S.h_save
        if self.kind == "save":
            k = rng.choice([K64, K64, 70000, 4096, 100, 5, 4, 3, 1, 0, n, -1 if self.fam == "f" else 0])
            tgt = rng.choice([self.safe, self.safe, self.other])
            save(sid, tgt, k)
        elif self.kind == "saveprefix":
            # save so that the saved dictionary ends exactly where the source buffer begins
            if self.fam == "f":
                have = S.fstate(sid)["ds"]
            else:
                h = S.hstate(sid); have = h["end"] - h["prefixStart"]
            k = min(rng.choice([K64, 1000, 200, 17, 4]), have)
            if self.fam == "h" and k < 4: k = 0
            save(sid, self.src - k, k)
        elif rng.random() < 0.04:
            save(sid, S.scratch_safe(), rng.choice([K64, 300, 0]))

def _scratch_safe(self):
    if not hasattr(self, "_scr"):
        self._scr = self.arena.alloc(K64)
    return self._scr
Sess.scratch_safe = _scratch_safe

def arena_need(kind, M, nblocks):
    if kind == "contig": return min(M * nblocks, 300000) + 200
    if kind in ("ring", "ringdoc"): return 5 * M + 200
    if kind == "double": return 2 * M + 300
    if kind in ("save", "saveprefix"): return 2 * K64 + M + 300
    return 5 * (2 * M + 64 + 40) + 300

def scen_stream(S, rng, fam, kind, M, nblocks, p):
    """C11: one stream session over a geometry. p: dict of emphasis parameters."""
    st = S.res["stats"]
    st["geo_%s_%s" % (fam, kind)] += 1
    sid = 0
    geo = Geo(S, rng, kind, M, nblocks, fam)
    base = make_base(rng)
    levels = p.get("levels", HC_LEVELS)
    if fam == "f":
        S.f_new(sid)
        if rng.random() < 0.5: S.f_reset_fast(sid)
    else:
        S.h_new(sid, rng.choice(levels))
        if rng.random() < 0.3: S.h_favor(sid, 1)
    dec = S.dec[(fam, sid)]
    dec.maxblock = M
    # optional initial dictionary
    if rng.random() < p.get("pdict", 0.25):
        dn = rng.choice([0, 3, 7, 8, 9, 100, 4000, K64 - 1, K64, K64 + 1, 70000])
        da = S.arena.alloc(dn)
        S.write(da, make_block(rng, dn, b"", base))
        if fam == "f": S.f_load(sid, da, dn, slow=rng.random() < 0.4)
        elif rng.random() < p.get("pattach", 0.4):
            # the dictionary as an attached dictionary stream (searched in place / copied / detached at 64 KB); with the
            # save geometries this gives "LZ4_saveDictHC while a dictionary context is attached" (F18)
            S.h_new(1, rng.choice(levels)); S.h_load(1, da, dn); S.h_attach(sid, 1)
            st["stream_dict_attached"] += 1
        else: S.h_load(sid, da, dn)
    acc = rng.choice(ACCELS)
    def early_save():
        # LZ4_saveDict / LZ4_saveDictHC at ANY point: before the first block, right after a reset (F17)
        if rng.random() < p.get("psave_early", 0.15):
            (S.f_save if fam == "f" else S.h_save)(sid, S.scratch_safe(), rng.choice([K64, K64, 1000, 4, 0]))
            st["save_before_first_block"] += 1
    early_save()
    inject_at = rng.randrange(1, max(2, nblocks)) if rng.random() < p.get("pinject", 0.0) else -1
    i = 0
    while i < nblocks:
        i += 1
        if i == inject_at:
            inject(S, rng, fam, sid, M)
        n = pick_size(rng, M)
        a = geo.place(n, sid)
        if a is None:
            break
        if not legal_source(geo.regions(sid), a, n):
            S.fail("harness_error", "generator produced an illegal placement (%s): block %d+%d over dictionary %s" % (kind, a - BASE, n, geo.regions(sid)))
        data = make_block(rng, n, dec.H, base)
        S.write(a, data)
        if rng.random() < 0.25:
            if fam == "f": acc = rng.choice(ACCELS)
            else: S.h_level(sid, rng.choice(levels))
        cap = pick_cap(rng, n, p.get("pfail", 0.06))
        if fam == "f":
            fs = S.fstate(sid); dr = S.dict_region(sid)
            if rng.random() < p.get("pforce", 0.03) and fs["dctx"] == -1 and (fs["ds"] == 0 or fs["ds"] >= 4) and fs["cur"] < 0x70000000 \
               and (dr is None or a + n <= dr[0] or a >= dr[1]) and n > 0 and fs["dict"] != a:
                # (dictionary == source with dictSize 0 makes the C test `lowLimit == dictionary` true for in-block matches of this
                #  hidden test entry point: matches are cut to 4 bytes; the kernel model abstracts that pointer comparison)
                r, out = S.f_continue(sid, a, n, 0, 1, force_ext=True)
            else:
                r, out = S.f_continue(sid, a, n, cap, acc, expect_ok=cap >= bound(n))
        elif rng.random() < p.get("pdestsize", 0.08) and n > 0:
            tgt = rng.choice([max(1, n // 2), max(1, n // 3 + 8), 20, 13, 1, bound(n), max(1, rng.randrange(1, bound(n) + 1))])
            r, out, consumed = S.h_continue(sid, a, n, tgt, destsize=True)
            if r <= 0 and tgt >= 1 and not S.hstate(sid)["dirty"]:
                S.fail("prop_fail", "LZ4_compress_HC_continue_destSize returned %d without setting dirty" % r)
        else:
            r, out = S.h_continue(sid, a, n, cap)
        if r <= 0:
            # failed: the stream state is undefined, the documented recovery is a reset
            st["failed_then_reset"] += 1
            if fam == "f": S.f_reset_fast(sid)
            else: S.h_reset_fast(sid, rng.choice(levels))
            early_save()
            continue
        geo.after(sid, n)

def inject(S, rng, fam, sid, M):
    """move the stream's indices close to a renormalisation threshold (state injection)"""
    if fam == "f":
        cur = S.fstate(sid)["cur"]
        tgt = rng.choice([0x80000000, 0x80000000, 0x40000000])     # reachable index range only: currentOffset <= 2^31
        margin = rng.choice([0, 1, M, 2 * M + 3, rng.randrange(0, 4 * M + 8)])
        delta = tgt - margin - cur
        if delta > 0:
            S.f_shift(sid, delta)
    else:
        s = S.hstate(sid)
        used = s["dictLimit"] + (s["end"] - s["prefixStart"] if s["prefixStart"] else 0)
        tgt = rng.choice([0x80000000, 0x80000000, 0x40000000])
        margin = rng.choice([0, 1, M, 2 * M + 3, rng.randrange(0, 4 * M + 8)])
        delta = tgt - margin - used
        if delta > 0:
            S.h_shift(sid, delta)

# ---------------------------------------------------------------------- C12
DICT_SIZES = list(range(0, 12)) + [12, 13, 16, 40, 100, 1000, 4000, 4096, 20000, K64 - 1, K64, K64 + 1, K64 + 8, 70000, 130000]
INPUT_SIZES_DICT = [0, 1, 5, 12, 13, 40, 200, 1000, 4000, 4090, 4095, 4096, 4097, 4100, 5000, 20000, K64 - 1, K64, K64 + 12, 70000]

def dict_input(rng, n, d, base):
    """input sharing content with every region of the dictionary (and with the part cut off beyond 64 KB)"""
    out = bytearray()
    D = len(d)
    while len(out) < n:
        want = n - len(out)
        r = rng.random()
        if D >= 4 and r < 0.6:
            l = min(want, rng.choice([4, 6, 8, 9, 16, 33, 100, 500, 3000]))
            q = rng.random()
            if q < 0.2: s = max(0, D - l - rng.randrange(0, 8))            # very end
            elif q < 0.4: s = max(0, D - min(D, K64)) + rng.randrange(0, 8) # first bytes of the loaded window
            elif q < 0.5: s = rng.randrange(0, max(1, D - min(D, K64)) )    # beyond 64 KB: must not be referenced
            elif q < 0.6: s = rng.randrange(0, min(D, 16))
            else: s = rng.randrange(0, D)
            out += d[s:s + l]
        elif r < 0.75 and len(out) >= 4:
            l = min(want, rng.choice([4, 12, 100])); s = rng.randrange(0, len(out))
            for j in range(l): out.append(out[s + j])
        elif r < 0.85 and len(base) > 8:
            l = min(want, rng.choice([8, 50, 700])); s = rng.randrange(0, len(base) - 4)
            out += base[s:s + l]
        else:
            out += rng.randbytes(min(want, rng.choice([1, 3, 7, 30, 200])))
    return bytes(out[:n])

def scen_dict(S, rng, fam, p):
    """C12: one dictionary, loaded or attached, re-used several times; the prepared dictionary stream and the
    dictionary bytes are compared byte-wise after every use."""
    st = S.res["stats"]
    base = make_base(rng)
    dn = p.get("dn", rng.choice(DICT_SIZES))
    maxin = p.get("maxin", 70000)
    dict_bytes = make_block(rng, dn, b"", base)
    # dictionaries larger than 64 KB: only the LAST 64 KB are the dictionary.  Trap for a loader that keeps the start of the
    # buffer as its base: position q of the last 64 KB and position q of the buffer hold the same 8-byte key with different
    # continuations; the input repeats key + the continuation stored at the START of the buffer.
    traps = []
    if dn > K64 + 64 and rng.random() < 0.7:
        db = bytearray(dict_bytes); delta = dn - K64
        for _ in range(10):
            q = rng.randrange(0, K64 - 64)
            if abs(delta) < 24 or (q < delta + q < q + 24):
                continue
            key, A, B = rng.randbytes(8), rng.randbytes(12), rng.randbytes(12)
            db[q:q + 20] = key + B
            db[delta + q:delta + q + 20] = key + A
            traps.append(key + B)
        dict_bytes = bytes(db)
    method = rng.choice(["load", "loadslow", "attach", "attach", "attachslow", "copy"]) if fam == "f" else rng.choice(["load", "attach", "attach"])
    st["dict_%s_%s" % (fam, method)] += 1
    st["dictsize_" + ("0-11" if dn < 12 else "<4K" if dn < 4096 else "<64K" if dn < K64 else "64K" if dn == K64 else ">64K")] += 1
    # layout: [dictionary][room for a contiguous first block] ... [separate input area]
    room = maxin + 16
    da = S.arena.alloc(dn, gap=0)
    contig = S.arena.alloc(room)               # == da + dn
    sep = S.arena.alloc(2 * room + 64)
    S.write(da, dict_bytes)
    levels = p.get("levels", HC_LEVELS)
    DS, WS = 9, 0
    if fam == "f":
        if method in ("attach", "attachslow", "copy"):
            S.f_new(DS)
            S.f_load(DS, da, dn, slow=(method == "attachslow" or (method == "copy" and rng.random() < 0.5)))
            ref = S.fast[DS].bytes(FAST_STATE)
        S.f_new(WS)
    else:
        if method == "attach":
            S.h_new(DS, rng.choice(levels))
            S.h_load(DS, da, dn)
            ref = S.hc[DS].bytes(S.hc[DS].n)
        S.h_new(WS, rng.choice(levels))
    dec = S.dec[(fam, WS)]
    nuses = rng.choice([1, 2, 3, 6])
    sv = None
    for use in range(nuses):
        st["dict_uses"] += 1
        # prepare the working stream for a new session that starts from the dictionary
        if fam == "f":
            k = rng.random()
            if use > 0 or k < 0.5:
                if k < 0.7: S.f_reset_fast(WS)
                else: S.f_init(WS)
            if method == "load": S.f_load(WS, da, dn)
            elif method == "loadslow": S.f_load(WS, da, dn, slow=True)
            elif method == "copy":
                S.f_copy(WS, DS)
                dec.reset(dict_bytes, da)
            else: S.f_attach(WS, DS)
        else:
            lvl = rng.choice(levels)
            if use > 0 or rng.random() < 0.5: S.h_reset_fast(WS, lvl)
            else: S.h_level(WS, lvl)
            if method == "load": S.h_load(WS, da, dn)
            else: S.h_attach(WS, DS)
        n = min(maxin, rng.choice(INPUT_SIZES_DICT))
        dec.maxblock = max(n, 16)
        src = dict_input(rng, n, dict_bytes, base)
        if traps and n >= 64 and rng.random() < 0.8:
            sb = bytearray(src)
            for _ in range(rng.choice([1, 2, 4])):
                t = rng.choice(traps); at = rng.randrange(0, n - len(t))
                sb[at:at + len(t)] = t
            src = bytes(sb)
        prefix_place = rng.random() < 0.4 and n <= room
        a = contig if prefix_place else sep + rng.randrange(0, 32)
        st["dict_first_block_" + ("contiguous" if prefix_place else "separate")] += 1
        st["dict_input_" + size_class(n)] += 1
        S.write(a, src)
        cap = pick_cap(rng, n, p.get("pfail", 0.04))
        if fam == "f": r, out = S.f_continue(WS, a, n, cap, rng.choice(ACCELS), expect_ok=cap >= bound(n))
        else: r, out = S.h_continue(WS, a, n, cap)
        if r > 0:
            nm, nh, far = history_refs(out)
            if nh: st["dict_first_block_uses_dictionary"] += 1
            # linked follow-up blocks
            pos = a + n
            for j in range(rng.choice([0, 0, 1, 2, 3])):
                n2 = min(room - 16, rng.choice([0, 7, 60, 500, 4097, 9000]))
                if rng.random() < p.get("psave", 0.3) and (sv is not None or S.arena.size - S.arena.top >= K64 + 9016 + 80):
                    # LZ4_saveDict / LZ4_saveDictHC (often fewer bytes than the stream holds) while the dictionary may still be
                    # attached, and the next block right after the saved bytes (F18)
                    if sv is None: sv = S.arena.alloc(K64 + 9016)
                    k = rng.choice([K64, K64, 1000, 200, 17, 4, 0])
                    rs = (S.f_save if fam == "f" else S.h_save)(WS, sv, k)
                    st["dict_save_then_contiguous"] += 1
                    a2 = sv + max(rs, 0)
                elif rng.random() < 0.6 and pos + n2 <= a + room:
                    a2 = pos
                else:
                    a2 = sep + room + 32
                    if not legal_source(([S.dict_region(WS)] if S.dict_region(WS) else []) if fam == "f" else [], a2, n2):
                        break
                S.write(a2, make_block(rng, n2, dec.H, base))
                dec.maxblock = max(dec.maxblock, n2)
                if fam == "f": r2, _ = S.f_continue(WS, a2, n2, bound(n2), rng.choice(ACCELS), expect_ok=True)
                else:
                    if rng.random() < 0.3: S.h_level(WS, rng.choice(levels))
                    r2, _ = S.h_continue(WS, a2, n2, bound(n2))
                if r2 <= 0: break
                pos = a2 + n2
        # the prepared dictionary never changes, whatever happened
        if S.arena.read(da, dn) != dict_bytes:
            S.fail("prop_fail", "the dictionary buffer was modified by a compression that uses it")
        if method in ("attach", "attachslow", "copy"):
            now = S.fast[DS].bytes(FAST_STATE) if fam == "f" else S.hc[DS].bytes(S.hc[DS].n)
            st["dict_stream_memcmp"] += 1
            if now != ref:
                S.fail("prop_fail", "the prepared dictionary stream was modified by a compression that uses it (use %d)" % use)

def _f_copy(self, sid, did):
    """documented alternative to attach: copy a pre-loaded dictionary's LZ4_stream_t into the working stream"""
    self.fast[sid].write(0, self.fast[did].bytes(FAST_STATE))
    self.log.append("copy f%d <- f%d" % (sid, did))
    self.res["stats"]["copy_stream"] += 1
    self.failed_state.discard(("f", sid))
    if self.orc:
        self.ask("copy", sid, did); self.cmp_model(sid, "memcpy of the dictionary stream", 0, None)
Sess.f_copy = _f_copy

def corpus_attach_history(S, rng):
    """F12 (fixed in /repo): LZ4_attach_dictionary on a stream WITH history followed by a block contiguous to the
    previous one.  lz4.h: the dictionary replaces any pre-existing history; the block must decode with the dictionary only."""
    D = rng.randbytes(1000); A = rng.randbytes(500)
    B = D[99:400] + A[:200] + D[600:700]
    da = S.arena.alloc(len(D)); xa = S.arena.alloc(len(A) + len(B))
    S.write(da, D); S.write(xa, A + B)
    S.f_new(9); S.f_load(9, da, len(D))
    S.f_new(0)
    S.f_continue(0, xa, len(A), bound(len(A)), 1, expect_ok=True)
    S.f_attach(0, 9)
    r, out = S.f_continue(0, xa + len(A), len(B), bound(len(B)), 1, expect_ok=True)
    nm, nh, far = history_refs(out)
    if not nh:
        S.fail("harness_error", "corpus case F12: block B found no match in the dictionary")
    S.res["stats"]["corpus_F12"] += 1

# ---------------------------------------------------------------------- C18
def scen_reuse(S, rng, fam, p):
    """C18: one context, a history of one-shot fast-reset compressions of every size class, streaming sessions,
    dictionary loads / attachments, destSize calls and failed compressions, each followed by the documented reset.
    Inputs are laid out one after the other in memory and share content, so that a stale table entry, if it were
    ever used, would hit equal bytes of the earlier, unrelated input."""
    st = S.res["stats"]
    nops = p.get("nops", 14)
    big = p.get("big", False)
    total = p.get("arena_in", 400000)
    area = S.arena.alloc(total)
    base = make_base(rng, 3000)
    levels = p.get("levels", HC_LEVELS_CHEAP)
    sid, DS = 0, 9
    have_ds = False
    if fam == "f": S.f_new(sid)
    else: S.h_new(sid, rng.choice(levels))
    pos = 0
    prev = b""
    def next_input(n):
        nonlocal pos, prev
        # content shared with the previous inputs, placed right after them (or at the same place again)
        r = rng.random()
        if r < 0.2 and prev: data = (prev * (n // len(prev) + 1))[:n] if len(prev) else rng.randbytes(n)
        else: data = make_block(rng, n, prev[-K64:], base)
        if rng.random() < 0.15: pos = max(0, pos - rng.randrange(0, n + 1))       # overwrite part of the earlier input
        if rng.random() < 0.1: pos = 0
        if pos + n > total: pos = 0
        a = area + pos
        S.write(a, data)
        pos += n
        prev = (prev + data)[-(K64 + 100):]
        return a, data
    pmid = p.get("pmid", 0.3); pbig = p.get("pbig", 0.08)
    def size_of_class():
        c = rng.random()
        if c < pbig: return rng.choice([65547, 65548, 70000])
        if c < pbig + pmid:
            if rng.random() < 0.7: return rng.choice([4096, 4097, 5000, 8000, rng.randrange(4096, 9000)])
            return rng.choice([20000, 65535 - 12, 65546, rng.randrange(4096, 65547)])
        return rng.choice([0, 1, 12, 13, 14, 64, 300, 1000, 4095, rng.randrange(0, 4096)])
    i = 0
    while i < nops:
        i += 1
        k = rng.random()
        if fam == "f":
            if k < 0.45:
                n = size_of_class(); a, data = next_input(n)
                S.f_oneshot(sid, "fr", a, n, pick_cap(rng, n, 0.15), rng.choice(ACCELS))
            elif k < 0.5:
                n = size_of_class(); a, data = next_input(n)
                S.f_oneshot(sid, "ext", a, n, pick_cap(rng, n, 0.15), rng.choice(ACCELS))
            elif k < 0.58:
                n = size_of_class(); a, data = next_input(n)
                b = bound(n)
                # acceleration >= 1 only: LZ4_compress_destSize_extState does not clamp it (reported separately, not C18's subject)
                S.f_oneshot(sid, "dsz", a, n, rng.choice([b, max(1, b - 1), max(1, n // 2), rng.randrange(1, b + 2), 1, 13]), rng.choice([1, 1, 2, 9, 65537, 100000]))
            elif k < 0.62:
                tgt = rng.choice([0x40000000, 0x40000000, 0xFFFF, 0x80000000])
                s = S.fstate(sid)
                d = tgt - rng.choice([0, 1, 100, 70000, rng.randrange(0, 200000)]) - s["cur"]
                if d > 0 and s["tt"] != 3 and (s["cur"] + d) < (1 << 32):
                    S.f_shift(sid, d)
            else:
                # a short streaming session after the documented reset
                S.f_reset_fast(sid)
                dec = S.dec[("f", sid)]
                m = rng.random()
                if m < 0.25:
                    dn = rng.choice([0, 5, 8, 100, 5000, K64, 70000])
                    dn = min(dn, total // 4)
                    da, dd = next_input(dn)
                    S.f_load(sid, da, dn, slow=rng.random() < 0.3)
                elif m < 0.45:
                    if not have_ds:
                        S.f_new(DS); have_ds = True
                    dn = rng.choice([8, 100, 5000, K64]); dn = min(dn, total // 4)
                    da, dd = next_input(dn)
                    S.f_load(DS, da, dn, slow=rng.random() < 0.3)
                    S.f_attach(sid, DS)
                for j in range(rng.choice([1, 1, 2, 3])):
                    n = size_of_class() if rng.random() < 0.5 else rng.randrange(0, 3000)
                    # streaming blocks go after the current position, never over the stream's dictionary
                    if pos + n > total: pos = 0
                    regs = [S.dict_region(sid)] if S.dict_region(sid) else []
                    fixed = []
                    if S.fstate(sid)["dctx"] >= 0:
                        r2 = S.dict_region(S.fstate(sid)["dctx"])
                        if r2: fixed.append(r2)
                    a = area + pos
                    if not legal_source(regs, a, n) or any(b < a + n and a < e for (b, e) in fixed):
                        break
                    data = make_block(rng, n, dec.H, base)
                    S.write(a, data); pos += n
                    prev = (prev + data)[-(K64 + 100):]
                    dec.maxblock = max(dec.maxblock, n)
                    r, out = S.f_continue(sid, a, n, pick_cap(rng, n, 0.15), rng.choice(ACCELS))
                    if r <= 0:
                        st["failed_then_reset"] += 1
                        break
        else:
            if k < 0.5:
                n = size_of_class(); a, data = next_input(n)
                lvl = rng.choice(levels)
                S.h_oneshot(sid, "fr" if rng.random() < 0.85 else "ext", a, n, pick_cap(rng, n, 0.2), lvl)
            else:
                S.h_reset_fast(sid, rng.choice(levels))
                dec = S.dec[("h", sid)]
                m = rng.random()
                if m < 0.25:
                    dn = min(rng.choice([0, 3, 4, 100, 5000, K64, 70000]), total // 4)
                    da, dd = next_input(dn)
                    S.h_load(sid, da, dn)
                elif m < 0.45:
                    if not have_ds:
                        S.h_new(DS, rng.choice(levels)); have_ds = True
                    else:
                        S.h_level(DS, rng.choice(levels))
                    dn = min(rng.choice([4, 100, 5000, K64]), total // 4)
                    da, dd = next_input(dn)
                    S.h_load(DS, da, dn)
                    S.h_attach(sid, DS)
                for j in range(rng.choice([1, 1, 2, 3])):
                    n = size_of_class() if rng.random() < 0.4 else rng.randrange(0, 3000)
                    if pos + n > total: pos = 0
                    a = area + pos
                    ds = S.hstate(sid)["dctx"]
                    if ds:
                        d = S.hstate(DS)
                        b = S.arena.addr(d["prefixStart"]); e = S.arena.addr(d["end"])
                        if b < a + n and a < e: break
                    data = make_block(rng, n, dec.H, base)
                    S.write(a, data); pos += n
                    prev = (prev + data)[-(K64 + 100):]
                    dec.maxblock = max(dec.maxblock, n)
                    if rng.random() < 0.2: S.h_level(sid, rng.choice(levels))
                    r, out = S.h_continue(sid, a, n, pick_cap(rng, n, 0.2))
                    if r <= 0:
                        st["failed_then_reset"] += 1
                        break

def run_scenario(st, case, fn):
    """common driver: builds the session, runs fn(S, rng), returns the result list"""
    rng = random.Random(case["bseed"])
    res = new_res()
    S = None
    try:
        S = Sess(st, rng, res, {"bseed": case["bseed"], "kind": case.get("kind")}, case.get("arena", 1 << 20),
                 model=case.get("model", True) and st.get("stream_oracle") is not None,
                 use_ring=case.get("ring", True), use_mirror=case.get("mirror", True), p_realdec=case.get("p_realdec", 0.3))
        fn(S, rng)
    except Stop:
        pass
    finally:
        if S: S.close()
    return finish(res, case.get("kind", "?"))

def corpus_u16_cleared(S, rng):
    """A never-used table at offset 64 KB (after LZ4_loadDict of < 8 bytes, or LZ4_attach_dictionary on a fresh stream),
    then a small fast-reset one-shot: LZ4_prepareTable skips its checks (clearedTable), the 16-bit table is used at
    indices >= 65536 and stores truncated indices.  Output must round-trip and the model must follow the truncation
    (Model.Fast.idx)."""
    src = (b"abcdefghijklmnopqrstuvwxyz0123456789" * 40)[:1000]
    a = S.arena.alloc(len(src)); S.write(a, src)
    da = S.arena.alloc(200); S.write(da, rng.randbytes(200))
    S.f_new(0); S.f_load(0, da, 5)
    S.f_oneshot(0, "fr", a, len(src), bound(len(src)), 1)
    S.f_oneshot(0, "fr", a, len(src), bound(len(src)), 1)
    S.f_new(1); S.f_new(9); S.f_load(9, da, 200)
    S.f_attach(1, 9)
    S.f_oneshot(1, "fr", a, 300, bound(300), 1)
    S.f_reset_fast(1); S.f_attach(1, 9)
    S.f_continue(1, a, 300, bound(300), 1, expect_ok=True)
    S.res["stats"]["corpus_u16_cleared"] += 1

def scen_renorm_big(S, rng):
    """LZ4_renormDictT with a dictionary segment LARGER than 64 KB (the clamp of dictSize and the rebase of the
    dictionary pointer interact only then): contiguous blocks summing to > 64 KB, or one block > 64 KB, the index moved next to
    2^31 (state injection, shift lemma), then the block that triggers the renormalisation - contiguous (prefix mode) or
    elsewhere (external dictionary mode) - and two more.  Every call is compared with the model (context fields
    included: dictionary pointer, dictSize, currentOffset) and every block is judged by the property oracles."""
    rec = 16
    def records(n, seed):
        r2 = random.Random(seed)
        keys = [r2.randbytes(8) for _ in range(6)]
        out = bytearray()
        while len(out) < n:
            out += r2.choice(keys) + r2.randbytes(8)
        return bytes(out[:n])
    S.f_new(0)
    shape = rng.choice(["contig3", "one_big", "contig_then_far"])
    sizes = {"contig3": [30000, 30000, 30000], "one_big": [65536 + rec * rng.choice([1, 2, 7])], "contig_then_far": [40000, 40016]}[shape]
    area = S.arena.alloc(sum(sizes) + 3 * 70000 + 64)
    pos = 0
    for i, n in enumerate(sizes):
        S.write(area + pos, records(n, rng.randrange(1 << 30)))
        S.f_continue(0, area + pos, n, bound(n), 1, expect_ok=True)
        pos += n
    cur = S.fstate(0)["cur"]
    margin = rng.choice([0, 1, 100, 3000])
    S.f_shift(0, 0x80000000 - margin - cur)
    for k in range(3):
        n = rng.choice([4000, 20000, 66000])
        far = (shape == "contig_then_far" and k == 0) or (k > 0 and rng.random() < 0.5)
        if far:
            pos += 64
        data = bytearray(records(n, rng.randrange(1 << 30)))
        # share records with what lies 64 KB .. dictSize behind (the region a wrong rebase would compare against)
        prev = S.arena.read(area, pos)
        for j in range(0, min(len(prev), n) - rec, rec * 3):
            data[j:j + rec] = prev[-(j % 70000) - rec: len(prev) - (j % 70000)] or data[j:j + rec]
        S.write(area + pos, bytes(data[:n]))
        S.f_continue(0, area + pos, n, bound(n), 1, expect_ok=True)
        pos += n
    S.res["stats"]["renorm_big_" + shape] += 1

def scen_real2g(S, rng, fam, total=2200 << 20, blk=1 << 20):
    """thorough only: a REAL stream of > 2^31 cumulative bytes (double-buffer geometry, 1 MB blocks) on the real
    library alone; every block is decoded by the real decoder with the last 64 KB of the previous block.  The
    internal indices cross 1 GB and 2 GB for real (LZ4_renormDictT / the 2 GB reload of LZ4_compress_HC_continue)."""
    st = S.res["stats"]
    bufs = [S.arena.alloc(blk), S.arena.alloc(blk)]
    variants = [gens.data(rng, k, blk) for k in ("mixed", "text", "selfdict", "mixed")]
    if fam == "f": S.f_new(0)
    else: S.h_new(0, 2)
    lib = S.lib
    dst = Buf(bound(blk), fill=0)
    out = Buf(blk, fill=0)
    prev = b""
    done = 0; i = 0; renorms = 0; lastcur = 0
    while done < total:
        a = bufs[i & 1]; data = variants[i % len(variants)]
        S.arena.write(a, data)
        if fam == "f":
            r = lib.compress_fast_continue(S.fast[0].p, S.arena.ptr(a), dst.p, blk, dst.n, 1 + (i % 3))
            cur = S.fstate(0)["cur"]
            if cur < lastcur: renorms += 1
            lastcur = cur
        else:
            r = lib.compress_HC_continue(S.hc[0].p, S.arena.ptr(a), dst.p, blk, dst.n)
            cur = S.hstate(0)["dictLimit"]
            if cur < lastcur: renorms += 1
            lastcur = cur
        if r <= 0:
            S.fail("prop_fail", "long stream: compression of block %d failed with capacity = bound (ret %d)" % (i, r))
        hist = prev[-K64:]
        db = Buf(len(hist), data=hist)
        d = lib.decompress_safe_usingDict(dst.p, out.p, r, blk, db.p, len(hist))
        ok = d == blk and out.bytes(blk) == data
        db.free()
        if not ok:
            S.fail("prop_fail", "long stream: block %d (cumulative %d bytes, index %d) does not decode with the previous 64 KB (ret %d)" % (i, done, cur, d))
        prev = data
        done += blk; i += 1
        S.res["evals"] += 1
    dst.free(); out.free()
    st["real_stream_bytes_%s" % fam] += done
    st["real_stream_index_resets_%s" % fam] += renorms
    if renorms == 0:
        S.fail("harness_error", "long stream: the internal index never renormalised (cumulative %d)" % done)

# ---------------------------------------------------------------------- directed scenarios (seeded-change review)
def scen_ring_midstart(S, rng, fam, p):
    """C11: a ring buffer whose FIRST block does not sit at ring offset 0 (stream started in the middle of the ring, or
    ring position kept across a reset).  Later blocks wrap to offset 0 and walk up; one of them starts BELOW the first
    block and runs into its oldest bytes (HC: that block starts below the external-dictionary segment and ends inside it,
    so the overlap check must trim by the END of the new block).  Records share a tag: the overwriting block begins with a
    record whose copy also forms its last bytes, i.e. the bytes that now lie where the first block began; a compressor that
    still trusts the overwritten index emits a match the decoder resolves to the OLD bytes."""
    st = S.res["stats"]
    M = p.get("M", 1024)
    levels = p.get("levels", HC_LEVELS)
    R = M * rng.choice([4, 4, 6])
    ring = S.arena.alloc(R + 8)
    sid = 0
    if fam == "f":
        S.f_new(sid)
    else:
        S.h_new(sid, rng.choice(levels))
    dec = S.dec[(fam, sid)]
    dec.maxblock = M
    def cont(a, n):
        if fam == "f": return S.f_continue(sid, a, n, bound(n), rng.choice([1, 1, 2]), expect_ok=True)
        return S.h_continue(sid, a, n, bound(n))
    tag = rng.randbytes(rng.choice([4, 4, 5, 8]))
    def untagged(n):
        b = bytearray(rng.randbytes(n))
        i = b.find(tag[:4])
        while i >= 0:
            b[i] ^= 0x55; i = b.find(tag[:4])
        return bytes(b)
    pos = 0
    if rng.random() < 0.4:
        # an earlier session walked the ring up to somewhere; the position is kept across the reset
        k = rng.randrange(1, 4)
        for _ in range(k):
            n = rng.randrange(13, M + 1)
            if pos + n > R - 2 * M: break
            S.write(ring + pos, untagged(n)); cont(ring + pos, n); pos += n
        if fam == "f": S.f_reset_fast(sid)
        else: S.h_reset_fast(sid, rng.choice(levels))
        st["midstart_after_reset"] += 1
    # first block of the stream, somewhere in the upper part of the ring
    n0 = rng.randrange(max(64, M // 2), M + 1)
    p0 = rng.randrange(max(pos, R // 2), R - n0 + 1)
    first = tag + untagged(n0 - len(tag))
    S.write(ring + p0, first); cont(ring + p0, n0)
    # wrap to the beginning and walk up to the block that crosses p0
    k = rng.choice([8, 12, 16, 24, 24, 40, 64])
    k = min(k, n0 - 16)
    q = 0
    while True:
        room = p0 - q
        if room + k <= M and room >= 2 * k + 16 - k:
            break
        n = rng.randrange(13, min(M, room - (k + 20)) + 1) if room - (k + 20) > 13 else None
        if n is None:
            break
        if rng.random() < 0.3:
            data = tag + untagged(n - len(tag)) if n > len(tag) + 4 else untagged(n)      # other records carry the tag too
        else:
            data = untagged(n)
        S.write(ring + q, data); cont(ring + q, n); q += n
    nx = p0 + k - q
    if nx < 2 * k + 13 or nx > M or q + nx > R:
        st["midstart_skipped"] += 1
        return
    rec = tag + untagged(k - len(tag))                  # same tag as the first block, different continuation
    if rec == first[:k]:
        rec = rec[:-1] + bytes([rec[-1] ^ 1])
    blockx = rec + untagged(nx - 2 * k) + rec           # its last k bytes land on the first k bytes of block 0
    S.write(ring + q, blockx)
    st["midstart_cross_%s" % fam] += 1
    st["midstart_overlap_%d" % k] += 1
    cont(ring + q, nx)
    q += nx
    # two more blocks: the stale area is trimmed / left behind
    for _ in range(2):
        n = rng.randrange(13, M + 1)
        if q + n > R: q = 0
        S.write(ring + q, untagged(n)); cont(ring + q, n); q += n

CROSS_LEVEL_PAIRS = [(2, 3), (2, 9), (2, 12), (1, 9), (2, 4), (2, 10), (1, 3), (3, 2), (9, 2), (12, 1), (9, 9), (2, 2), (10, 3), (3, 12)]

def scen_dict_tail(S, rng, fam, p):
    """C12: the dictionary is a window cut out of a larger sample buffer (bytes follow it in memory), the input repeats the LAST
    bytes of the dictionary followed by something else than (or, to tempt a missing end-of-dictionary bound, exactly) what
    follows the dictionary in memory.  HC: attach with cross-level pairings (working level 1-2 = LZ4MID on a dictionary stream
    loaded at level >= 3 = hash chain: LZ4MID_searchHCDict / LZ4HC_searchExtDict, and the reverse), first and second use of
    the working stream.  A match must stop at the end of the dictionary: the decoder continues with the block itself."""
    st = S.res["stats"]
    dn = p.get("dn", rng.choice([64, 300, 2000, 8192, 20000, K64, K64 + 100]))
    post = 700
    pre = rng.choice([0, 0, 100])
    gap_after = rng.random() < 0.2                     # dictionary ends at a poisoned gap instead: an over-read is an ASan report
    if gap_after:
        reg = S.arena.alloc(pre + dn, gap=48); follow = b""
    else:
        reg = S.arena.alloc(pre + dn + post)
    sample = bytearray(rng.randbytes(pre + dn + (0 if gap_after else post)))
    S.write(reg, bytes(sample))
    da = reg + pre
    d = bytes(sample[pre:pre + dn])
    follow = bytes(sample[pre + dn:])
    inp = S.arena.alloc(8000)
    DS, WS = 9, 0
    if fam == "h":
        wl, dl = p.get("pair") or rng.choice(CROSS_LEVEL_PAIRS)
        st["dict_tail_levels_w%s_d%s" % (lvl_class(wl), lvl_class(dl))] += 1
        S.h_new(DS, dl); S.h_load(DS, da, dn)
        ref = S.hc[DS].bytes(S.hc[DS].n)
        S.h_new(WS, wl)
    else:
        method = rng.choice(["attach", "attachslow", "load"])
        if method != "load":
            S.f_new(DS); S.f_load(DS, da, dn, slow=method == "attachslow")
            ref = S.fast[DS].bytes(FAST_STATE)
        S.f_new(WS)
    dec = S.dec[(fam, WS)]
    for use in range(2):
        if fam == "h":
            if use > 0: S.h_reset_fast(WS, wl)
            S.h_attach(WS, DS)
        else:
            if use > 0: S.f_reset_fast(WS)
            if method == "load": S.f_load(WS, da, dn)
            else: S.f_attach(WS, DS)
        t = rng.choice([8, 16, 33, 64, 64, 200])
        t = min(t, dn)
        m = rng.choice([12, 40, 100, 300, 300])
        tail = d[dn - t:]
        shape = rng.random()
        if shape < 0.6 and follow:
            body = tail + follow[:m]                     # exactly what lies after the dictionary in the compressor's memory
        elif shape < 0.8:
            body = tail + tail[:m]                       # what the DEcoder would produce if the match ran on
        else:
            body = tail + rng.randbytes(m)
        lead = rng.randbytes(rng.choice([0, 0, 1, 5, 20]))
        src = lead + body + rng.randbytes(rng.choice([13, 100, 100, 4200]))
        if use == 1 and rng.random() < 0.5:
            src = src + tail + (follow[:m] if follow else tail[:m]) + rng.randbytes(20)
        n = len(src)
        dec.maxblock = max(n, 16)
        a = inp + rng.randrange(0, 16)
        S.write(a, src)
        st["dict_tail_blocks_%s" % fam] += 1
        if fam == "h": r, out = S.h_continue(WS, a, n, bound(n))
        else: r, out = S.f_continue(WS, a, n, bound(n), 1, expect_ok=True)
        nm, nh, far = history_refs(out) if r > 0 else (0, 0, 0)
        if nh: st["dict_tail_uses_dictionary"] += 1
        if S.arena.read(da, dn) != d:
            S.fail("prop_fail", "the dictionary buffer was modified by a compression that uses it")
        if fam == "h" or method != "load":
            now = S.hc[DS].bytes(S.hc[DS].n) if fam == "h" else S.fast[DS].bytes(FAST_STATE)
            if now != ref:
                S.fail("prop_fail", "the prepared dictionary stream was modified by a compression that uses it (use %d)" % use)

def scen_attach_abandoned(S, rng, fam, p):
    """C18 / C12: a session attaches a dictionary but compresses NOTHING (or only an empty input) while the hash table of the
    working context is still in the clearedTable state (fresh context, or table just cleared by a table-type change); then the
    documented reset and a new, dictionary-LESS session whose input shares content with the former dictionary.  The reset must
    forget the attachment whatever tableType says: the new block has to decode without the old dictionary."""
    st = S.res["stats"]
    base = make_base(rng)
    dn = rng.choice([64, 300, 2000, 8000, 20000])
    d = make_block(rng, dn, b"", base)
    da = S.arena.alloc(dn); S.write(da, d)
    area = S.arena.alloc(40000)
    DS, WS = 9, 0
    levels = p.get("levels", HC_LEVELS_CHEAP)
    if fam == "f":
        S.f_new(DS); S.f_load(DS, da, dn, slow=rng.random() < 0.3)
        S.f_new(WS)
        pre = rng.choice(["fresh", "fresh", "typechange", "used"])
        if pre == "typechange":
            # byU16 one-shot, then resetStream_fast: the table type differs, LZ4_prepareTable clears the table (clearedTable again)
            x = make_block(rng, 500, b"", base); S.write(area, x)
            S.f_oneshot(WS, "fr", area, len(x), bound(len(x)), 1)
            S.f_reset_fast(WS)
        elif pre == "used":
            x = make_block(rng, 500, b"", base); S.write(area, x)
            S.f_continue(WS, area, len(x), bound(len(x)), 1, expect_ok=True)
            S.f_reset_fast(WS)
        st["abandoned_pre_" + pre] += 1
        S.f_attach(WS, DS)
        if rng.random() < 0.5:
            S.f_continue(WS, area + 1000, 0, 16, 1)            # the legal 1-byte empty block
            st["abandoned_empty_block"] += 1
        how = rng.choice(["reset", "reset", "oneshot"])
        if how == "reset":
            S.f_reset_fast(WS)
        else:
            x = make_block(rng, rng.choice([0, 40, 3000]), d, base); S.write(area + 2000, x)
            S.f_oneshot(WS, "fr", area + 2000, len(x), bound(len(x)), 1)
            S.f_reset_fast(WS) if rng.random() < 0.5 else None
            if S.fstate(WS)["ds"] and S.fstate(WS)["dict"] == 0:
                S.f_reset_fast(WS)                                # a one-shot must be followed by a reset before streaming
        dec = S.dec[("f", WS)]
        pos = 8000
        for j in range(rng.choice([1, 2])):
            n = rng.choice([40, 300, 1000, 4000, 4097, 6000])
            src = dict_input(rng, n, d, base)
            dec.maxblock = max(dec.maxblock, n)
            S.write(area + pos, src)
            st["abandoned_session_blocks_f"] += 1
            r, out = S.f_continue(WS, area + pos, n, bound(n), 1, expect_ok=True)
            pos += n + rng.choice([0, 0, 64])
    else:
        S.h_new(DS, rng.choice(levels)); S.h_load(DS, da, dn)
        S.h_new(WS, rng.choice(levels))
        S.h_attach(WS, DS)
        if rng.random() < 0.5:
            S.h_continue(WS, area + 1000, 0, 16)
        S.h_reset_fast(WS, rng.choice(levels))
        dec = S.dec[("h", WS)]
        pos = 8000
        for j in range(rng.choice([1, 2])):
            n = rng.choice([40, 300, 1000, 4000, 4097, 6000])
            src = dict_input(rng, n, d, base)
            dec.maxblock = max(dec.maxblock, n)
            S.write(area + pos, src)
            st["abandoned_session_blocks_h"] += 1
            S.h_continue(WS, area + pos, n, bound(n))
            pos += n + rng.choice([0, 0, 64])


def corpus_savedict_fresh(S, rng):
    """F17 (fixed in /repo): LZ4_saveDictHC on a stream that has not started (fresh, or fully re-initialised), then a block.
    Before the fix the context was anchored at index 0 and the block came out with an offset-0 match (silent corruption,
    every HC level).  Judged by the round-trip oracles, so levels >= 3 are guarded too; levels 1-2 also by the model."""
    src = (b"abcdefghijklmnopqrstuvwxyz0123456789" * 30)[:1000]
    a = S.arena.alloc(len(src)); S.write(a, src)
    safe = S.arena.alloc(K64)
    for i, lvl in enumerate((1, 2, 3, 9, 12)):
        S.h_new(i, lvl)
        r = S.h_save(i, safe, K64)
        if r != 0:
            S.fail("prop_fail", "LZ4_saveDictHC on a fresh stream returned %d" % r)
        S.h_continue(i, a, len(src), 2000)
        # same after LZ4_resetStreamHC_fast and after a failed call (dirty => full re-initialisation)
        S.h_reset_fast(i, lvl)
        S.h_save(i, safe, 4096)
        S.h_continue(i, a, 500, 4)             # fails: dirty
        S.h_reset_fast(i, lvl)
        S.h_save(i, safe, K64)
        S.h_continue(i, a, len(src), bound(len(src)))
    S.res["stats"]["corpus_F17"] += 1


def corpus_savedict_attached(S, rng):
    """F18 (fixed in /repo): LZ4_saveDictHC of FEWER bytes than the prefix holds while a dictionary context is attached, then
    a block right after the saved bytes.  Before the fix the dictionary stayed attached and was virtually re-placed just
    below the saved bytes: offsets into it were short by (prefix size - saved size), silent corruption at every level pair.
    Judged by the round-trip oracles with the decoder-side history D ++ b1 (all level pairs); pairs of levels 1-2 also by
    the model.  Second half: the whole prefix saved - the dictionary stays attached and is still used."""
    r0 = random.Random(18)
    D = bytes(r0.randrange(256) for _ in range(3000))
    b1 = bytes(r0.randrange(256) for _ in range(1000))
    b2 = D[500:1500]
    da = S.arena.alloc(len(D)); S.write(da, D)
    a1 = S.arena.alloc(len(b1)); S.write(a1, b1)
    safe = S.arena.alloc(2 * len(b1) + 64)
    lv = (1, 2, 3, 9, 12)
    for i, dl in enumerate(lv):
        S.h_new(10 + i, dl); S.h_load(10 + i, da, len(D))
    for j, wl in enumerate(lv):
        S.h_new(j, wl)
    for i, dl in enumerate(lv):
        for j, wl in enumerate(lv):
            for keep in (200, K64):
                S.h_reset_fast(j, wl)
                S.h_attach(j, 10 + i)
                S.h_continue(j, a1, len(b1), 2000)
                rs = S.h_save(j, safe, keep)
                S.write(safe + rs, b2)
                r, out = S.h_continue(j, safe + rs, len(b2), 2000)
                if keep == K64 and r > 200 and wl <= 2 and dl <= 2:
                    S.fail("prop_fail", "dictionary not used after LZ4_saveDictHC of the whole prefix (levels %d/%d): %d bytes" % (dl, wl, r))
    S.res["stats"]["corpus_F18"] += 1
