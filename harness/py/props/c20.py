"""C20 - the lz4file API round-trips content of every length.

Theorem side: Properties_C20.v about Model/File.v (lz4file.c over an abstract FILE), with the
LZ4F compressor/decompressor contracts as premises.
Tie / direct oracles on the REAL library (ctypes, libc FILE* on real temp files, exact-size
ASan buffers): every LZ4F_write returns its size; the file bytes parse as exactly ONE frame of
the written content by the extracted format specification (oracle "block", command frame,
rest=0); LZ4F_read returns exactly the content and then 0; and the sequence of LZ4F_read
results equals the one predicted by the extracted model (oracle "lzfile": Model/File.v run with
the specification-derived decompressor of Model/FileInst.v on the real file bytes)."""
import os, random, hashlib, collections, ctypes
from ctypes import c_size_t, c_void_p, c_char_p, c_int, byref
from capi import Lib, Buf, Prefs
from vlib import Oracle, build_lib, BUILD, md5

THEOREMS = ["C20_roundtrip", "C20_reads_deliver_content", "C20_reads_succeed", "C20_reads_then_zero",
            "C20_old_readOpen_refuted", "C20_fixed_readOpen_examples",
            "C20_dec_contract_refuted", "C20_dec_contract_open_weaker", "C20_dec_contract_open_holds",
            "C20_roundtrip_open", "C20_roundtrip_dec_discharged", "C20_read_session_framed",
            "C20_comp_contract_open_holds", "C20_comp_writes_bytes_holds", "C20_roundtrip_discharged", "C20_roundtrip_linked_discharged"]
CORRESPONDENCE = ["File.read_session (specification-derived decompressor) == LZ4F_readOpen/LZ4F_read return values and bytes",
                  "file written by LZ4F_writeOpen/LZ4F_write/LZ4F_writeClose == exactly one frame of the content by Spec.FrameSpec.frame_decode"]
ORACLES = ["block", "lzfile"]
RULE = ("contents of every length 0..40, multiples of the block size +-1 (64 KB; 256 KB..4 MB in thorough), random lengths; "
        "incompressible/compressible/mixed data; NULL and non-default preferences (block sizes 4..7, both checksums, "
        "linked/independent, levels, autoFlush, declared content size, dictID); write-size sequences (none, zeros, 1-byte, "
        "larger than maxWriteSize) x read-size sequences (0, 1, odd, larger than the content, reads after the end); files "
        "shorter than 11 bytes (LZ4F_readOpen must refuse).  non-trivial = a session with at least one byte of content or a "
        "file shorter than the maximum header size; distinct = distinct (content hash, prefs, write sizes, read sizes)")
TRUSTED = ["hand-written model Model/File.v of lz4file.c, tied by the read-result comparison",
           "C20_roundtrip_discharged assumes nothing of the LZ4F layer: the compressor side is Model/FrameC.v (bytes, C03/C07) plus the capacity "
           "tests written with Model/FrameCSizes.v's LZ4F_compressBound_internal (C10), the decompressor side is Model/FrameD.v (C08); what is "
           "assumed is the contract of the BLOCK compressors (blk_contract: C01/C06/C11/C12; and that they write bytes) and the ties of those "
           "three models to lz4frame.c (correspondence runs of C03, C08, C10).  The original dec_contract is over-general in the getFrameInfo "
           "clause (C20_dec_contract_refuted); contents below 2^64 bytes, dictID below 2^32",
           "Model/FileInst.v: idealised decompressor still used to RUN the model in this check (fast); it is not the instance of the theorem"]
ASSUMPTIONS = ["the FILE behaves ideally (no I/O error, fread returns min(n, remaining))", "malloc succeeds",
               "a declared content size equals the real one"]

U64 = 1 << 64
BS = {0: 65536, 4: 65536, 5: 262144, 6: 1048576, 7: 4194304}

def build(tier):
    return {"lib": build_lib("c20")}

def gen_cases(tier, seed):
    rng = random.Random(seed)
    cases = []
    # F7 regression first: empty and very short contents, default preferences, several read patterns
    for n in (0, 1, 2, 3):
        for reads in ([1], [4, 4], [0, 1, 1, 1, 1], [100, 100]):
            cases.append({"kind": "fixed", "len": n, "prefs": None, "writes": [n] if n else [], "reads": reads, "seed": 7 + n, "data": "text"})
    cases.append({"kind": "fixed", "len": 0, "prefs": None, "writes": [0, 0], "reads": [1, 1], "seed": 3, "data": "text"})
    for n in range(0, 41):
        cases.append({"kind": "small", "len": n, "seed": rng.randrange(1 << 48)})
    nrand = {"quick": 260, "search": 600, "thorough": 1500}[tier]
    for i in range(nrand):
        cases.append({"kind": rng.choice(["small", "small", "edge64", "edge64", "random", "short"]), "seed": rng.randrange(1 << 48)})
    if tier == "thorough":
        for i in range(32):
            cases.append({"kind": "edgebig", "seed": rng.randrange(1 << 48)})
    return cases

def worker_init(ctx):
    lib = Lib(ctx["lib"])
    L = lib.L
    P, S = c_void_p, c_size_t
    def sig(name, res, *args):
        f = getattr(L, name); f.restype = res; f.argtypes = list(args); return f
    api = {"writeOpen": sig("LZ4F_writeOpen", S, ctypes.POINTER(P), P, P),
           "write": sig("LZ4F_write", S, P, P, S),
           "writeClose": sig("LZ4F_writeClose", S, P),
           "readOpen": sig("LZ4F_readOpen", S, ctypes.POINTER(P), P),
           "read": sig("LZ4F_read", S, P, P, S),
           "readClose": sig("LZ4F_readClose", S, P)}
    libc = ctypes.CDLL(None)
    libc.fopen.restype = P; libc.fopen.argtypes = [c_char_p, c_char_p]
    libc.fclose.restype = c_int; libc.fclose.argtypes = [P]
    d = os.path.join(BUILD, "run", "c20_files")
    os.makedirs(d, exist_ok=True)
    return {"lib": lib, "api": api, "libc": libc, "dir": d, "block": Oracle(name="block"), "lzfile": Oracle(name="lzfile"), "n": 0}

def decode(ret):
    return ("err", U64 - ret) if ret > U64 - 64 else ("ok", ret)

def c_prefs(p):
    if p is None:
        return None, None
    s = Prefs()
    s.blockSizeID = p["bsid"]; s.blockMode = 0 if p["linked"] else 1
    s.contentChecksumFlag = p["cchk"]; s.frameType = 0; s.contentSize = p["csize"]; s.dictID = p["dictid"]
    s.blockChecksumFlag = p["bchk"]; s.compressionLevel = p["level"]; s.autoFlush = p["af"]; s.favorDecSpeed = 0
    return s, ctypes.cast(ctypes.pointer(s), c_void_p)

def gen_prefs(rng, n, big=False):
    if rng.random() < 0.2:
        return None
    bsid = rng.choice([0, 4, 4, 5, 6, 7] if (big or n < 300000) else [0, 4, 4, 5])
    lvl = rng.choice([0, 0, -2, 3, 9]) if n < 300000 else rng.choice([0, 0, -2])
    return {"bsid": bsid, "linked": rng.choice([0, 1]), "cchk": rng.choice([0, 1]), "csize": rng.choice([0, 0, n]) if n else 0,
            "dictid": rng.choice([0, 0, 0, 77]), "bchk": rng.choice([0, 1]), "af": rng.choice([0, 0, 1]), "level": lvl}

SPEC_LIMIT = 4096     # the specification's block decoder is quadratic on blocks with matches: only small compressible contents go through it

def gen_data(rng, n, kind):
    if n == 0:
        return b""
    if kind == "rand":
        return rng.randbytes(n)
    if kind == "zero":
        return bytes(n)
    if kind == "text":
        unit = b"It was the best of times, it was the worst of times %d. " % rng.randrange(100)
        return (unit * (n // len(unit) + 1))[:n]
    out = bytearray()
    while len(out) < n:
        l = min(n - len(out), rng.choice([1, 9, 300, 6000, 70000]))
        out += rng.randbytes(l) if rng.random() < 0.5 else bytes([rng.randrange(256)]) * l
    return bytes(out)

def data_kind(rng, n):
    if n <= SPEC_LIMIT:
        return rng.choice(["rand", "zero", "text", "mixed"])
    return rng.choice(["rand", "rand", "rand", "mixed", "text"])

def partition(rng, n, small):
    """a sequence of write sizes summing to n (zeros allowed, possibly no write at all)"""
    if n == 0:
        return rng.choice([[], [0], [0, 0]])
    style = rng.choice(["one", "bytes", "random", "random", "halves", "blocky"]) if small else rng.choice(["one", "random", "halves", "blocky", "blocky"])
    if style == "one":
        return [n]
    if style == "bytes" and n <= 64:
        return [1] * n
    out, left = [], n
    while left > 0:
        if style == "halves":
            k = max(1, left // 2)
        elif style == "blocky":
            k = rng.choice([65535, 65536, 65537, 131072, 1, 262145, 300000])
        else:
            k = rng.choice([0, 1, 2, 3, 7, 100, 4096, 65536, 70000, rng.randrange(1, left + 1)])
        k = min(k, left)
        out.append(k)
        left -= k
        if len(out) > 60:
            out.append(left); left = 0
    if rng.random() < 0.3:
        out.insert(rng.randrange(len(out) + 1), 0)
    return out

def read_sizes(rng, n, small):
    style = rng.choice(["one", "bytes", "random", "random", "big", "odd"])
    out, left = [], n
    if n > 600000:
        # large contents: few, large reads (the extracted model accumulates the delivered bytes in a list)
        k = rng.choice([n, n + 7, n // 2 + 1, n // 3 + 1, 262144 + 1, 1048576])
        while left > 0 and len(out) < 12:
            out.append(k); left -= min(k, left)
        if left > 0:
            out.append(left)
        return out + [1, 65536]
    if style == "one":
        out = [max(n, 1)]
    elif style == "big":
        out = [n + rng.choice([1, 100, 70000])]
    elif style == "bytes" and n <= 50:
        out = [1] * n
    else:
        while left > 0 and len(out) < 40:
            k = rng.choice([0, 1, 2, 3, 5, 64, 1000, 65535, 65536, 65537, 200000, rng.randrange(1, left + 2)])
            if style == "odd":
                k = rng.choice([0, 1, 3, 17, 4097, 65537, 100003])
            out.append(k)
            left -= min(k, left)
        if left > 0:
            out.append(left + rng.choice([0, 1, 5]))
    # reads after the end of the content: must return 0
    out += rng.choice([[1], [0, 1], [5, 5], [65536]])
    return out

def session(st, case, content, prefs, writes, reads, res, short_cut=None, spec=True):
    api, libc = st["api"], st["libc"]
    st["n"] += 1
    path = os.path.join(st["dir"], "f%d_%d.lz4" % (os.getpid(), st["n"] % 8)).encode()
    fails = res["fails"]
    desc = {"len": len(content), "prefs": prefs, "writes": writes[:50], "reads": reads[:50]}
    # ---------------- write
    fp = libc.fopen(path, b"wb")
    wf = c_void_p()
    cp = c_prefs(prefs)
    r = decode(api["writeOpen"](byref(wf), fp, cp[1]))
    if r[0] != "ok":
        fails.append({"status": "prop_fail", "what": "LZ4F_writeOpen failed (error %d)" % r[1], "detail": desc})
        libc.fclose(fp)
        return
    pos = 0
    for w in writes:
        b = Buf(w, data=content[pos:pos + w]) if w else Buf(0)
        r = decode(api["write"](wf, b.p, w))
        b.free()
        res["evals"] += 1
        if r != ("ok", w):
            fails.append({"status": "prop_fail", "what": "LZ4F_write of %d bytes returned %s" % (w, r), "detail": desc})
            api["writeClose"](wf); libc.fclose(fp)
            return
        pos += w
    r = decode(api["writeClose"](wf))
    libc.fclose(fp)
    if r[0] != "ok":
        fails.append({"status": "prop_fail", "what": "LZ4F_writeClose failed (error %d)" % r[1], "detail": desc})
        return
    fbytes = open(path, "rb").read()
    if short_cut is not None:
        fbytes = fbytes[:short_cut]
        open(path, "wb").write(fbytes)
    elif spec:
        # ---------------- the file is exactly one frame of the content (format specification)
        ans = st["block"].ask("frame", "1", "0", "-", fbytes.hex() if fbytes else "-")
        want = "ok %d %s rest=0" % (len(content), md5(content))
        res["evals"] += 1
        if ans != want:
            fails.append({"status": "prop_fail", "what": "file is not exactly one frame of the content by the specification: %s (want %s)" % (ans, want),
                          "detail": dict(desc, file=fbytes.hex() if len(fbytes) < 200 else "len=%d" % len(fbytes))})
            return
    # ---------------- read
    fp = libc.fopen(path, b"rb")
    rf = c_void_p()
    r = decode(api["readOpen"](byref(rf), fp))
    got = []
    if r[0] != "ok":
        got_open = "open:err:%d" % r[1]
    else:
        got_open = "open:ok"
        pos = 0
        for s in reads:
            b = Buf(s, fill=0xEE)
            r = decode(api["read"](rf, b.p, s))
            res["evals"] += 1
            if r[0] == "ok":
                if r[1] > s:
                    fails.append({"status": "prop_fail", "what": "LZ4F_read(%d) returned %d" % (s, r[1]), "detail": desc})
                    b.free(); break
                data = b.bytes(r[1])
                got.append("ok:%d:%s" % (r[1], md5(data)))
                if short_cut is None:
                    exp = content[pos:pos + s]
                    if data != exp:
                        fails.append({"status": "prop_fail", "what": "LZ4F_read(%d) at offset %d returned %d bytes, expected %d%s"
                                      % (s, pos, r[1], len(exp), "" if len(data) != len(exp) else " (different bytes)"), "detail": desc})
                        b.free(); break
                pos += r[1]
            else:
                got.append("err:%d" % r[1])
                if short_cut is None:
                    fails.append({"status": "prop_fail", "what": "LZ4F_read(%d) at offset %d failed with error %d" % (s, pos, r[1]),
                                  "detail": dict(desc, file=fbytes.hex() if len(fbytes) < 200 else "len=%d" % len(fbytes))})
                b.free(); break
            b.free()
        api["readClose"](rf)
    libc.fclose(fp)
    try:
        os.remove(path)
    except OSError:
        pass
    if short_cut is None and got_open != "open:ok":
        fails.append({"status": "prop_fail", "what": "LZ4F_readOpen failed: %s" % got_open, "detail": desc})
    # ---------------- model prediction
    if not any(f["status"] == "prop_fail" for f in fails):
        if spec or short_cut is not None:
            ans = st["lzfile"].ask("readsess", "1", "-", fbytes.hex() if fbytes else "-", ",".join(map(str, reads)) if reads else "-")
        else:
            ans = st["lzfile"].ask("readsessc", "1", "-", fbytes.hex() if fbytes else "-", content.hex() if content else "-",
                                   ",".join(map(str, reads)) if reads else "-")
        mine = " ".join([got_open] + got)
        res["evals"] += 1
        if ans != mine:
            fails.append({"status": "corr_fail", "what": "read results: model %s, code %s" % (ans[:300], mine[:300]),
                          "detail": dict(desc, file=fbytes.hex() if len(fbytes) < 200 else "len=%d" % len(fbytes))})
    if len(content) > 0 or len(fbytes) < 19:
        res["keys"].add(hashlib.sha1(repr((md5(content), prefs, writes, reads, short_cut)).encode()).hexdigest())
    res["stats"]["file_" + ("lt19" if len(fbytes) < 19 else "ge19")] += 1
    res["stats"]["prefs_" + ("null" if prefs is None else "bsid%d" % prefs["bsid"])] += 1
    res["stats"]["writes_%s" % ("0" if not writes else "1" if len(writes) == 1 else "many")] += 1
    res["stats"]["has_zero_read"] += 1 if 0 in reads else 0
    res["stats"]["has_1byte_read"] += 1 if 1 in reads else 0

def run_case(st, case):
    res = {"evals": 0, "fails": [], "keys": set(), "stats": collections.Counter()}
    rng = random.Random(case["seed"])
    kind = case["kind"]
    if kind == "fixed":
        content = gen_data(rng, case["len"], case["data"])
        session(st, case, content, case["prefs"], case["writes"], case["reads"], res)
    elif kind == "short":
        # a file shorter than 11 bytes: LZ4F_readOpen must refuse it (io_read), like the model
        n = rng.choice([0, 1, 5])
        content = gen_data(rng, n, "text")
        session(st, case, content, None, [n] if n else [], [1], res, short_cut=rng.randrange(0, 11))
    else:
        reps = 3 if kind == "small" else 1
        for _ in range(reps):
            if kind == "small":
                n = case.get("len", rng.randrange(0, 41))
            elif kind == "edge64":
                n = 65536 * rng.choice([1, 1, 2, 3]) + rng.choice([-1, 0, 1])
            elif kind == "edgebig":
                bs = rng.choice([262144, 262144, 1048576, 4194304])
                n = bs * (rng.choice([1, 1, 2]) if bs < 4194304 else 1) + rng.choice([-1, 0, 1])
            else:
                n = rng.choice([rng.randrange(41, 2000), rng.randrange(2000, 200000), rng.randrange(0, 400000)])
            dk = data_kind(rng, n)
            content = gen_data(rng, n, dk)
            prefs = gen_prefs(rng, n, big=(kind == "edgebig"))
            small = n <= 4096
            writes = partition(rng, n, small)
            reads = read_sizes(rng, n, small)
            res["stats"]["len_" + ("0" if n == 0 else "1-40" if n <= 40 else "le64K" if n <= 65536 else "gt64K")] += 1
            # decoding by the specification: small contents, or incompressible ones (stored blocks) of few blocks
            nblocks = n // BS[prefs["bsid"] if prefs else 0] + 1
            spec = n <= SPEC_LIMIT or (dk == "rand" and nblocks <= 6)
            res["stats"]["spec_" + ("checked" if spec else "skipped_large_compressible")] += 1
            res["stats"]["data_" + dk] += 1
            session(st, case, content, prefs, writes, reads, res, spec=spec)
    out = []
    for f in res["fails"][:3]:
        f["nontrivial"] = True; f["kind"] = kind
        out.append(f)
    out.append({"status": "ok", "evals": res["evals"], "keys": sorted(res["keys"])[:2000], "kind": kind,
                "stats": dict(res["stats"]), "nontrivial": False})
    return out
