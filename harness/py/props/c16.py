"""C16 - partial decoding returns exactly the requested prefix.

Judge: strict_valid of the extracted block specification (content D of the block).
Direct oracle on the real LZ4_decompress_safe_partial(_usingDict): for every target t the
return value must be min(t,|D|), the destination must start with that prefix of D, and no
byte at or after min(t,dstCapacity) may change (fill pattern compared); also with trailing
bytes after the block (declared srcSize = |B|+k) for t <= |D|.
Correspondence: the same calls on the extracted model (decapi), whole destination image."""
import random, hashlib, collections
import declib, declib2
from declib2 import fill, Dec2, gen_block, spec, model1
from capi import Lib
from vlib import Oracle, build_lib, hx, md5

THEOREMS = ["C16_partial_exact", "C16_partial_exact_safe", "C16_trailing_bytes", "C16_no_write_beyond", "C16_no_write_beyond_usingDict", "C16_partial_sound", "C16_partial_sound_safe", "C16_specified_output_valid"]
ORACLES = ["block"]
CORRESPONDENCE = [
    "decompress_safe_partial / partial usingDict model == LZ4_decompress_safe_partial(_usingDict) (return value, whole destination image), fast loop on",
    "decompress_safe_partial / partial usingDict model == LZ4_decompress_safe_partial(_usingDict) (return value, whole destination image), fast loop off"]
RULE = ("valid blocks generated from sequences (same profiles as C05, plus blocks made by LZ4_compress_default) x every target t in 0..|D|+3 for |D| <= 160, "
        "else t at/around every sequence boundary (start, middle, end of each literal run and match) plus random t; x dstCapacity "
        "{min(t,|D|), +1, |D|, larger} x trailing bytes {0,1,8,16} (t <= |D|) x history {0,1,7,8,100,4000,65535,65536,70000} x placement {none,prefix,external} "
        "x both fast-loop builds. non-trivial = 0 < t < |D| on a block with at least one match; distinct = distinct (block, history length, api, t, cap, trailing) tuples")
TRUSTED = ["block specification Spec/BlockSpec.v (written from doc/lz4_Block_format.md) is the judge",
           "hand-written model Model/Dec.v, Model/DecApi.v tied by image comparison only"]
ASSUMPTIONS = ["buffers do not wrap the address space", "fixed-size LZ4_memcpy is load-then-store"]

DICT_SIZES = [0, 0, 1, 7, 8, 100, 4000, 65534, 65535, 65536, 70000]

def build(tier):
    return {"libs": {"fast1": build_lib("dec_fast1", flags=["-DLZ4_FAST_DEC_LOOP=1"]),
                     "fast0": build_lib("dec_fast0", flags=["-DLZ4_FAST_DEC_LOOP=0"])}}

def gen_cases(tier, seed):
    rng = random.Random(seed)
    n, nb = {"quick": (90, 8), "search": (200, 10), "thorough": (900, 80)}[tier]
    cases = [{"kind": "partial", "bseed": rng.randrange(1 << 48), "count": 6} for _ in range(n)]
    cases += [{"kind": "partialbig", "bseed": rng.randrange(1 << 48), "count": 2} for _ in range(nb)]
    cases += [{"kind": "compressor", "bseed": rng.randrange(1 << 48), "count": 4} for _ in range(max(2, n // 10))]
    rng.shuffle(cases)
    return cases

def worker_init(ctx):
    return {"libs": {k: Dec2(Lib(v)) for k, v in ctx["libs"].items()}, "oracle": Oracle(), "spec": Oracle(full=True), "hists": {}}

def get_hist(st, rng, n):
    if n == 0:
        return b""
    k = (n, rng.randrange(3))
    h = st["hists"].get(k)
    if h is None:
        r2 = random.Random(n * 7 + k[1])
        h = bytes(r2.choice(b"abcdefgh\x00\xff") for _ in range(n)) if k[1] == 0 else r2.randbytes(n)
        st["hists"][k] = h
    return h

def fail(res, status, what, **detail):
    res["fails"].append({"status": status, "what": what, "detail": detail})

def hshort(h):
    return h.hex() if len(h) <= 200 else "len=%d md5=%s" % (len(h), md5(h))

def targets(rng, blk, n, budget):
    """all t for small contents, else around every sequence boundary + random"""
    if n <= 160:
        return list(range(0, n + 4))
    ts = {0, 1, n - 1, n, n + 1, n + 3}
    seqs, last = declib2.walk(blk)
    pos = 0
    for (ll, off, ml) in seqs:
        for p in (pos, pos + ll // 2, pos + ll, pos + ll + min(off, ml) , pos + ll + ml // 2, pos + ll + ml):
            for d in (-1, 0, 1):
                ts.add(p + d)
        pos += ll + ml
    ts = [t for t in ts if 0 <= t <= n + 3]
    if len(ts) > budget:
        ts = rng.sample(ts, budget)
    ts += [rng.randrange(0, n + 1) for _ in range(8)]
    return sorted(set(ts))

def check_block(st, rng, res, blk, D, hist, gen_hist_len, big=False):
    n = len(D)
    places = (["none"] if gen_hist_len == 0 else []) + (["prefix", "external"] if hist else [])
    nontriv = declib.nontrivial_hint(blk)
    salt = rng.randrange(256)
    ts = targets(rng, blk, n, 60 if not big else 24)
    trail_src = rng.randbytes(16)
    for t in ts:
        pl = rng.choice(places)
        api = {"none": "partial", "prefix": "pdict_p", "external": "pdict_x"}[pl]
        h = hist if pl != "none" else b""
        want = min(t, n)
        cap = rng.choice([want, want, want + 1, max(n, want), n + 13, n + 64, want + rng.randrange(0, 40)])
        k = rng.choice([0, 0, 0, 1, 8, 16]) if t <= n else 0
        extra = trail_src[:k]
        lim = min(t, cap)
        do_model = rng.random() < (0.25 if len(h) < 60000 and not big else 0.04)
        for bname, dec in st["libs"].items():
            r, img, perr = dec.run1(api, blk, len(blk) + k, cap, t, h, salt, extra_src=extra)
            res["evals"] += 1
            res["stats"]["api_" + api] += 1
            res["stats"]["trail_%d" % k] += 1
            det = dict(blk=blk.hex() if len(blk) < 4000 else "len=%d" % len(blk), api=api, cap=cap, target=t, trailing=k, build=bname, hist=hshort(h), dlen=n)
            if perr:
                fail(res, "prop_fail", perr, **det)
            if r != want or img[:want] != D[:want]:
                fail(res, "prop_fail", "partial decoding: returned %d (expected min(t,|D|) = %d), prefix %s" % (r, want, "equal" if img[:want] == D[:want] else "DIFFERS"), **det)
            if img[lim:] != fill(cap, salt)[lim:]:
                fail(res, "prop_fail", "partial decoding wrote beyond min(target,dstCapacity) = %d" % lim, **det)
            if nontriv and 0 < t < n:
                res["keys"].add(hashlib.sha1(b"%s|%d|%s|%d|%d|%d" % (blk[:4000], len(h), api.encode(), t, cap, k)).hexdigest())
            if do_model:
                mr, mok, mimg = model1(st["oracle"], bname == "fast1", api, blk, len(blk) + k, cap, t, h, salt, extra_src=extra)
                res["stats"]["model_calls"] += 1
                if mok != "ok" or mr != r or mimg != md5(img):
                    fail(res, "corr_fail", "model/code disagree on a partial decode: model ret=%d %s code ret=%d image %s" % (mr, mok, r, "same" if mimg == md5(img) else "differs"),
                         salt=salt, **det)

def run_case(st, case):
    rng = random.Random(case["bseed"])
    res = {"evals": 0, "fails": [], "keys": set(), "stats": collections.Counter()}
    kind = case["kind"]
    for j in range(case["count"]):
        big = kind == "partialbig"
        hs = rng.choice(DICT_SIZES)
        hist = get_hist(st, rng, hs)
        if kind == "compressor":
            # compressor-made blocks (the property quantifies over them too); no history
            import gens
            from capi import Buf
            lib = st["libs"]["fast1"].lib
            data = gens.data(rng, rng.choice(gens.KINDS), rng.choice([20, 64, 150, 300, 1000, 5000]))
            sb = Buf(len(data), data=data); bound = lib.compressBound(len(data)); db = Buf(bound)
            cs = lib.compress_default(sb.p, db.p, len(data), bound)
            blk = db.bytes(cs); sb.free(); db.free()
            gen_hist = b""; prof = "compressor"
            if rng.random() < 0.5:
                hist = b""
        else:
            unrelated = (not big) and hs > 0 and rng.random() < 0.2
            gen_hist = b"" if unrelated else hist
            prof = rng.choice(declib2.BIG_PROFILES) if big else None
            blk, content, seqs, prof = gen_block(rng, gen_hist, prof)
        res["stats"]["profile_" + prof] += 1
        res["stats"]["hist_%d" % hs] += 1
        D = spec(st["spec"], "strict", hist, blk)
        if D is None or (kind != "compressor" and D != content) or (kind == "compressor" and D != data):
            fail(res, "harness_error" if kind != "compressor" else "prop_fail",
                 "block not accepted by the specification as generated (profile %s)" % prof, blk=blk.hex()[:4000], hist_len=len(hist))
            continue
        check_block(st, rng, res, blk, D, hist, len(gen_hist), big=big)
    out = []
    for f in res["fails"][:4]:
        f["nontrivial"] = True; f["kind"] = kind
        out.append(f)
    out.append({"status": "ok", "evals": res["evals"], "keys": sorted(res["keys"])[:4000], "kind": kind, "stats": dict(res["stats"]), "nontrivial": False})
    return out
