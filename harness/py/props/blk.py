"""Block-level operations on the real library (ctypes, exact ASan buffers) and the
property oracles shared by C01/C06/C09/C17."""
import random, ctypes, hashlib
from ctypes import c_int, byref
import gens
from capi import Lib, Buf, pattern
from vlib import Oracle, hx, md5, build_lib

LZ4_MAX_INPUT_SIZE = 0x7E000000

def mk_data(case):
    rng = random.Random(case["dseed"])
    if "raw" in case:
        return bytes.fromhex(case["raw"])
    return gens.data(rng, case["dkind"], case["n"])

def junk_state(lib, which, seed):
    n = lib.sizeofState() if which == "fast" else lib.sizeofStateHC()
    rng = random.Random(seed)
    # prior content of the state: random bytes, all zero, all 0xFF, all 0x01 (single flags forgotten by a
    # field-by-field reset show up only for particular values)
    k = seed % 4
    if k == 1: return Buf(n, data=bytes(n))
    if k == 2: return Buf(n, data=b"\xff" * n)
    if k == 3: return Buf(n, data=b"\x01" * n)
    return Buf(n, data=rng.randbytes(n))

def compress(lib, variant, p, srcb, n, dstb, cap, junk_seed=0):
    """run one one-shot compressor variant; returns int"""
    v = variant
    if v == "default":
        return lib.compress_default(srcb.p, dstb.p, n, cap)
    if v == "fast":
        return lib.compress_fast(srcb.p, dstb.p, n, cap, p)
    if v == "ext":
        st = junk_state(lib, "fast", junk_seed)
        r = lib.compress_fast_extState(st.p, srcb.p, dstb.p, n, cap, p)
        st.free(); return r
    if v == "ext_fr":
        st = junk_state(lib, "fast", junk_seed)
        lib.initStream(st.p, st.n)
        r = lib.compress_fast_extState_fastReset(st.p, srcb.p, dstb.p, n, cap, p)
        st.free(); return r
    if v == "hc":
        return lib.compress_HC(srcb.p, dstb.p, n, cap, p)
    if v == "hc_ext":
        st = junk_state(lib, "hc", junk_seed)
        r = lib.compress_HC_extStateHC(st.p, srcb.p, dstb.p, n, cap, p)
        st.free(); return r
    if v in ("hc_fr", "hc_fr_fav"):
        st = junk_state(lib, "hc", junk_seed)
        lib.initStreamHC(st.p, st.n)
        lib.setCompressionLevel(st.p, p)
        if v == "hc_fr_fav":
            lib.favorDecompressionSpeed(st.p, 1)
        r = lib.compress_HC_extStateHC_fastReset(st.p, srcb.p, dstb.p, n, cap, p)
        st.free(); return r
    raise ValueError(v)

def decode_checks(st, src, out, hist=b"", caps=None, strict=True):
    """property oracles on a compressed block produced by the real code:
       - independent decoder from the block specification (extracted from Coq)
       - LZ4_decompress_safe of the real library with several capacities."""
    lib, orc = st["lib"], st["oracle"]
    n = len(src)
    want = "ok %d %s" % (n, md5(src))
    a = orc.ask("strict" if strict else "specdec", hx(hist[-65536:] if hist else b""), hx(out))
    if a != want:
        return "independent decoder (block spec%s) on the produced block: %s, expected %s" % (
            " incl. end conditions" if strict else "", a, want)
    if not hist:
        for cap in (caps or [n, n + 1, n + 64]):
            cb = Buf(len(out), data=out); db = Buf(cap, fill=0xA5)
            r = lib.decompress_safe(cb.p, db.p, len(out), cap)
            got = db.bytes(n) if r == n else None
            cb.free(); db.free()
            if r != n or got != src:
                return "LZ4_decompress_safe(cap=%d) returned %d / wrong bytes, expected %d" % (cap, r, n)
    return None

def nontrivial_block(out):
    """a compressed block is non-trivial when it contains at least one match sequence"""
    # first token literal run does not cover the rest of the block
    if not out:
        return False
    tok = out[0]; ll = tok >> 4; i = 1
    if ll == 15:
        while i < len(out):
            b = out[i]; i += 1; ll += b
            if b != 255:
                break
    return i + ll < len(out)

def worker_init(ctx):
    st = {"lib": Lib(ctx["lib"]), "oracle": Oracle(), "ctx": ctx}
    return st
