"""C12 - dictionary compression round-trips and never modifies a shared dictionary.
Theorem side: Properties_C12.v.  Tie: as C11 (exact state comparison with the extracted FastStream model after every op).
Direct oracles (fast AND HC): first block and linked follow-up blocks decode with the same dictionary bytes (independent
decoder from the block specification; LZ4_decompress_safe_usingDict with the dictionary external and as prefix;
LZ4_decompress_safe_continue after LZ4_setStreamDecode); the prepared dictionary stream (whole LZ4_stream_t /
LZ4_streamHC_t) and the dictionary buffer are byte-identical after every use."""
import random
import streamlib as sl
from vlib import build_lib

THEOREMS = ["C12_loadDict_inv", "C12_loadDict_hist", "C12_loadDict_roundtrip", "C12_attach_inv", "C12_attach_roundtrip", "C12_dictctx_unchanged", "C12_hc_mid_loadDict", "C12_hc_mid_loadDict_roundtrip", "C12_hc_mid_attach_roundtrip", "C12_hc_mid_saveDict_attached", "C12_hc_chain_loadDict", "C12_hc_chain_loadDict_roundtrip", "C12_hc_chain_attach_roundtrip", "C12_hc_opt_loadDict", "C12_hc_opt_loadDict_roundtrip", "C12_hc_opt_attach_roundtrip"]
ORACLES = ["stream"]
CORRESPONDENCE = ["Model.HcOptStream = Model.HcTabStream (the streaming layer of HcChainStream, parametric in the block compressor) instantiated with the compressor of the level (LZ4HC_compress_hashChain 3-9, LZ4HC_compress_optimal 10-12 with nbSearches / targetLength / ultra / favorDecSpeed; LZ4_favorDecompressionSpeed; histories may change strategy chain <-> opt) == lib/lz4hc.c: return value, consumed, bytes, md5 of hashTable and chainTable, nextToUpdate, end/prefixStart/dictStart, dictLimit/lowLimit, level, dirty, favorDecSpeed, dictCtx null/non-null after EVERY mirrored call; level 10-12 calls on more than streamlib.OPT_MODEL_MAX input bytes are not mirrored (extracted optimal parser too slow): direct oracles, state re-imported afterwards",
                  "Model.HcChainStream (HC levels 3-9, the same API functions with their strat != lz4mid branches: LZ4HC_Insert in loadDictHC and setExternalDict, LZ4HC_clearTables, LZ4HC_compress_hashChain with nbSearches of the level, dictCtx copied / detached; histories that stay inside the hash-chain strategy) == lib/lz4hc.c: return value, consumed, bytes, md5 of the whole hashTable and of the chainTable, nextToUpdate, end/prefixStart/dictStart (arena addresses), dictLimit/lowLimit, level, dirty, dictCtx null/non-null after EVERY mirrored call; a change of strategy inside a history, levels >= 10 and the dictionary-context search LZ4HC_searchExtDict are outside the model (state re-imported afterwards)",
                  "Model.HcMidStream (HC levels 1-2: initStreamHC, resetStreamHC(_fast), setCompressionLevel, loadDictHC/LZ4MID_fillHTable, attach_HC_dictionary with the dictionary context copied / detached / searched in place (LZ4MID_searchExtDict = Model.HcMidDict), setExternalDict, overlap trimming, 2 GB reload, compress_HC_continue(_destSize), saveDictHC (fixes F17, F18), extStateHC(_fastReset)) == lib/lz4hc.c: return value, consumed, bytes, both LZ4MID hash tables, end/prefixStart/dictStart (arena addresses), dictLimit/lowLimit/nextToUpdate, level, dirty, dictCtx null/non-null after EVERY mirrored call; calls at levels >= 3 or searching a dictionary context whose stream is at a level >= 3 (LZ4MID_searchHCDict) are outside the model (state re-imported afterwards)",
                  "Model.FastStream loadDict/loadDictSlow/attach_dictionary/compress_fast_continue (prefix, external dictionary, dictCtx with and without "
                  "table copy) == lib/lz4.c: return value, output bytes and whole public stream state after EVERY operation"]
RULE = ("dictionary sizes 0..13, 16, 40, 100, 1000, 4000, 4096, 20000, 64KB-1, 64KB, 64KB+1, 64KB+8, 70000, 130000 x method {loadDict, loadDictSlow, "
        "attach (loadDict / loadDictSlow prepared), struct copy of a prepared stream; HC: loadDictHC, attach_HC with every level pairing mid/hc/opt} x "
        "first block contiguous to the dictionary or elsewhere x input sizes {0,1,5,12,13,40,200,1000,4000,4090,4095,4096,4097,4100,5000,20000,64KB-1,64KB,64KB+12,70000} "
        "copying from every region of the dictionary (and from the part beyond 64 KB) x 1,2,3,6 reuses of one prepared dictionary stream x 0..3 linked follow-up blocks; "
        "dictionary cut out of a larger buffer with inputs repeating its LAST bytes followed by the bytes stored after it / by what a decoder "
        "would continue with / by random bytes, first and second use, every cross-level attach pairing {1,2}x{3,4,9,10,12} and reverse; "
        "abandoned sessions (attach on a cleared table, nothing or an empty input compressed, reset, dictionary-less session with dictionary-like content; run on the code alone and with the model); first case = corpus F12 (attach on a stream with history + contiguous block); "
        "non-trivial = an emitted block with at least one match reaching into the dictionary / history; distinct = distinct (source, block, history length)")
TRUSTED = ["hand-written model Model/FastStream.v (see C11), tied by exact state comparison after every operation",
           "HC dictionary paths (loadDictHC, attach_HC_dictionary, isStateCompatible, MID tables) are not modelled in Coq: direct oracle only",
           "LZ4F CDict/usingDict frames are the subject of C03 (frame layer), not of this check",
           "concurrent use of one prepared dictionary is argued from read-onlyness: the model's compress has no output for the dictionary context and the C object is "
           "compared byte-wise before/after every use; the C memory model itself is not formalised"]
ASSUMPTIONS = ["64-bit little-endian target", "the dictionary stream and buffer stay in place and unmodified while attached (documented)",
               "a dictionary is attached to a working stream that was just reset (documented for HC; since fix F12 also enforced by the fast attach itself)"]

def build(tier):
    return {"lib": build_lib("default"), "model": True}

def gen_cases(tier, seed):
    rng = random.Random(seed)
    # corpus: regression cases of the fixed findings F18 and F12, each first on the real code alone (the property oracle decides), then with the model
    cases = [{"bseed": 18, "kind": "corpus_F18", "arena": 1 << 16, "model": False},
             {"bseed": 18, "kind": "corpus_F18", "arena": 1 << 16},
             {"bseed": 12, "kind": "corpus_F12", "arena": 1 << 16, "model": False},
             {"bseed": 12, "kind": "corpus_F12", "arena": 1 << 16}]
    n = {"quick": 120, "search": 360, "thorough": 900}[tier]
    for i in range(n):
        fam = "f" if i % 5 < 3 else "h"
        big = i % 6 == 0
        dn = rng.choice(sl.DICT_SIZES if big else [d for d in sl.DICT_SIZES if d <= 20000] + [sl.K64, sl.K64 + 1])
        maxin = 70000 if big else rng.choice([5000, 5000, 20000])
        cases.append({"bseed": rng.randrange(1 << 48), "kind": "dict_" + fam, "fam": fam, "dn": dn, "maxin": maxin,
                      "arena": dn + 3 * (maxin + 16) + 64 + 4096 + 200 + sl.K64 + 9016 + 80,
                      "levels": [1, 2, 2] if (fam == "h" and i % 10 in (3, 8)) else [3, 5, 6, 9] if (fam == "h" and i % 10 == 4) else [10, 11, 12, 6] if (fam == "h" and i % 10 == 9 and maxin <= 5000) else sl.HC_LEVELS if maxin <= 5000 else sl.HC_LEVELS_CHEAP})   # [1,2,2]: LZ4MID only, mirrored on Model.HcMidStream
    # dictionary cut out of a larger buffer; inputs repeat its LAST bytes; every cross-level attach pairing (HC)
    k = {"quick": 1, "search": 3, "thorough": 6}[tier]
    for rep in range(k):
        for pair in sl.CROSS_LEVEL_PAIRS:
            cases.append({"bseed": rng.randrange(1 << 48), "kind": "dict_tail_h", "fam": "h", "pair": list(pair), "arena": 3 * sl.K64 + 16384})
        for j in range(4):
            cases.append({"bseed": rng.randrange(1 << 48), "kind": "dict_tail_f", "fam": "f", "pair": None, "arena": 3 * sl.K64 + 16384})
    # attach, compress nothing (or an empty input) on a cleared table, reset, dictionary-less session with dictionary-like content:
    # first on the real code alone (the property oracle decides), then with the model
    k = {"quick": 3, "search": 12, "thorough": 12}[tier]
    ab = []
    for i in range(k):
        ab.append({"bseed": rng.randrange(1 << 48), "kind": "attach_abandoned_f", "fam": "f", "arena": 1 << 17, "model": False})
    for i in range(k):
        ab.append({"bseed": rng.randrange(1 << 48), "kind": "attach_abandoned_" + ("f" if i % 3 else "h"), "fam": "f" if i % 3 else "h", "arena": 1 << 17})
    cases = cases[:4] + ab + cases[4:]
    if tier == "search":
        # failing-input search: the real code alone, judged by the property oracles (a model mismatch would stop a script early)
        for c in cases:
            c["model"] = False
    return cases

worker_init = sl.worker_init

def run_case(st, case):
    if case["kind"].startswith("attach_abandoned"):
        return sl.run_scenario(st, case, lambda S, rng: sl.scen_attach_abandoned(S, rng, case["fam"], {}))
    if case["kind"] == "corpus_F18":
        return sl.run_scenario(st, case, lambda S, rng: sl.corpus_savedict_attached(S, rng))
    if case["kind"] == "corpus_F12":
        return sl.run_scenario(st, case, lambda S, rng: sl.corpus_attach_history(S, rng))
    if case["kind"].startswith("dict_tail"):
        return sl.run_scenario(st, case, lambda S, rng: sl.scen_dict_tail(S, rng, case["fam"], {"pair": tuple(case["pair"]) if case["pair"] else None}))
    def fn(S, rng):
        sl.scen_dict(S, rng, case["fam"], {"dn": case["dn"], "maxin": case["maxin"], "levels": case["levels"]})
    return sl.run_scenario(st, case, fn)
