"""C19 - LZ4F contexts are reusable after any history; frames are consumed one by one.
Theorem side: Properties_C19.v (reset restores the invariant from any reachable state incl. failed ones; frame end
= reset; getFrameInfo; cctx bookkeeping of compressBegin after any history).
Tie: the same lock-step per-call comparison as C08 (model of the decoder vs real LZ4F_dctx, incl. its private fields),
here on REUSED contexts; cctx bookkeeping fields (lz4CtxAlloc, lz4CtxType, cStage) vs Model.FrameCtx.
Direct oracles on the real code: a probe frame decoded on a context with a history behaves call by call exactly as on a
fresh context; frames in one buffer end one call each at their exact last byte; getFrameInfo consumes exactly
LZ4F_headerSize and reports the header's fields, resumes consistently (also for skippable frames); after any history
of compression sessions, compressBegin + a legal session yields a frame that the specification decodes to the input."""
import random, hashlib, struct, collections, ctypes
from ctypes import c_size_t, c_void_p, byref
import framedlib as F
import declib, gens
from capi import Buf, Prefs, COpts
from vlib import Oracle, build_lib, hx, md5

ORACLES = ["framed", "framec"]
THEOREMS = ["C19_reset_restores_invariant", "C19_frame_end_is_reset", "C19_reset_is_fresh", "C19_frame_end_is_fresh", "C19_stops_at_frame_end", "C19_getFrameInfo",
            "C19_getFrameInfo_error_unchanged", "C19_cctx_begin_after_any_history"]
CORRESPONDENCE = ["FrameD model == LZ4F_decompress/_usingDict/getFrameInfo/reset on reused contexts: per call (consumed, produced, bytes, return value, private dctx fields)",
                  "FrameCtx.cbegin model == (lz4CtxAlloc, lz4CtxType, cStage) of the real LZ4F_cctx after every LZ4F_compressBegin",
                  "FrameC model == LZ4F compression API on ONE cctx reused over 4 frames (every ordered pair of level class x dictionary kind x block mode): per call return value and bytes, every block validated against the model's history (shared with C03)"]
RULE = ("skipChecksums used on frame k then a checksum-only-damaged frame k+1 without the option (with/without reset between); histories on one LZ4F_dctx built from {complete frame, skippable frame, frame truncated at a random point + reset, corrupted frame "
        "(error) + reset, getFrameInfo use, frame with dictionary} followed by a probe frame under a random chunking/capacity policy, replayed on a "
        "fresh context; multi-frame buffers; getFrameInfo at every stage; histories on one LZ4F_cctx built from {finished session, unfinished session, "
        "session refused with dstMaxSize_tooSmall, compressEnd refused, uncompressed-block sessions} x levels {fast, HC} x block modes, followed by a "
        "legal session. non-trivial = history of >= 1 item and a probe that decodes at least one block; distinct = distinct (history, probe, policy)")
TRUSTED = ["hand-written models Model/FrameD.v and Model/FrameCtx.v, tied by the per-call comparison only",
           "harness/c/framed_peek.c (accessors to private struct fields, includes lz4frame.c unchanged)",
           "the byte-level LZ4F compressor is not modelled here (properties C03/C07); its output after a reuse is judged by the extracted Spec.frame_decode"]
ASSUMPTIONS = ["malloc succeeds", "after a decoding error the caller resets the context before the next call (documented contract)"]

def build(tier):
    return {"lib": build_lib("framedpeek", wrappers=["framed_peek.c"]), "framec_lib": build_lib("framec"), "case_timeout": 1800}

def gen_cases(tier, seed):
    rng = random.Random(seed)
    n = {"quick": (60, 30, 30, 40), "search": (120, 50, 50, 80), "thorough": (1400, 500, 500, 1000)}[tier]
    cases = []
    for _ in range({"quick": 14, "search": 40, "thorough": 200}[tier]):
        cases.append({"kind": "skipleak", "bseed": rng.randrange(1 << 48)})
    for _ in range({"quick": 10, "search": 30, "thorough": 150}[tier]):
        cases.append({"kind": "infodict", "bseed": rng.randrange(1 << 48)})
    for kind, cnt in zip(["reuse", "multi", "info", "cctx"], n):
        for _ in range(cnt):
            cases.append({"kind": kind, "bseed": rng.randrange(1 << 48)})
    # compression contexts reused across sessions, byte level: ONE cctx over 4 frames walking every ordered pair of
    # (fast | HC level) x (no dictionary | usingDict | CDict) x block mode (machinery and model shared with C03: Model.FrameC)
    for i in range({"quick": 24, "search": 48, "thorough": 48}[tier]):
        cases.append({"kind": "cctx_walk", "bseed": rng.randrange(1 << 48), "seed": rng.randrange(1 << 48), "tier": tier, "idx": i})
    cases.append({"kind": "corpus", "bseed": 1})
    return cases

def worker_init(ctx):
    from capi import Lib
    return {"lib": F.FLib(ctx["lib"]), "oracle": Oracle(name="framed"),
            "fc": {"L": Lib(ctx["framec_lib"]), "oracle": Oracle(name="framec")}}

class Acc:
    def __init__(self, kind):
        self.kind = kind; self.evals = 0; self.fails = []; self.keys = set(); self.stats = collections.Counter()
    def fail(self, status, what, detail):
        self.fails.append({"status": status, "what": what, "detail": detail, "nontrivial": True, "kind": self.kind})
    def results(self):
        self.fails.sort(key=lambda f: 0 if f["status"] == "prop_fail" else 1)
        out = self.fails[:3]
        out.append({"status": "ok", "evals": self.evals, "keys": sorted(self.keys)[:3000], "kind": self.kind,
                    "stats": dict(self.stats), "nontrivial": False})
        return out

def bad(acc, r, what_ctx, det):
    """common handling of a drive() result that is not a plain verdict; True if the case must stop"""
    v = r["verdict"]
    if r.get("corr") and not any(f["status"] == "corr_fail" for f in acc.fails):
        acc.fail("corr_fail", "%s: model/code disagree: %s" % (what_ctx, r["corr"]), det)
    if v in ("prop", "noprogress"):
        acc.fail("prop_fail", "%s: %s" % (what_ctx, r["what"]), det); return True
    if v in ("blockdec", "toolong"):
        acc.stats["abandoned_" + v] += 1; return True
    return False

# ------------------------------------------------------------------ decoder half
HIST = ["frame", "frame", "skippable", "truncated_reset", "corrupt_reset", "info_then_frame", "dict_frame", "reset_only", "partial_hdr_reset"]

def history_item(st, acc, rng, sess, kind):
    """apply one history item to the session (C ctx + model in lock step).  Returns False if the case must stop."""
    acc.stats["hist_" + kind] += 1
    pol = lambda: (rng.choice(F.CHUNKINGS), rng.choice(["1", "7", "large", "rand", "bs"]))
    if kind in ("frame", "dict_frame"):
        d = gens.data(rng, "text", rng.choice([50, 5000, 70000])) if kind == "dict_frame" else None
        fr, content, meta = F.gen_frame(rng, d or b"", bsid=rng.choice([4, 4, 5, 7]))
        ch, cap = pol()
        r = F.drive(sess, rng, fr, ch, cap, skip=rng.random() < 0.2, stable=rng.random() < 0.3, dict_=d, bs=F.BSIZE[meta["bsid"]], hlen=meta["hlen"])
        if bad(acc, r, "history " + kind, {"frame": fr.hex()[:800]}): return False
        if r["verdict"] != "complete" or r["out"] != content:
            acc.fail("prop_fail", "history item: valid frame not decoded on a reused context (%s %s)" % (r["verdict"], r.get("code")), {"frame": fr.hex()[:800]}); return False
    elif kind == "skippable":
        sk = F.skippable(rng.randrange(16), rng.randbytes(rng.choice([0, 1, 5, 300, 70000])))
        ch, cap = pol()
        r = F.drive(sess, rng, sk, ch, cap)
        if bad(acc, r, "history skippable", {"frame": sk.hex()[:200]}): return False
        if r["verdict"] != "complete" or r["pos"] != len(sk):
            acc.fail("prop_fail", "history item: skippable frame not skipped exactly (%s)" % r["verdict"], {"frame": sk.hex()[:200]}); return False
    elif kind in ("truncated_reset", "partial_hdr_reset"):
        fr, content, meta = F.gen_frame(rng, b"", nblocks=rng.choice([1, 2, 4]))
        cut = rng.randrange(1, meta["hlen"]) if kind == "partial_hdr_reset" else rng.randrange(1, len(fr))
        ch, cap = pol()
        r = F.drive(sess, rng, fr[:cut], ch, cap)
        if bad(acc, r, "history truncated", {"frame": fr.hex()[:800], "cut": cut}): return False
        if r["verdict"] == "complete":
            acc.fail("prop_fail", "a proper prefix of a frame is reported complete", {"frame": fr.hex()[:800], "cut": cut}); return False
        if not sess.model_dead: acc.stats["aborted_at_" + sess.md.state().split()[0]] += 1
        sess.cd.reset(); sess.md.reset()
    elif kind == "corrupt_reset":
        fr, content, meta = F.gen_frame(rng, b"", nblocks=rng.choice([1, 2, 3]), bcrc=True, ccrc=True)
        for _ in range(20):
            x = F.mutate_frame(rng, fr)
            ch, cap = pol()
            r = F.drive(sess, rng, x, ch, cap)
            if bad(acc, r, "history corrupt", {"frame": x.hex()[:800]}): return False
            if r["verdict"] == "error":
                acc.stats["failed_with_" + str(F.ERR.get(r["code"], r["code"]))] += 1
                break
            # not an error: the context is mid-frame or clean; reset and try another mutation
            sess.cd.reset(); sess.md.reset()
        sess.cd.reset(); sess.md.reset()
    elif kind == "info_then_frame":
        fr, content, meta = F.gen_frame(rng, b"")
        ci = sess.cd.frame_info(fr)
        acc.evals += 1
        if not sess.model_dead:
            mi = sess.md.frame_info(fr)
            if ci != mi[:3]:
                acc.fail("corr_fail", "getFrameInfo in history: code %s model %s" % (ci, mi[:3]), {"frame": fr.hex()[:800]})
                sess.model_dead = True; sess.corr = "getFrameInfo"
        if ci[1] < 0 or ci[0] != meta["hlen"]:
            acc.fail("prop_fail", "getFrameInfo on a valid frame: consumed %d (header %d) ret %d" % (ci[0], meta["hlen"], ci[1]), {"frame": fr.hex()[:800]}); return False
        ch, cap = pol()
        r = F.drive(sess, rng, fr[ci[0]:], ch, cap)
        if bad(acc, r, "history info_then_frame", {"frame": fr.hex()[:800]}): return False
        if r["verdict"] != "complete" or r["out"] != content:
            acc.fail("prop_fail", "decoding after getFrameInfo fails (%s %s)" % (r["verdict"], r.get("code")), {"frame": fr.hex()[:800]}); return False
    elif kind == "reset_only":
        sess.cd.reset(); sess.md.reset()
    return True

def k_reuse(st, acc, rng, case):
    hist = [rng.choice(HIST) for _ in range(rng.choice([1, 1, 2, 3, 5]))]
    reused = F.Session(st)
    ok = True
    for h in hist:
        if not history_item(st, acc, rng, reused, h):
            ok = False; break
    acc.evals += reused.calls
    if not ok:
        reused.free(); return
    # the probe: a valid frame, maybe with dictionary / leading skippable / trailing bytes
    d = gens.data(rng, "text", rng.choice([100, 70000])) if rng.random() < 0.25 else None
    fr, content, meta = F.gen_frame(rng, d or b"", small=rng.random() < 0.85, bsid=rng.choice([4, 4, 5]))
    probe = fr + (rng.randbytes(3) if rng.random() < 0.3 else b"")
    # sometimes the probe is damaged: a reused context must then FAIL exactly like a fresh one
    damaged = rng.random() < 0.3
    if damaged:
        probe = F.mutate_frame(rng, probe)
        acc.stats["probe_damaged"] += 1
    big = len(content) > 3000
    ch = rng.choice(F.CHUNKINGS if not big else ["whole", "rand", "hint", "hdr"])
    cap = rng.choice(["1", "7", "bs-1", "bs", "large", "rand"] if not big else ["mid", "bs", "bs-1", "large"])
    skip = rng.random() < 0.25; stable = rng.random() < 0.3
    pseed = rng.randrange(1 << 40)
    c0 = reused.calls
    r1 = F.drive(reused, random.Random(pseed), probe, ch, cap, skip=skip, stable=stable, dict_=d, bs=F.BSIZE[meta["bsid"]], hlen=meta["hlen"])
    t1 = list(reused.trace[c0:])
    fresh = F.Session(st)
    r2 = F.drive(fresh, random.Random(pseed), probe, ch, cap, skip=skip, stable=stable, dict_=d, bs=F.BSIZE[meta["bsid"]], hlen=meta["hlen"])
    t2 = list(fresh.trace)
    acc.evals += (reused.calls - c0) + fresh.calls
    det = {"history": hist, "probe": probe.hex() if len(probe) < 3000 else "len=%d" % len(probe), "chunking": ch, "cap": cap, "skip": skip,
           "pseed": pseed, "dict_len": len(d) if d else 0}
    reused.free(); fresh.free()
    if bad(acc, r1, "probe on reused context", det) or bad(acc, r2, "probe on fresh context", det):
        return
    if t1 != t2 or r1["verdict"] != r2["verdict"] or r1.get("out") != r2.get("out") or r1.get("pos") != r2.get("pos"):
        k = next((i for i, (a, b) in enumerate(zip(t1, t2)) if a != b), min(len(t1), len(t2)))
        det["first_difference_at_call"] = k
        det["reused"] = t1[k:k + 2]; det["fresh"] = t2[k:k + 2]
        acc.fail("prop_fail", "a context with history %s decodes differently from a fresh context (call %d: reused %s, fresh %s)" % (
            hist, k, t1[k] if k < len(t1) else None, t2[k] if k < len(t2) else None), det)
        return
    if not damaged and (r1["verdict"] != "complete" or r1["out"] != content or r1["pos"] != len(fr)):
        acc.fail("prop_fail", "valid probe frame not decoded after history %s: %s %s" % (hist, r1["verdict"], r1.get("code")), det)
        return
    acc.stats["probe_calls"] += len(t1)
    acc.keys.add(hashlib.sha1(repr((hist, pseed, ch, cap)).encode() + probe).hexdigest())

def k_multi(st, acc, rng, case):
    """consecutive frames in one buffer are consumed one at a time, each call stopping exactly at the end of the current frame"""
    parts = []; bounds = []; outs = []; pos = 0
    for j in range(rng.choice([2, 3, 5])):
        if rng.random() < 0.3:
            p = F.skippable(rng.randrange(16), rng.randbytes(rng.choice([0, 2, 40]))); c = b""
        else:
            p, c, meta = F.gen_frame(rng, b"")
        parts.append(p); pos += len(p); bounds.append(pos); outs.append(c)
    data = b"".join(parts) + (rng.randbytes(2) if rng.random() < 0.3 else b"")
    sess = F.Session(st)
    # history before, sometimes
    if rng.random() < 0.5:
        if not history_item(st, acc, rng, sess, rng.choice(HIST)):
            sess.free(); return
    # whole buffer offered every time: every call that returns 0 must have stopped exactly at a boundary
    ch = rng.choice(["whole", "whole", "rand", "hint"]); cap = rng.choice(["large", "large", "7", "rand"])
    r = F.drive(sess, rng, data, ch, cap, multi=True)
    acc.evals += sess.calls
    det = {"data": data.hex()[:2000], "bounds": bounds, "chunking": ch, "cap": cap}
    sess.free()
    if bad(acc, r, "multi-frame buffer", det): return
    ends = [a for a, b in r["frames"]]
    want = bounds if len(data) == bounds[-1] else bounds
    if ends[:len(bounds)] != bounds or [b for a, b in r["frames"]][:len(outs)] != outs:
        acc.fail("prop_fail", "frames not consumed one at a time at their exact ends: calls returning 0 ended at %s, frames end at %s" % (ends, bounds), det)
        return
    acc.keys.add(hashlib.sha1(data + ch.encode() + cap.encode()).hexdigest())
    acc.stats["multi_frames"] += len(bounds)

def k_info(st, acc, rng, case):
    """LZ4F_getFrameInfo at every stage"""
    lib = st["lib"]
    sess = F.Session(st)
    cd, md = sess.cd, sess.md
    def both_info(src):
        ci = cd.frame_info(src); acc.evals += 1
        if not sess.model_dead:
            mi = md.frame_info(src)
            if ci != mi[:3]:
                acc.fail("corr_fail", "getFrameInfo: code %s model %s (model stage %s)" % (ci, mi[:3], mi[4]), {"src": src.hex()[:400]})
                sess.model_dead = True; sess.corr = "getFrameInfo"
        return ci
    try:
        d = None
        fr, content, meta = F.gen_frame(rng, b"", bsid=rng.choice([4, 5, 6, 7]), nblocks=rng.choice([1, 2, 3]))
        hl = meta["hlen"]
        mode = rng.choice(["exact", "more", "short", "started", "mid", "skippable", "garbage"])
        acc.stats["info_" + mode] += 1
        if mode in ("exact", "more"):
            src = fr[:hl] if mode == "exact" else fr
            hs = cd.header_size(src)
            ci = both_info(src)
            if ci is None: return
            want = "bsid=%d bmode=%d cc=%d ftype=0 csize=%d dictid=%d bc=%d" % (meta["bsid"], 1 if meta["indep"] else 0, 1 if meta["ccrc"] else 0,
                    meta["csize"] or 0, meta["dictid"] or 0, 1 if meta["bcrc"] else 0)
            if ci[1] < 0 or ci[0] != hl or hs != hl or ci[2] != want:
                acc.fail("prop_fail", "getFrameInfo on a valid header: consumed %d, LZ4F_headerSize %d, header is %d bytes; ret %d; reports [%s], header says [%s]" % (
                    ci[0], hs, hl, ci[1], ci[2], want), {"frame": fr.hex()[:600]}); return
            r = F.drive(sess, rng, fr[ci[0]:], rng.choice(F.CHUNKINGS), rng.choice(["7", "large", "rand"]))
            if bad(acc, r, "decoding after getFrameInfo", {"frame": fr.hex()[:600]}): return
            if r["verdict"] != "complete" or r["out"] != content or r["pos"] != len(fr) - hl:
                acc.fail("prop_fail", "decoding from src + consumed after getFrameInfo: %s %s" % (r["verdict"], r.get("code")), {"frame": fr.hex()[:600]}); return
        elif mode == "short":
            n = rng.randrange(0, hl)
            ci = both_info(fr[:n])
            if ci is None: return
            if ci[1] >= 0 or ci[0] != 0:
                acc.fail("prop_fail", "getFrameInfo on %d of %d header bytes: ret %d consumed %d (must fail and consume nothing)" % (n, hl, ci[1], ci[0]), {"frame": fr.hex()[:600]}); return
            # the context must be unchanged: the whole frame decodes now
            r = F.drive(sess, rng, fr, rng.choice(F.CHUNKINGS), "large")
            if bad(acc, r, "decoding after a failed getFrameInfo", {"frame": fr.hex()[:600]}): return
            if r["verdict"] != "complete" or r["out"] != content:
                acc.fail("prop_fail", "a failed getFrameInfo disturbed the context: %s %s" % (r["verdict"], r.get("code")), {"frame": fr.hex()[:600]}); return
        elif mode == "started":
            n = rng.randrange(1, hl)
            k, info = sess.call(fr[:n], 10)
            if k != "ok":
                acc.fail("prop_fail", str(info), {"frame": fr.hex()[:600]}); return
            ci = both_info(fr[n:])
            if ci is None: return
            if ci[1] != -19 or ci[0] != 0:
                acc.fail("prop_fail", "getFrameInfo in the middle of a header: ret %d consumed %d (expected frameDecoding_alreadyStarted, 0)" % (ci[1], ci[0]), {"frame": fr.hex()[:600], "n": n}); return
            r = F.drive(sess, rng, fr[n:], rng.choice(F.CHUNKINGS), "large")
            if bad(acc, r, "decoding after refused getFrameInfo", {"frame": fr.hex()[:600]}): return
            if r["verdict"] != "complete" or r["out"] != content:
                acc.fail("prop_fail", "decoding after a refused getFrameInfo: %s %s" % (r["verdict"], r.get("code")), {"frame": fr.hex()[:600]}); return
        elif mode == "mid":
            n = rng.randrange(hl, len(fr))
            r = F.drive(sess, rng, fr[:n], rng.choice(["whole", "rand", "one"]), rng.choice(["large", "7"]))
            if bad(acc, r, "decoding part of a frame", {"frame": fr.hex()[:600]}): return
            pos = r["pos"]; out = r.get("out", b"")
            ci = both_info(fr[pos:])
            if ci is None: return
            want = "bsid=%d bmode=%d cc=%d ftype=0 csize=%d dictid=%d bc=%d" % (meta["bsid"], 1 if meta["indep"] else 0, 1 if meta["ccrc"] else 0,
                    meta["csize"] or 0, meta["dictid"] or 0, 1 if meta["bcrc"] else 0)
            if ci[0] != 0 or ci[1] < 0 or ci[2] != want:
                acc.fail("prop_fail", "getFrameInfo after the header was decoded: consumed %d ret %d reports [%s] expected [%s]" % (ci[0], ci[1], ci[2], want), {"frame": fr.hex()[:600], "n": n}); return
            r = F.drive(sess, rng, fr[pos:], rng.choice(F.CHUNKINGS), "large")
            if bad(acc, r, "decoding after mid-frame getFrameInfo", {"frame": fr.hex()[:600]}): return
            if r["verdict"] != "complete" or out + r["out"] != content:
                acc.fail("prop_fail", "decoding after a mid-frame getFrameInfo: %s %s" % (r["verdict"], r.get("code")), {"frame": fr.hex()[:600]}); return
        elif mode == "skippable":
            payload = rng.randbytes(rng.choice([0, 1, 4, 100]))
            sk = F.skippable(rng.randrange(16), payload)
            data = sk + fr
            hs = cd.header_size(data)
            ci = both_info(data)
            if ci is None: return
            # the real code consumes the 4 magic bytes only and resumes consistently (DESIGN.md, C19)
            if ci[1] < 0 or ci[0] not in (4, 8) or hs != 8 or "ftype=1" not in (ci[2] or ""):
                acc.fail("prop_fail", "getFrameInfo on a skippable frame: consumed %d ret %d headerSize %d info %s" % (ci[0], ci[1], hs, ci[2]), {"data": data.hex()[:600]}); return
            acc.stats["skippable_info_consumed_%d" % ci[0]] += 1
            r = F.drive(sess, rng, data[ci[0]:], rng.choice(F.CHUNKINGS), "large", multi=True)
            if bad(acc, r, "decoding after getFrameInfo on a skippable frame", {"data": data.hex()[:600]}): return
            ends = [a for a, b in r["frames"]]
            if r["verdict"] != "complete" or ends != [len(sk) - ci[0], len(data) - ci[0]] or r["frames"][1][1] != content:
                acc.fail("prop_fail", "resuming at src + consumed after getFrameInfo on a skippable frame: %s ends %s" % (r["verdict"], ends), {"data": data.hex()[:600]}); return
        else:
            g = bytes(rng.choice([0, 4, 0x22, 0x4d, 0x18, 0x60, 0x40, 0xff]) for _ in range(rng.choice([0, 3, 5, 7, 12, 20])))
            hs_c = cd.header_size(g); hs_m = int(md.orc.ask("hsize", "0", hx(g)))
            if hs_c != hs_m:
                acc.fail("corr_fail", "LZ4F_headerSize: code %d model %d" % (hs_c, hs_m), {"src": g.hex()}); return
            ci = both_info(g)
            if ci is None: return
            if ci[1] < 0 and ci[0] != 0:
                acc.fail("prop_fail", "failed getFrameInfo consumed %d bytes" % ci[0], {"src": g.hex()}); return
            if ci[1] < 0:
                r = F.drive(sess, rng, fr, "whole", "large")
                if bad(acc, r, "decoding after failed getFrameInfo", {"frame": fr.hex()[:600]}): return
                if r["verdict"] != "complete" or r["out"] != content:
                    acc.fail("prop_fail", "a failed getFrameInfo (garbage) disturbed the context: %s %s" % (r["verdict"], r.get("code")), {"src": g.hex(), "frame": fr.hex()[:600]}); return
        acc.keys.add(hashlib.sha1(fr + mode.encode()).hexdigest())
    finally:
        acc.evals += sess.calls
        sess.free()

# ------------------------------------------------------------------ compression-context half
class CCtx:
    def __init__(self, lib):
        self.lib = lib
        p = c_void_p()
        if lib.F_createCompressionContext(byref(p), 100) != 0:
            raise RuntimeError("createCompressionContext")
        self.ctx = p
    def peek(self):
        L = self.lib.L
        return (L.verif_cctx_alloc(self.ctx), L.verif_cctx_type(self.ctx), L.verif_cctx_stage(self.ctx))
    def begin(self, prefs, cap):
        db = Buf(cap)
        r = self.lib.F_compressBegin(self.ctx, db.p, cap, byref(prefs) if prefs is not None else None)
        out = db.bytes(r) if not self.lib.F_isError(r) else b""
        db.free()
        return F.sgn(r), out
    def update(self, data, cap, raw=False):
        sb = Buf(len(data), data=data); db = Buf(cap)
        f = self.lib.F_uncompressedUpdate if raw else self.lib.F_compressUpdate
        r = f(self.ctx, db.p, cap, sb.p, len(data), None)
        out = db.bytes(r) if not self.lib.F_isError(r) else b""
        sb.free(); db.free()
        return F.sgn(r), out
    def flush(self, cap):
        db = Buf(cap)
        r = self.lib.F_flush(self.ctx, db.p, cap, None)
        out = db.bytes(r) if not self.lib.F_isError(r) else b""
        db.free(); return F.sgn(r), out
    def end(self, cap):
        db = Buf(cap)
        r = self.lib.F_compressEnd(self.ctx, db.p, cap, None)
        out = db.bytes(r) if not self.lib.F_isError(r) else b""
        db.free(); return F.sgn(r), out
    def free(self):
        self.lib.F_freeCompressionContext(self.ctx)

def rand_prefs(rng, raw_ok=False):
    pr = Prefs()
    pr.blockSizeID = rng.choice([0, 4, 4, 5, 7]); pr.blockMode = 1 if raw_ok else rng.choice([0, 1])
    pr.contentChecksumFlag = rng.choice([0, 1]); pr.blockChecksumFlag = rng.choice([0, 1])
    pr.compressionLevel = rng.choice([-5, 0, 1, 2, 3, 9, 12])
    pr.autoFlush = rng.choice([0, 1]); pr.favorDecSpeed = rng.choice([0, 1])
    return pr

def model_cbegin(orc, state, level, cap):
    a = orc.ask("cbegin", str(state[0]), str(state[1]), str(state[2]), str(level), str(cap)).split()
    return int(a[0]), (int(a[1]), int(a[2]), int(a[3]))

def c_session(st, acc, rng, cc, how, det):
    """one session on the cctx.  how: finished | unfinished | begin_refused | update_refused | end_refused | raw.
    Returns (frame bytes or None, input) ; records bookkeeping correspondence."""
    lib = st["lib"]; orc = st["oracle"]
    raw = how == "raw"
    pr = rand_prefs(rng, raw_ok=raw)
    bound = lambda n: lib.F_compressBound(n, byref(pr))
    before = cc.peek()
    cap = rng.choice([0, 7, 18]) if how == "begin_refused" else rng.choice([19, 19, 64])
    r, out = cc.begin(pr, cap)
    mr, mstate = model_cbegin(orc, before, pr.compressionLevel, cap)
    acc.evals += 1
    after = cc.peek()
    det.append((how, pr.compressionLevel, pr.blockMode, cap, r))
    if (min(r, 0), after) != (mr, mstate):
        acc.fail("corr_fail", "compressBegin bookkeeping: code ret %d (alloc,type,cStage)=%s, model ret %d %s (before %s, level %d, cap %d)" % (
            r, after, mr, mstate, before, pr.compressionLevel, cap), {"sessions": det})
        return "stop", None
    if how == "begin_refused":
        if r >= 0:
            acc.fail("prop_fail", "compressBegin with capacity %d succeeded" % cap, {"sessions": det}); return "stop", None
        return None, None
    if r < 0:
        acc.fail("prop_fail", "compressBegin failed (%d) after history" % r, {"sessions": det}); return "stop", None
    frame = bytearray(out)
    data = bytearray()
    nup = rng.choice([0, 1, 2, 4])
    for i in range(nup):
        n = gens.size(rng, 150000) if rng.random() < 0.3 else rng.choice([0, 1, 100, 5000, 65536, 70000])
        piece = gens.data(rng, rng.choice(["text", "random", "runs", "period"]), n)
        if how == "update_refused" and i == nup - 1:
            r, out = cc.update(piece, max(0, min(bound(len(piece)) - 1, rng.choice([0, 3, 10]))), raw=raw)
            if r >= 0 and len(piece) > 70000:
                pass
            return None, None     # errored (or not): the session is abandoned either way
        r, out = cc.update(piece, bound(len(piece)), raw=raw)
        if r < 0:
            acc.fail("prop_fail", "compressUpdate with bound capacity failed (%d)" % r, {"sessions": det}); return "stop", None
        frame += out; data += piece
        if rng.random() < 0.2:
            r, out = cc.flush(bound(0))
            if r < 0:
                acc.fail("prop_fail", "flush with bound capacity failed (%d)" % r, {"sessions": det}); return "stop", None
            frame += out
    if how in ("unfinished", "update_refused"):
        return None, None
    if how == "end_refused":
        r, out = cc.end(rng.choice([0, 3]))
        if r >= 0:
            acc.fail("prop_fail", "compressEnd with capacity < 4 succeeded", {"sessions": det}); return "stop", None
        return None, None
    r, out = cc.end(bound(0))
    if r < 0:
        acc.fail("prop_fail", "compressEnd with bound capacity failed (%d)" % r, {"sessions": det}); return "stop", None
    frame += out
    if cc.peek()[2] != 0:
        acc.fail("prop_fail", "cStage not 0 after compressEnd", {"sessions": det}); return "stop", None
    return bytes(frame), bytes(data)

def k_cctx(st, acc, rng, case):
    lib = st["lib"]; orc = st["oracle"]
    cc = CCtx(lib)
    det = []
    try:
        hist = [rng.choice(["finished", "finished", "unfinished", "begin_refused", "update_refused", "end_refused", "raw"]) for _ in range(rng.choice([0, 1, 2, 3, 5]))]
        for h in hist + ["finished"]:
            acc.stats["csession_" + h] += 1
            fr, data = c_session(st, acc, rng, cc, h, det)
            if fr == "stop":
                return
            if fr is not None:
                sp = F.spec_frame(orc, fr)
                acc.evals += 1
                if sp is None or sp[0] != len(data) or sp[1] != md5(data) or sp[2] != 0:
                    acc.fail("prop_fail", "frame produced after history %s is not decoded to the input by the specification (%s)" % (
                        [d[0] for d in det], "rejected" if sp is None else "len %d rest %d" % (sp[0], sp[2])),
                        {"sessions": det, "frame": fr.hex()[:1000], "input_len": len(data)})
                    return
        acc.keys.add(hashlib.sha1(repr(det).encode()).hexdigest())
    finally:
        cc.free()

def k_corpus(st, acc, rng, case):
    """fixed histories: every ordered pair of decoder history items followed by a probe; fast<->HC switches on one cctx"""
    for a in HIST:
        for b in ("frame", "skippable", "corrupt_reset"):
            sess = F.Session(st)
            ok = history_item(st, acc, rng, sess, a) and history_item(st, acc, rng, sess, b)
            if ok:
                fr, content, meta = F.gen_frame(rng, b"", nblocks=2)
                r = F.drive(sess, rng, fr, "rand", "7")
                if not bad(acc, r, "corpus probe", {"hist": [a, b]}) and (r["verdict"] != "complete" or r["out"] != content):
                    acc.fail("prop_fail", "probe after history %s: %s %s" % ([a, b], r["verdict"], r.get("code")), {"frame": fr.hex()[:600]})
            acc.evals += sess.calls
            sess.free()
            if acc.fails: return
    lib = st["lib"]; orc = st["oracle"]
    cc = CCtx(lib)
    state = cc.peek()
    for level, cap in [(0, 19), (9, 19), (0, 19), (12, 18), (12, 19), (-3, 64), (3, 64)]:
        pr = Prefs(); pr.compressionLevel = level
        r, out = cc.begin(pr, cap)
        mr, mstate = model_cbegin(orc, state, level, cap)
        state = cc.peek(); acc.evals += 1
        if (min(r, 0), state) != (mr, mstate):
            acc.fail("corr_fail", "compressBegin bookkeeping (level %d cap %d): code %d %s model %d %s" % (level, cap, r, state, mr, mstate), {})
            break
    cc.free()

def k_skipleak(st, acc, rng, case):
    """skipChecksums on frame k must not disable verification of frame k+1 (same dctx, with / without reset between)"""
    for j in range(4):
        ev, f = F.run_skipleak(st, rng)
        acc.evals += ev
        acc.stats["skipleak_runs"] += 1
        if f:
            acc.fail(f[0], f[1], f[2]); return
    acc.keys.add("skipleak_%d" % case["bseed"])

def k_infodict(st, acc, rng, case):
    """header through LZ4F_getFrameInfo, the rest through LZ4F_decompress_usingDict (context in dstage_init)"""
    for j in range(5):
        ev, f = F.run_info_then_dict(st, rng)
        acc.evals += ev; acc.stats["infodict_runs"] += 1
        if f:
            acc.fail(f[0], f[1], f[2]); return
    acc.keys.add("infodict_%d" % case["bseed"])

def run_case(st, case):
    rng = random.Random(case["bseed"])
    kind = case["kind"]
    if kind == "cctx_walk":
        import framelib
        out = framelib.run_session_case(st["fc"], dict(case, kind="reuse"), "c03")
        for r in out:
            r["kind"] = "cctx_walk"
            if r.get("what"):
                r["what"] = "compression context reused across sessions: " + r["what"]
        return out
    acc = Acc(kind)
    {"reuse": k_reuse, "multi": k_multi, "info": k_info, "cctx": k_cctx, "corpus": k_corpus, "skipleak": k_skipleak, "infodict": k_infodict}[kind](st, acc, rng, case)
    return acc.results()
