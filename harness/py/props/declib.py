"""Decoder-side shared machinery (C02, C05, C16): block generators that do not use
liblz4's compressors, the real decoder entry points on exact ASan buffers, and the
comparison with the Coq model of LZ4_decompress_generic (extracted)."""
import random, ctypes
import gens
from capi import Lib, Buf, pattern
from vlib import Oracle, hx, md5

LL = [0, 0, 1, 2, 3, 5, 13, 14, 15, 16, 17, 31, 32, 33, 269, 270, 271, 524, 525, 526]
ML = [4, 4, 5, 7, 8, 9, 12, 15, 16, 17, 18, 19, 20, 21, 32, 33, 64, 272, 273, 274, 275, 529, 530, 1000]
OFFS = [1, 1, 2, 3, 4, 5, 6, 7, 8, 9, 12, 15, 16, 17, 18, 31, 32, 33, 64, 255, 256, 4096, 65535]

def enc_len(v):
    out = bytearray()
    while v >= 255:
        out.append(255); v -= 255
    out.append(v)
    return bytes(out)

def enc_seq(lits, off, mlen):
    ll = len(lits); ml = mlen - 4
    tok = (min(ll, 15) << 4) | min(ml, 15)
    out = bytearray([tok])
    if ll >= 15: out += enc_len(ll - 15)
    out += lits
    out += bytes([off & 255, off >> 8])
    if ml >= 15: out += enc_len(ml - 15)
    return bytes(out)

def enc_last(lits):
    ll = len(lits)
    out = bytearray([min(ll, 15) << 4])
    if ll >= 15: out += enc_len(ll - 15)
    out += lits
    return bytes(out)

def gen_valid_block(rng, hist=b"", max_seqs=12, big=False, valid_end=True):
    """A block built from sequences (content known by construction).
    Returns (block, content, seqs)."""
    out = bytearray(hist)
    h = len(hist)
    blk = bytearray()
    seqs = []
    nseq = rng.randrange(0, max_seqs + 1)
    for k in range(nseq):
        ll = rng.choice(LL) if not big else rng.choice(LL + [1000, 5000, 70000])
        if len(out) == 0 and ll == 0:
            ll = rng.choice([1, 4, 8, 20])
        lits = rng.randbytes(ll) if rng.random() < 0.7 else bytes([rng.randrange(256)]) * ll
        out += lits
        avail = min(len(out), 65535)
        cands = [o for o in OFFS if o <= avail] + [avail, max(1, avail - 1), rng.randrange(1, avail + 1)]
        if h and len(out) - h < 65535:
            # offsets that reach into / straddle the history
            cur = len(out) - h
            cands += [o for o in (cur + 1, cur + 2, cur + 8, cur + h // 2, cur + h) if 1 <= o <= avail]
        off = rng.choice(cands)
        ml = rng.choice(ML) if not big else rng.choice(ML + [4096, 70000])
        for i in range(ml):
            out.append(out[len(out) - off])
        seqs.append((ll, off, ml))
        blk += enc_seq(lits, off, ml)
    if valid_end:
        last_ll = rng.choice([5, 5, 6, 8, 12, 13, 15, 16, 40, 300])
        if seqs and seqs[-1][2] + last_ll < 12:
            last_ll = 12 - seqs[-1][2]
        if not seqs and rng.random() < 0.3:
            last_ll = rng.choice([0, 1, 4, 5, 14, 15, 16])
    else:
        last_ll = rng.choice([0, 1, 2, 3, 4, 5, 6, 7, 11, 12])
    lits = rng.randbytes(last_ll)
    out += lits
    blk += enc_last(lits)
    return bytes(blk), bytes(out[h:]), seqs

def mutate(rng, blk):
    b = bytearray(blk)
    if not b:
        return bytes([rng.randrange(256)])
    k = rng.randrange(6)
    if k == 0:
        i = rng.randrange(len(b)); b[i] ^= 1 << rng.randrange(8)
    elif k == 1:
        b = b[:rng.randrange(len(b) + 1)]
    elif k == 2:
        i = rng.randrange(len(b)); b[i] = rng.choice([0, 1, 0x0f, 0x10, 0xf0, 0xff, 0x1f, 0xf1])
    elif k == 3:
        b += rng.randbytes(rng.randrange(1, 20))
    elif k == 4:
        i = rng.randrange(len(b)); b[i:i] = bytes([255] * rng.randrange(1, 4))
    else:
        i = rng.randrange(len(b))
        if i + 1 < len(b):
            b[i] = 0; b[i + 1] = 0   # offset 0 candidates
    return bytes(b)

FILL = None
def fill(n, salt=0):
    return pattern(n, salt)

class Dec:
    """calls into the real library; dst buffer is exactly [prefix][cap] on the heap"""
    def __init__(self, lib):
        self.lib = lib
    def run(self, api, blk, srcsize, cap, target=0, prefix=b"", dict_=b"", salt=0, extra_src=b""):
        """api: safe | partial | dict_p | dict_x | pdict_p | pdict_x
        returns (ret, image[0..cap))"""
        lib = self.lib
        srcb = Buf(len(blk) + len(extra_src), data=blk + extra_src)
        pre = prefix if api in ("dict_p", "pdict_p") else b""
        whole = Buf(len(pre) + cap, data=pre + fill(cap, salt))
        dst = (whole.p or 0) + len(pre)
        dictb = None
        if api == "safe":
            r = lib.decompress_safe(srcb.p, dst, srcsize, cap)
        elif api == "partial":
            r = lib.decompress_safe_partial(srcb.p, dst, srcsize, target, cap)
        elif api == "dict_p":
            r = lib.decompress_safe_usingDict(srcb.p, dst, srcsize, cap, whole.p, len(pre))
        elif api == "pdict_p":
            r = lib.decompress_safe_partial_usingDict(srcb.p, dst, srcsize, target, cap, whole.p, len(pre))
        elif api == "dict_x":
            dictb = Buf(len(dict_), data=dict_)
            r = lib.decompress_safe_usingDict(srcb.p, dst, srcsize, cap, dictb.p, len(dict_))
        elif api == "pdict_x":
            dictb = Buf(len(dict_), data=dict_)
            r = lib.decompress_safe_partial_usingDict(srcb.p, dst, srcsize, target, cap, dictb.p, len(dict_))
        else:
            raise ValueError(api)
        img = whole.bytes(cap, len(pre))
        pre_after = whole.bytes(len(pre), 0)
        srcb.free(); whole.free()
        if dictb: dictb.free()
        if pre_after != pre:
            return r, img, "prefix modified"
        return r, img, None

def model_dec(orc, fast, api, blk, srcsize, cap, target, prefix, dict_, salt, extra_src=b""):
    """same call on the extracted Coq model; returns (ret, ok, md5(image[0..cap)))"""
    part = api in ("partial", "pdict_p", "pdict_x")
    if api in ("safe", "partial"):
        a = orc.ask("decapi", "1" if fast else "0", "1" if part else "0", hx(blk + extra_src), str(srcsize), str(target), str(cap),
                    "x", "-", hx(fill(cap, salt)))
    else:
        pl = "p" if api.endswith("_p") else "x"
        d = prefix if pl == "p" else dict_
        a = orc.ask("decapi", "1" if fast else "0", "1" if part else "0", hx(blk + extra_src), str(srcsize), str(target), str(cap),
                    pl, hx(d), hx(fill(cap, salt)))
    t = a.split()
    return int(t[0]), t[1], t[3]

def nontrivial_hint(blk):
    """the block has at least one match sequence (first literal run does not reach the end)"""
    if not blk:
        return False
    tok = blk[0]; ll = tok >> 4; i = 1
    if ll == 15:
        while i < len(blk):
            b = blk[i]; i += 1; ll += b
            if b != 255:
                break
    return i + ll < len(blk)
