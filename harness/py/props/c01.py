"""C01 - block compression is lossless (one-shot fast and HC entry points)."""
import random, itertools
import gens, blk, compcases as cc
from capi import Lib
from vlib import Oracle, build_lib, hx, md5

THEOREMS = ["C01_factorisation_decodes", "C01_fast_generic_roundtrip", "C01_fast_extState_roundtrip", "C01_fastReset_history", "C01_initStream_ctx_ok", "C01_compress_then_decompress_safe", "C01_hc_mid_history", "C01_hc_mid_fresh_state", "C01_hc_mid_parser",
            "C01_hc_chain_history", "C01_hc_chain_fresh_state", "C01_hc_chain_parser", "C01_hc_chain_search",
            "C01_hc_opt_history", "C01_hc_opt_parser", "C01_hc_opt_search",
            "C01_hc_chain_dictctx_probe_partial", "C01_hc_chain_dictctx_loop_n",
            "C01_hc_chain_dictctx_search", "C01_hc_chain_dictctx_loadDict"]
CORRESPONDENCE = [cc.CHAIN_CORR, cc.CHAIN_SEARCH_CORR, cc.CHAIN_DICT_CORR,
                  "Model.HcMidApi (LZ4MID_compress + one-shot HC entry points at levels 1-2, LZ4_compress_HC_destSize) == the real functions over call histories on one LZ4_streamHC_t (return value, consumed, bytes, both hash tables, end index, dirty flag after every call)",
                  "Model.FastApi.compress_fast_extState == LZ4_compress_default/_fast/_fast_extState (return value, bytes, context fields, hash table)",
                  "Model.FastApi.compress_fast_extState_fastReset == LZ4_compress_fast_extState_fastReset over call histories on one context (return value, bytes, context fields, hash table after every call)"]
ORACLES = ["block", "mid", "chain"]
RULE = ("inputs from seeded structured generators (random, runs, periodic, text, barely compressible, long-match, self-dictionary, mixed) "
        "with boundary sizes (0..20, 64KB+-12, 65547, 4KB+-1) and exhaustive small-alphabet strings in the thorough tier; x entry point "
        "{default, fast, fast_extState(junk state), HC, HC_extStateHC(junk state), HC fastReset (+favorDecSpeed)} x acceleration/level x capacity {bound, bound-1, n, small}; "
        "non-trivial = the compressed block contains at least one match sequence; distinct = distinct (input, entry point, parameter, capacity)")
TRUSTED = ["hand-written model Model/Fast.v + Model/FastApi.v of LZ4_compress_generic_validated and the one-shot entry points, tied by exact output/context comparison",
           "HC: LZ4MID (levels 1-2) and the hash-chain parser (levels 3-9) and the optimal parser (levels 10-12) are modelled (Model/HcMid*.v, Model/HcChain*.v, Model/HcOpt*.v, tied by exact output/table comparison); HC streaming and dictCtx are checked by the direct oracle only (independent decoder extracted from the Coq block specification)"]
ASSUMPTIONS = ["64-bit little-endian target (byPtr table mode and big-endian hashing not modelled)"]

def build(tier):
    return {"lib": build_lib("default"), "midstate": cc.midstate_lib(), "chainstate": cc.chainstate_lib(), "case_timeout": 1800 if tier == "thorough" else 600}

def gen_cases(tier, seed):
    rng = random.Random(seed)
    n = {"quick": 96, "search": 320, "thorough": 800}[tier]
    cases = [{"bseed": rng.randrange(1 << 48), "count": 24, "mode": "mix", "maxn": 70000 if i % 6 == 0 else 3000} for i in range(n)]
    nm = {"quick": 16, "search": 40, "thorough": 120}[tier]
    cases += [{"bseed": rng.randrange(1 << 48), "count": 10 if i % 8 else 2, "mode": "hcmid", "maxn": 9000 if i % 8 else 70000} for i in range(nm)]
    cases += cc.chain_gen_cases(rng, tier)
    if tier == "thorough":
        for a in range(16):
            cases.append({"bseed": a, "mode": "exh", "alpha": "ab", "len": 14, "shard": a, "nshards": 16, "count": 0})
        # a few inputs of several hundred KB (the specification decoder extracted from Coq is the judge: keep it affordable)
        cases.append({"bseed": 99, "count": 4, "mode": "mix", "maxn": 400000})
    return cases

def worker_init(ctx):
    import ctypes
    from capi import Lib
    st = blk.worker_init(ctx)
    st["midlib"] = Lib(ctx["midstate"]); st["midraw"] = ctypes.CDLL(ctx["midstate"]); st["mid"] = Oracle(name="mid")
    return cc.chain_worker(st, ctx)

def one(st, src, rng, res, info):
    n = len(src)
    fam = rng.choice(["fast", "fast", "hc"])
    b = cc.bound(n)
    cap = rng.choice([b, b, b + 1, max(0, b - 1), n, max(0, n - 1), n // 2 + 8, rng.randrange(0, b + 2)])
    if fam == "fast":
        variant = rng.choice(["default", "fast", "ext"])
        p = rng.choice(cc.ACCELS)
        info = dict(info, junk=rng.randrange(1 << 30))
        r, out = cc.run_fast(st, variant, src, cap, p, res, info)
        if variant == "ext":
            for dj in (1, 2, 3):
                info2 = dict(info, junk=info["junk"] + dj)
                r2, out2 = cc.run_fast(st, variant, src, cap, p, res, info2, check_model=False)
                if (r2, out2) != (r, out):
                    break
            if (r2, out2) != (r, out):
                res["fails"].append({"status": "prop_fail", "what": "LZ4_compress_fast_extState output depends on prior state bytes",
                                     "detail": dict(info, cap=cap, accel=p, n=n)})
    else:
        variant = rng.choice(["hc", "hc_ext", "hc_fr", "hc_fr_fav"])
        p = rng.choice(cc.LEVELS)
        info = dict(info, junk=rng.randrange(1 << 30))
        r, out = cc.run_hc(st, variant, src, cap, p, res, info)
        if variant == "hc_ext":
            for dj in (1, 2, 3):          # the four prior-state patterns of blk.junk_state
                r2, out2 = cc.run_hc(st, variant, src, cap, p, res, dict(info, junk=info["junk"] + dj))
                if (r2, out2) != (r, out):
                    break
            if (r2, out2) != (r, out):
                res["fails"].append({"status": "prop_fail", "what": "LZ4_compress_HC_extStateHC output depends on prior state bytes",
                                     "detail": dict(info, cap=cap, level=p, n=n)})
    res["stats"]["variant_" + variant] += 1
    res["stats"]["ret_" + ("pos" if r > 0 else "zero" if r == 0 else "neg")] += 1
    res["stats"]["size_" + ("0-20" if n <= 20 else "21-4095" if n < 4096 else "4K-64K" if n < 65536 else ">=64K")] += 1
    if r < 0 or r > max(cap, 0):
        res["fails"].append({"status": "prop_fail", "what": "compressor returned %d with capacity %d" % (r, cap),
                             "detail": dict(info, variant=variant, p=p, cap=cap, n=n)})
    elif r > 0:
        err = blk.decode_checks(st, src, out)
        if err:
            res["fails"].append({"status": "prop_fail", "what": "round trip failed: " + err,
                                 "detail": dict(info, variant=variant, p=p, cap=cap, n=n, src=src.hex() if n <= 400 else "len=%d" % n, out=out.hex() if r <= 400 else "len=%d" % r)})
        if blk.nontrivial_block(out):
            res["keys"].add(cc.key_of(src, variant, p, cap))

def far(st, src, rng, res, info):
    """window-edge inputs (> 64 KB): every HC parser (mid, hash-chain, optimal, with and without favorDecSpeed) and the fast path"""
    n = len(src); b = cc.bound(n)
    for variant, p in [("default", 1)] + [("hc", l) for l in (1, 2, 4, 9, 10, 11)] + [("hc_fr_fav", 12)]:
        if variant == "default":
            r, out = cc.run_fast(st, variant, src, b, p, res, info)
        else:
            r, out = cc.run_hc(st, variant, src, b, p, res, dict(info, junk=rng.randrange(1 << 30)))
        res["stats"]["variant_" + variant] += 1
        if r <= 0 or r > b:
            res["fails"].append({"status": "prop_fail", "what": "%s(%d) returned %d at bound capacity" % (variant, p, r), "detail": dict(info, n=n)})
            continue
        err = blk.decode_checks(st, src, out, caps=[n])
        if err:
            res["fails"].append({"status": "prop_fail", "what": "round trip failed (%s, parameter %d): %s" % (variant, p, err),
                                 "detail": dict(info, n=n, variant=variant, p=p)})
        if blk.nontrivial_block(out):
            res["keys"].add(cc.key_of(src, variant, p, b))

def history(st, rng, res, info):
    """fast-reset one-shot calls of varying size class on one context (C01 entry point + reuse)"""
    k = rng.choice([2, 3, 5, 8])
    srcs, params = [], []
    for _ in range(k):
        n = rng.choice([0, 5, 12, 13, 100, 1000, 3000, 4095, 4096, 5000, 20000, 60000, 65546, 65547, 70000])
        if n > 5000 and rng.random() < 0.6:
            n = rng.choice([100, 2000, 4095])
        kind = rng.choice(gens.KINDS)
        src = gens.data(rng, kind, n)
        if srcs and rng.random() < 0.4:      # share content with the previous, unrelated input (stale-table hazard)
            src = (srcs[-1][:len(src) // 2] + src)[:n]
        b = cc.bound(n)
        srcs.append(src)
        params.append((rng.choice([b, b, b + 5, max(0, b - 1), n // 2 + 4, rng.randrange(0, b + 2)]), rng.choice(cc.ACCELS)))
    outs = cc.run_fr_history(st, srcs, params, res, dict(info, junk=rng.randrange(1 << 30)))
    for src, (cap, acc), (r, out) in zip(srcs, params, outs):
        res["stats"]["variant_fastReset"] += 1
        res["stats"]["ret_" + ("pos" if r > 0 else "zero" if r == 0 else "neg")] += 1
        if r < 0 or r > max(cap, 0):
            res["fails"].append({"status": "prop_fail", "what": "fastReset returned %d with capacity %d" % (r, cap), "detail": info})
        elif r > 0:
            err = blk.decode_checks(st, src, out)
            if err:
                res["fails"].append({"status": "prop_fail", "what": "round trip failed after context reuse: " + err,
                                     "detail": dict(info, sizes=[len(x) for x in srcs], params=params)})
            if blk.nontrivial_block(out):
                res["keys"].add(cc.key_of(src, "fr", acc, cap))

def mid_judge(st):
    def judge(kind, src, cap, r, consumed, out):
        if r < 0 or r > max(cap, 0):
            return "returned %d with capacity %d" % (r, cap)
        if r > 0:
            err = blk.decode_checks(st, src[:consumed], out)
            if err:
                return "round trip failed: " + err
        return None
    return judge

def chain_judge(st):
    def judge(kind, src, cap, level, r, consumed, out):
        if r < 0 or r > max(cap, 0):
            return "returned %d with capacity %d" % (r, cap)
        if r > 0:
            err = blk.decode_checks(st, src[:consumed], out, strict=(kind != "ds"))
            if err:
                return "round trip failed: " + err
        return None
    return judge

def run_case(st, case):
    rng = random.Random(case["bseed"])
    res = cc.new_res()
    if case["mode"] == "hcmid":
        return cc.run_mid_case(st, case, mid_judge(st))
    if case["mode"] == "hcchain":
        return cc.run_chain_case(st, case, chain_judge(st))
    if case["mode"] == "exh":
        alpha = case["alpha"].encode()
        k = 0
        for s in gens.small_alphabet_strings(alpha, case["len"]):
            k += 1
            if k % case["nshards"] != case["shard"]:
                continue
            one(st, s, rng, res, {"exh": s.decode()})
    else:
        for j in range(case["count"]):
            kind = rng.choice(gens.KINDS)
            n = gens.size(rng, case["maxn"])
            if case["maxn"] >= 70000 and j % 4 == 0:
                kind = rng.choice(gens.FAR_KINDS)        # window-edge generators (need > 64 KB)
            src = gens.data(rng, kind, n)
            if kind in gens.FAR_KINDS:
                far(st, src, rng, res, {"bseed": case["bseed"], "j": j, "dkind": kind})
                continue
            one(st, src, rng, res, {"bseed": case["bseed"], "j": j, "dkind": kind})
            if j % 6 == 0:
                history(st, rng, res, {"bseed": case["bseed"], "j": j, "hist": 1})
    return cc.finish(res, case["mode"])
