"""C14 - the CLI never reports success on a failed decode; --rm deletes only on success.
Theorem side: Properties_C14.v.  Direct oracles on the real binaries (ST and MT builds):
  * every truncation point / single-bit flip / trailing garbage of small multi-frame files: exit 0 only if
    Spec.stream_decode (extracted, oracle `block`) accepts the mutated bytes and yields exactly the bytes written;
  * --rm: source gone only if exit 0 and destination complete; in the real call trace (LD_PRELOAD shim) remove(src)
    comes after every write and after the successful close/flush of the destination;
  * I/O faults: /dev/full, and the k-th fopen/fread/fwrite/fflush/fclose/fseek/remove failing (every k of a fault-free
    run) plus position-based read/write errors, on decompress, test, compress, legacy compress;
Tie: the extracted Io model run on the same bytes / seekable flag / fault predicts exit status, bytes written and
whether the source is removed (ST model vs ST binary, MT model vs MT binary)."""
import random, itertools, collections, os, hashlib, struct
import iolib, gens
from iolib import RunDir, run_cli, sig, shim_env, read_trace, le32
from vlib import Oracle, hx, md5

THEOREMS = ["C14_exit0_sound", "C14_rm_order", "C14_rm_order_compress", "C14_multi_exit0", "C14_truncation", "C14_truncation_exit", "C14_pipe_no_exception", "C14_lz4f_st_concrete_sound", "C14_lz4f_st_fresh_sound", "C14_old_storeCBlock_hint_refuted", "C14_hint_within_frame", "C14_call_hint_within_frame", "C14_lz4f_st_reads_exactly", "C14_lz4f_st_fresh_reads_exactly", "C14_lz4f_st_return_state"]
CORRESPONDENCE = ["IoLz4f.lz4f_st_run (concrete LZ4IO_decompressLZ4F loop over Model.FrameD) == lz4 -d -c / -t of the ST build under the stdio tracer: sequence of fread (request, return) pairs, fwrite sizes, "
                  "exit code when the loop exits the process (62/66/67/68), decoded bytes; and == Io.lz4f_st (abstract step over frame_decode) on status, output and bytes left in the source",
                  "Io.decompress (ST model) == lz4 -d/-t of the ST build under the same input, seekable flag and I/O fault: exit status class, output on exit 0, source removal",
                  "Io.decompress (MT model) == lz4 -d/-t of the MT build (same observables)",
                  "Io.compress tail model == lz4 compression (frame ST/MT, legacy) under the same I/O fault: exit status class, source removal"]
RULE = ("small multi-frame streams (2-4 frames over LZ4/legacy/skippable, own frame writer) x {every truncation point, every single-bit flip "
        "(sampled in quick), trailing garbage of 9 shapes} x {ST, MT} x {file with --rm, pipe}; fault runs: every k-th call of every stdio kind of a "
        "fault-free run and position-based read/write limits x {decompress, test, compress, legacy compress} x {ST, MT} with --rm; /dev/full "
        "destinations; multi-file --rm with good and bad inputs.  non-trivial = the mutated input or the fault changes the outcome w.r.t. the "
        "unmutated fault-free run; distinct = distinct (input bytes, configuration, fault) hashes")
TRUSTED = ["hand-written model Model/Io.v of lz4io.c's control flow, tied by differential runs against both real binaries",
           "library decoders enter the model as section variables specified by Spec.FrameSpec (C05/C08)",
           "LD_PRELOAD shim harness/c/io_shim.c (glibc: sets _IO_ERR_SEEN for injected read/write errors)"]
ASSUMPTIONS = ["process kill = the call trace stops at that point (what the kernel has flushed at that moment is not modelled)",
               "a cut inside the user data of a skippable frame on seekable input is unspecified (fseek past EOF is tolerated)",
               "blocks on which the library decoder deviates from the block specification (match offset 0, finding F5 of C05) are excluded",
               "fread never returns a short count without EOF or error (stdio semantics)"]
ORACLES = ["block", "io", "iolz4f"]

EXACT_CODES = {0, 1, 36, 40, 42, 43, 44, 45, 54}

def build(tier):
    ctx = iolib.build_bins()
    ctx["asan"] = False
    ctx["case_timeout"] = 900
    return ctx

def gen_cases(tier, seed):
    rng = random.Random(seed)
    cases = []
    # fixed corpus: regressions of the repaired defects F2, F3, F8, F9, F11 (must be VIOLATIONs again if a fix is reverted)
    cases.append({"kind": "stloop_f21", "sseed": 21})        # F21 (repaired, b4823ff): runs first
    for k in ["reg_f2", "reg_f3", "reg_f8", "reg_f9", "reg_f11"]:
        cases.append({"kind": k, "sseed": 77})
    n = {"quick": 1, "search": 3, "thorough": 3}[tier]
    budget = {"quick": 50, "search": 150, "thorough": 0}[tier]       # truncation points per case (0 = all)
    fbudget = {"quick": 50, "search": 150, "thorough": 500}[tier]    # bit flips per case
    shapes = ["LG", "GL", "SL", "LS", "GS", "LL", "GG", "LGS", "SGL", "GLS", "LSL", "GSG"]
    for i in range(n * len(shapes)):
        kinds = shapes[i % len(shapes)]
        cases.append({"kind": "trunc", "kinds": kinds, "sseed": rng.randrange(1 << 48), "budget": budget})
        cases.append({"kind": "flip", "kinds": kinds, "sseed": rng.randrange(1 << 48), "budget": fbudget})
    for i in range({"quick": 6, "search": 12, "thorough": 40}[tier]):
        cases.append({"kind": "garbage", "kinds": rng.choice(shapes + ["L", "G", "S"]), "sseed": rng.randrange(1 << 48)})
    for i in range({"quick": 6, "search": 8, "thorough": 30}[tier]):
        cases.append({"kind": "rm_multi", "sseed": rng.randrange(1 << 48)})
    for i in range({"quick": 16, "search": 16, "thorough": 64}[tier]):
        cases.append({"kind": "fault", "op": ["dec", "dec", "test", "comp", "legacy", "dec_stdout", "dec_multi", "comp_multi"][i % 8],
                      "kinds": rng.choice(shapes), "sseed": rng.randrange(1 << 48), "sparse": (i // 8) % 2 == 1})
    for i in range({"quick": 10, "search": 20, "thorough": 40}[tier]):
        cases.append({"kind": "stloop", "sseed": rng.randrange(1 << 48), "big": i % 3 == 2})
    if tier == "thorough":
        cases.append({"kind": "fault", "op": "comp_big", "kinds": "L", "sseed": rng.randrange(1 << 48), "sparse": False})
    return cases

def worker_init(ctx):
    st = {"ctx": ctx, "spec": Oracle(name="block"), "rd": RunDir("c14")}
    try:
        st["io"] = Oracle(name="io")
    except Exception:
        st["io"] = None
    st["iolz4f"] = Oracle(name="iolz4f")
    return st

# ------------------------------------------------------------------ helpers
class Acc:
    def __init__(self, case):
        self.case = case; self.evals = 0; self.fails = []; self.keys = set(); self.stats = collections.Counter()
    def fail(self, status, what, **detail):
        if len(self.fails) < 12:
            self.fails.append({"status": status, "what": what, "detail": detail, "nontrivial": True, "kind": self.case["kind"]})
    def out(self):
        return self.fails + [{"status": "ok", "evals": self.evals, "keys": sorted(self.keys)[:3000], "kind": self.case["kind"],
                              "stats": dict(self.stats), "nontrivial": False}]

def small_stream(rng, kinds, ctx):
    """small frames so that every cut / flip can be enumerated"""
    data = bytearray(); content = bytearray(); parts = []
    for k in kinds:
        s = len(data); extra = None
        if k == "L":
            fr, c, d = iolib.lz4_frame(rng, nblocks=rng.choice([1, 1, 2]), opts={"bsid": 4, "dictid": False, "csize": rng.random() < 0.3})
        elif k == "G":
            fr, c, d, extra = iolib.legacy_frame(rng, nblocks=rng.choice([1, 2]))
        else:
            fr, c, d = iolib.skippable_frame(rng, size=rng.choice([0, 1, 4, 9, 20]))
        if len(fr) > 400:      # keep it enumerable: retry with tiny blocks
            r2 = random.Random(rng.randrange(1 << 30))
            if k == "L":
                body = r2.randbytes(r2.choice([1, 5, 17]))
                o = {"bsid": 4, "indep": True, "bcrc": r2.random() < 0.5, "ccrc": r2.random() < 0.5, "csize": False, "dictid": False}
                blk = le32(len(body) | 0x80000000) + body + (le32(iolib.xxh32(body)) if o["bcrc"] else b"")
                flg = 0x40 | 0x20 | (0x10 if o["bcrc"] else 0) | (0x04 if o["ccrc"] else 0)
                desc = bytes([flg, 0x40])
                fr = le32(iolib.MAGIC) + desc + bytes([(iolib.xxh32(desc) >> 8) & 255]) + blk + le32(0) + (le32(iolib.xxh32(body)) if o["ccrc"] else b"")
                c = body; d = "Lraw"
            elif k == "G":
                lit = r2.randbytes(r2.choice([1, 6, 20]))
                blk = iolib.declib.enc_last(lit)
                fr = le32(iolib.MAGIC_LEGACY) + le32(len(blk)) + blk; c = lit; d = "G1lit"; extra = [4, len(fr)]
        data += fr; content += c
        parts.append((k, s, len(data), d, extra))
    return {"data": bytes(data), "content": bytes(content), "parts": parts}

def walk_kinds(data):
    """frame kinds of (possibly mutated) bytes by a lenient walk; used for the F4 class and the skippable overrun"""
    kinds = ""; i = 0; n = len(data); overrun = None
    try:
        while i + 4 <= n:
            (mg,) = struct.unpack_from("<I", data, i)
            if mg == iolib.MAGIC:
                kinds += "L"
                flg = data[i + 4]; i += 6
                if flg & 8: i += 8
                if flg & 1: i += 4
                i += 1
                while True:
                    (w,) = struct.unpack_from("<I", data, i); i += 4
                    if w == 0:
                        if flg & 4: i += 4
                        break
                    i += (w & 0x7FFFFFFF) + (4 if flg & 16 else 0)
            elif mg == iolib.MAGIC_LEGACY:
                kinds += "G"; i += 4
                while i + 4 <= n:
                    (w,) = struct.unpack_from("<I", data, i)
                    if w > iolib.LEGACY_BOUND: break
                    i += 4 + w
            elif (mg & 0xFFFFFFF0) == iolib.MAGIC_SKIP0:
                kinds += "S"
                (sz,) = struct.unpack_from("<I", data, i + 4)
                if i + 8 + sz > n:
                    overrun = i          # the frame starting here announces more user data than the input holds
                i += 8 + sz
            else:
                break
    except (struct.error, IndexError):
        pass
    return kinds, overrun

def judge_decode(acc, st, build, mode, data, rc, got, seekable, err, tag):
    """C14 oracle for one decode run of (possibly mutated) bytes.  got = bytes written (None if unobservable)."""
    acc.evals += 1
    key = (data, "spec")
    cache = st.setdefault("spec_cache", {})
    if len(cache) > 5000:
        cache.clear()
    if data not in cache:
        cache[data] = (iolib.spec_stream(st["spec"], data, strict=False), iolib.spec_stream(st["spec"], data, strict=True))
    sp, sp_strict = cache[data]
    kinds, overrun = walk_kinds(data)
    det = {"build": build, "mode": mode, "tag": tag, "rc": rc, "stderr": err[-200:], "data": data.hex() if len(data) < 3000 else "len=%d" % len(data),
           "spec": sp, "got": sig(got) if got is not None else None, "seekable": seekable,
           "legacy_after_lz4": iolib.legacy_after_lz4(kinds)}
    if rc == 0:
        if sp is None:
            if seekable and overrun is not None:
                # the input ends inside the user data of a skippable frame: unspecified on seekable input (fseek past EOF);
                # everything before that frame must still be a valid stream decoding to what was written
                sp2 = iolib.spec_stream(st["spec"], data[:overrun], strict=False)
                if sp2 is not None and (got is None or sp2 == sig(got)):
                    acc.stats["unspecified_skippable_overrun_seekable"] += 1
                    return
            if iolib.stream_has_offset0(data):
                acc.stats["excluded_offset0_F5"] += 1
                return
            acc.fail("prop_fail", "%s %s: exit 0 although the input is not a valid stream (%s)" % (build, mode, tag), **det)
        elif got is not None and sig(got) != sp:
            acc.fail("prop_fail", "%s %s: exit 0 but the bytes written differ from the specified decoding (%s)" % (build, mode, tag), **det)
        else:
            acc.stats["exit0_valid"] += 1
    else:
        acc.stats["exit_nonzero"] += 1
        if sp_strict is not None:
            if build == "MT" and det["legacy_after_lz4"]:
                acc.stats["valid_stream_rejected_F4_class_of_C15"] += 1      # not a C14 matter: no success is reported
            else:
                acc.fail("prop_fail", "%s %s: exit %d on a strictly valid stream (%s)" % (build, mode, rc, tag), **det)
    if rc < 0 or rc > 255 or rc == 77:
        acc.fail("prop_fail", "%s %s: abnormal termination rc=%d (%s)" % (build, mode, rc, tag), **det)

def model_dec(st, build, data, seekable, test=False, rm=False, fault="-"):
    io = st["io"]
    r = io.ask("dec", build, "1" if seekable else "0", "1" if test else "0", "1" if rm else "0", fault, hx(data))
    t = r.split()
    if t[0] != "exit":
        raise RuntimeError("io oracle: " + r[:300])
    return int(t[1]), (int(t[2]), t[3]), t[4] == "1"

def corr_decode(acc, st, build, data, seekable, rc, got, removed, test=False, rm=False, fault="-", tag=""):
    if st["io"] is None or len(data) > 300000:
        return
    mrc, mout, mrm = model_dec(st, build, data, seekable, test, rm, fault)
    acc.stats["corr_compared"] += 1
    acc.stats["corr_exit_%s_model_%d_real_%d" % (build, mrc, rc)] += 1
    if rc == 0 and mrc in (64, 66, 34, 26) and iolib.stream_has_offset0(data):
        # the library block decoder accepts a match offset 0 which the block specification (the model's decoder) rejects:
        # finding F5 of C05, outside the CLI control flow that this correspondence is about
        acc.stats["corr_excluded_offset0_F5"] += 1
        return
    bad = []
    if (mrc == 0) != (rc == 0):
        bad.append("exit class")
    elif mrc in EXACT_CODES and mrc != rc and rc in EXACT_CODES:
        bad.append("exit code")
    if rc == 0 and mrc == 0 and got is not None and mout != sig(got):
        bad.append("output")
    if removed is not None and mrm != removed:
        bad.append("source removal")
    if bad:
        acc.fail("corr_fail", "%s model/binary disagree on %s: model exit %d out %s rm %s ; binary exit %d out %s rm %s (%s)" %
                 (build, ",".join(bad), mrc, mout, mrm, rc, sig(got) if got is not None else None, removed, tag),
                 build=build, seekable=seekable, test=test, rm=rm, fault=fault, data=data.hex() if len(data) < 3000 else "len=%d" % len(data))

def decode_runs(acc, st, data, tag, rng, full=True):
    """run one (mutated) input through both builds: file with --rm, pipe; judge + correspondence"""
    ctx = st["ctx"]; rd = st["rd"]
    for build in ("ST", "MT"):
        exe = ctx[build]
        rd.clean()
        src = rd.write("in.lz4", data)
        rc, out, err = run_cli(exe, ["-d", "-q", "--rm", "--no-sparse", src, rd.f("out.bin")])
        got = rd.read("out.bin")
        removed = not os.path.exists(src)
        judge_decode(acc, st, build, "d_file_rm", data, rc, got if got is not None else b"", True, err, tag)
        if rc != 0 and removed:
            acc.fail("prop_fail", "%s: --rm removed the source although exit status is %d (%s)" % (build, rc, tag), build=build, rc=rc, data=data.hex()[:6000])
        if rc == 0 and not removed:
            acc.fail("prop_fail", "%s: --rm kept the source although exit status is 0 (%s)" % (build, tag), build=build, rc=rc, data=data.hex()[:6000])
        corr_decode(acc, st, build, data, True, rc, got if got is not None else b"", removed, rm=True, tag=tag)
        if full:
            rc, out, err = run_cli(exe, ["-d", "-q"], stdin_bytes=data)
            judge_decode(acc, st, build, "d_pipe", data, rc, out, False, err, tag)
            corr_decode(acc, st, build, data, False, rc, out, None, tag=tag)
            if rng.random() < 0.25:
                rc, out, err = run_cli(exe, ["-t", "-q", rd.write("in2.lz4", data)])
                judge_decode(acc, st, build, "t_file", data, rc, None, True, err, tag)
                corr_decode(acc, st, build, data, True, rc, None, None, test=True, tag=tag)
    acc.keys.add(hashlib.sha1(data).hexdigest())

# ------------------------------------------------------------------ case kinds
def case_trunc(acc, st, case, rng):
    s = small_stream(rng, case["kinds"], st["ctx"])
    data = s["data"]; b = iolib.boundaries(s)
    cuts = list(range(len(data)))
    if case["budget"] and len(cuts) > case["budget"]:
        must = sorted({c for x in b for c in (x - 1, x, x + 1) if 0 <= c < len(data)})
        rest = [c for c in cuts if c not in must]
        rng.shuffle(rest)
        cuts = sorted(set(must + rest[:max(0, case["budget"] - len(must))]))
    acc.stats["trunc_len_%d" % (len(data) // 50 * 50)] += 1
    for c in cuts:
        acc.stats["cut_at_boundary" if c in b else ("cut_in_skippable_payload" if iolib.in_skippable_payload(s, c) else "cut_inside")] += 1
        decode_runs(acc, st, data[:c], "cut@%d/%d %s" % (c, len(data), case["kinds"]), rng)
    decode_runs(acc, st, data, "uncut %s" % case["kinds"], rng)

def case_flip(acc, st, case, rng):
    s = small_stream(rng, case["kinds"], st["ctx"])
    data = s["data"]
    flips = [(i, b) for i in range(len(data)) for b in range(8)]
    if case["budget"] and len(flips) > case["budget"]:
        # every byte of every header region at least once, the rest sampled
        rng.shuffle(flips)
        flips = flips[:case["budget"]]
    for (i, b) in flips:
        m = bytearray(data); m[i] ^= 1 << b
        region = "?"
        for (k, s0, e0, d, extra) in s["parts"]:
            if s0 <= i < e0:
                region = k + ("_head" if i < s0 + 8 else "_body")
        acc.stats["flip_" + region] += 1
        decode_runs(acc, st, bytes(m), "flip@%d.%d %s" % (i, b, case["kinds"]), rng, full=(rng.random() < 0.5))

def case_garbage(acc, st, case, rng):
    s = small_stream(rng, case["kinds"], st["ctx"])
    data = s["data"]
    tails = [b"G", b"GA", b"GAR", b"GARB", b"GARBAGE!", rng.randbytes(rng.randrange(1, 40)), b"\0\0\0\0", b"\0" * 9,
             le32(5) + b"\x50hello"[:6], le32(iolib.LEGACY_BOUND + 1) + b"xyz", le32(iolib.MAGIC) + b"\x64", le32(iolib.MAGIC_LEGACY) + b"\x01",
             le32(iolib.MAGIC_SKIP0 + 3) + le32(1000) + b"short", le32(iolib.MAGIC_SKIP0 + 16), b"\x04\x22\x4d"]
    for t in tails:
        acc.stats["garbage_tail"] += 1
        decode_runs(acc, st, data + t, "garbage(%s) after %s" % (t[:8].hex(), case["kinds"]), rng)

def case_rm_multi(acc, st, case, rng):
    """-m --rm with good and bad inputs: only the successfully decoded sources may disappear"""
    ctx = st["ctx"]; rd = st["rd"]
    for build in ("ST", "MT"):
        rd.clean()
        files = []
        for i in range(rng.choice([2, 3, 5])):
            kinds = rng.choice(["L", "G", "GL", "SL", "LS", "LL"])
            s = small_stream(rng, kinds, ctx)
            how = rng.choice(["good", "good", "garbage", "trunc", "missing"])
            data = s["data"]
            if how == "garbage": data = data + b"GARBAGE!"
            if how == "trunc": data = data[:max(5, len(data) - rng.randrange(1, 6))]
            name = "f%d.lz4" % i
            if how != "missing":
                rd.write(name, data)
            files.append((name, how, data, s))
        rc, out, err = run_cli(ctx[build], ["-d", "-m", "-q", "--rm", "-f"] + [rd.f(n) for (n, h, d, s) in files])
        acc.evals += 1
        anybad = False
        for (name, how, data, s) in files:
            sp = iolib.spec_stream(st["spec"], data) if how != "missing" else None
            exists = os.path.exists(rd.f(name))
            got = rd.read(name[:-4])
            if how != "missing" and sp is None:
                _, overrun = walk_kinds(data)
                if overrun is not None:          # input ends inside the user data of a skippable frame: unspecified on files
                    sp2 = iolib.spec_stream(st["spec"], data[:overrun])
                    if sp2 is not None and got is not None and sig(got) == sp2:
                        acc.stats["unspecified_skippable_overrun_seekable"] += 1
                        continue
            ok = sp is not None and got is not None and sig(got) == sp
            acc.stats["multi_" + how] += 1
            if how != "missing" and not exists and not ok:
                acc.fail("prop_fail", "%s -m --rm: source %s (%s) removed although its decoding did not complete" % (build, name, how),
                         build=build, rc=rc, how=how, stderr=err[-300:], data=data.hex()[:3000])
            if sp is None:
                anybad = True
        if anybad and rc == 0:
            acc.fail("prop_fail", "%s -m: exit 0 although some input could not be decoded" % build, build=build, rc=rc,
                     files=[(n, h) for (n, h, d, s) in files], stderr=err[-300:])
        acc.keys.add(hashlib.sha1(repr([(n, h, d) for (n, h, d, s) in files]).encode()).hexdigest())

DATA_FAULTS = {"fread", "freadshort", "fwrite", "fwriteshort", "fclose_w", "fflush", "fopen", "remove"}

def case_fault(acc, st, case, rng):
    """k-th call of every kind fails, for every k of the fault-free run; plus position-based limits"""
    ctx = st["ctx"]; rd = st["rd"]; op = case["op"]
    sparse = [] if case.get("sparse") else ["--no-sparse"]
    s = small_stream(rng, case["kinds"], ctx) if op != "comp_big" else None
    raw = gens.data(rng, rng.choice(["text", "runs", "mixed"]), rng.choice([0, 1, 100, 3000, 70000, 300000]))
    if op == "comp_big":
        raw = gens.data(rng, "text", 4 * 1024 * 1024 + 70000)
    for build in ("ST", "MT"):
        exe = ctx[build]
        def setup():
            rd.clean()
            if op in ("dec", "test", "dec_stdout"):
                rd.write("in.lz4", s["data"]); return ["in.lz4"]
            if op == "dec_multi":
                rd.write("a.lz4", s["data"]); rd.write("b.lz4", s["data"] + s["data"]); return ["a.lz4", "b.lz4"]
            if op in ("comp", "legacy", "comp_big"):
                rd.write("in.bin", raw); return ["in.bin"]
            if op == "comp_multi":
                rd.write("a.bin", raw); rd.write("b.bin", raw[: len(raw) // 2] + b"tail"); return ["a.bin", "b.bin"]
        args = {"dec": ["-d", "-q", "--rm"] + sparse + ["in.lz4", "out.bin"],
                "test": ["-t", "-q"] + sparse + ["in.lz4"],
                "dec_stdout": ["-dc", "-q", "--rm", "in.lz4"],
                "dec_multi": ["-d", "-m", "-q", "--rm", "a.lz4", "b.lz4"],
                "comp": ["-q", "--rm", "in.bin", "out.lz4"],
                "comp_big": ["-q", "--rm", "in.bin", "out.lz4"],
                "legacy": ["-l", "-q", "in.bin", "out.lz4"],
                "comp_multi": ["-m", "-q", "--rm", "a.bin", "b.bin"]}[op]
        srcs = setup()
        log = rd.f("trace.log")
        so = rd.f("stdout.bin")
        rc0, _, err0 = run_cli(exe, args, env=shim_env(ctx["shim"], log=log), cwd=rd.path, stdout_path=so)
        tr = read_trace(log)
        acc.evals += 1
        if rc0 != 0:
            kk = case["kinds"] * (2 if op == "dec_multi" else 1)      # dec_multi also decodes the stream concatenated with itself
            if build == "MT" and (op.startswith("dec") or op == "test") and iolib.legacy_after_lz4(kk):
                acc.stats["fault_skipped_f4"] += 1                    # finding F4 of C15: the MT build rejects this valid stream
                continue
            acc.fail("prop_fail", "%s %s: fault-free run exits %d" % (build, op, rc0), build=build, op=op, rc=rc0, stderr=err0[-300:],
                     legacy_after_lz4=iolib.legacy_after_lz4(case.get("kinds", "")))
            continue
        check_rm_trace(acc, tr, build, op, srcs)
        counts = collections.Counter()
        sched = []
        for e in tr:
            k = e["kind"]
            if k in ("fopen", "fread", "fwrite", "fclose_w", "fclose_r", "fflush", "fseek", "remove"):
                counts[k] += 1
                sched.append((k, counts[k], e))
                if k == "fread": sched.append(("freadshort", counts[k], e))
                if k == "fwrite": sched.append(("fwriteshort", counts[k], e))
        if len(sched) > 120:           # big inputs: sample
            rng.shuffle(sched); sched = sched[:120]
        # position-based limits
        total_in = len(s["data"]) if s is not None and op not in ("comp", "legacy", "comp_multi") else len(raw)
        for p in sorted({0, 1, 4, 7, 8, 11} | ({e for (_, _, e, _, _) in s["parts"]} if s else set()) | {rng.randrange(0, total_in + 1) for _ in range(4)}):
            sched.append(("rpos", p, None))
        for q in sorted({0, 1, 3, 4, 100} | {rng.randrange(0, 5000) for _ in range(2)}):
            sched.append(("wpos", q, None))
        for (kind, k, e) in sched:
            srcs = setup()
            rc, _, err = run_cli(exe, args, env=shim_env(ctx["shim"], fault="%s:%d" % (kind, k)), cwd=rd.path, stdout_path=so)
            acc.evals += 1
            acc.stats["fault_%s_%s" % (op, kind)] += 1
            judge_fault(acc, st, build, op, kind, k, e, rc, err, srcs, s, raw, rd, so)
            if not case.get("sparse"):
                corr_fault(acc, st, build, op, kind, k, e, rc, srcs, s, raw, rd, so)
            acc.keys.add(hashlib.sha1(("%s|%s|%s|%d|%s" % (build, op, kind, k, case["sseed"])).encode()).hexdigest())

def model_fault(op, kind, k, e):
    """shim fault -> fault of the model (None = this fault has no counterpart in the model)"""
    if kind == "rpos": return "rpos:%d" % k
    if kind == "wpos": return "wpos:%d" % k
    if kind == "fopen":
        if e["mode"].startswith("w"): return "opendst"
        if e["ret"] != 0: return "-"                       # overwrite probe of the destination: normally absent
        return "opensrc"
    if kind == "fread": return "rpos:%d" % e["pos"]
    if kind == "freadshort": return "rpos:%d" % (e["pos"] + e["ret"] // 2)
    if kind == "fwrite": return "wpos:%d" % e["pos"] if e["req"] > 0 else "-"
    if kind == "fwriteshort": return "wpos:%d" % (e["pos"] + e["req"] // 2) if e["req"] > 0 else "-"
    if kind in ("fclose_w", "fflush"): return "closedst"
    if kind == "fclose_r": return "-"
    if kind == "fseek": return "seek:%d" % k
    if kind == "remove": return "remove"
    return None

COMP_EXACT = {0, 1, 36, 50}
def corr_fault(acc, st, build, op, kind, k, e, rc, srcs, s, raw, rd, so):
    if st["io"] is None:
        return
    mf = model_fault(op, kind, k, e)
    if mf is None:
        return
    if op in ("dec", "test", "dec_stdout"):
        got = None
        if op == "dec": got = rd.read("out.bin") or b""
        if op == "dec_stdout": got = open(so, "rb").read()
        removed = not os.path.exists(rd.f("in.lz4"))
        corr_decode(acc, st, build, s["data"], True, rc, got, removed, test=(op == "test"), rm=(op != "test"), fault=mf,
                    tag="%s fault %s:%d -> %s" % (op, kind, k, mf))
    elif op in ("comp", "legacy") and len(raw) < 100000:
        if kind in ("fwrite", "fwriteshort", "wpos"):
            if kind == "wpos":
                out = rd.read("out.lz4")
                # the model's compressor is abstract: only "some write fails" carries over
                if k > 0: return
            mf = "wpos:0"
        r = st["io"].ask("comp", "1" if op == "legacy" else "0", "1", mf, hx(raw))
        t = r.split()
        mrc, mrm = int(t[1]), t[4] == "1"
        removed = not os.path.exists(rd.f("in.bin"))
        acc.stats["corr_compared_comp"] += 1
        if (mrc == 0) != (rc == 0) or (mrc in COMP_EXACT and rc in COMP_EXACT and mrc != rc) or mrm != removed:
            acc.fail("corr_fail", "%s %s model/binary disagree: model exit %d rm %s ; binary exit %d rm %s (fault %s:%d -> %s)" %
                     (build, op, mrc, mrm, rc, removed, kind, k, mf), build=build, op=op, fault="%s:%d" % (kind, k), call=e)

def check_rm_trace(acc, tr, build, op, srcs):
    """C14_rm_order on the REAL call trace: each remove(src) is preceded by all writes to, and the successful
    close/flush of, the destination written from that source (fopen order pairs them)."""
    last_write_ok = True
    open_w = {}       # fid -> closed successfully?
    pending_w = set()
    for e in tr:
        k = e["kind"]
        if k == "fopen" and e["mode"].startswith("w") and e["ret"] == 0:
            pending_w.add(e["fid"])
        elif k == "fclose_w":
            pending_w.discard(e["fid"])
            if e["ret"] != 0: last_write_ok = False
        elif k == "fwrite" and e["fid"] == 1:
            pending_w.add(1)
        elif k == "fflush" and e["fid"] == 1:
            pending_w.discard(1)
        elif k == "remove":
            if pending_w:
                acc.fail("prop_fail", "%s %s: remove(%s) while a destination stream is still open/unflushed (fids %s)" %
                         (build, op, e["path"], sorted(pending_w)), build=build, op=op, trace=[(x["kind"], x["fid"], x["ret"]) for x in tr][:200])

def judge_fault(acc, st, build, op, kind, k, e, rc, err, srcs, s, raw, rd, so):
    det = {"build": build, "op": op, "fault": "%s:%d" % (kind, k), "rc": rc, "stderr": err[-200:], "call": e}
    rm_expected = op in ("dec", "dec_stdout", "dec_multi", "comp", "comp_big", "comp_multi")
    # outputs
    def dec_ok(name_out, content):
        got = rd.read(name_out) if name_out else open(so, "rb").read()
        return got is not None and got == content
    def comp_ok(name_out, rawdata):
        got = rd.read(name_out)
        if got is None: return False
        if len(got) > 400000:
            r, out, _ = run_cli(st["ctx"]["ST"], ["-dc", "-q", rd.f(name_out)])
            return r == 0 and out == rawdata
        return iolib.spec_stream(st["spec"], got) == sig(rawdata)
    pairs = []      # (source name, output complete?)
    if op == "dec": pairs = [("in.lz4", dec_ok("out.bin", s["content"]))]
    elif op == "dec_stdout": pairs = [("in.lz4", dec_ok(None, s["content"]))]
    elif op == "dec_multi": pairs = [("a.lz4", dec_ok("a", s["content"])), ("b.lz4", dec_ok("b", s["content"] * 2))]
    elif op in ("comp", "comp_big", "legacy"): pairs = [("in.bin", comp_ok("out.lz4", raw))]
    elif op == "comp_multi": pairs = [("a.bin", comp_ok("a.bin.lz4", raw)), ("b.bin", comp_ok("b.bin.lz4", raw[: len(raw) // 2] + b"tail"))]
    elif op == "test": pairs = [("in.lz4", True)]
    for (src, complete) in pairs:
        exists = os.path.exists(rd.f(src))
        if not exists and not rm_expected:
            acc.fail("prop_fail", "%s %s fault %s:%d: source %s disappeared without --rm" % (build, op, kind, k, src), **det)
        if not exists and not complete:
            acc.fail("prop_fail", "%s %s fault %s:%d: source %s removed although its output is not complete" % (build, op, kind, k, src), **det)
        if rc == 0 and not complete:
            acc.fail("prop_fail", "%s %s fault %s:%d: exit 0 although the output of %s is not complete" % (build, op, kind, k, src), **det)
        if rc != 0 and not exists and op in ("dec", "dec_stdout", "comp", "comp_big"):
            acc.fail("prop_fail", "%s %s fault %s:%d: exit %d but the source was removed" % (build, op, kind, k, rc, ), **det)
    # an I/O error on a read or write must not go unreported
    took_effect = True
    if kind == "fopen" and e and e["mode"].startswith("r") and e["ret"] != 0:
        took_effect = False            # the overwrite probe of the destination: "does not exist" is the normal answer
    if kind in ("rpos", "wpos"):
        took_effect = None             # depends on the position: judged by completeness above
    if kind in ("fwrite", "fwriteshort") and e and e["req"] == 0:
        took_effect = False
    if kind == "freadshort" and e and e["ret"] == 0 and False:
        took_effect = False
    if kind in DATA_FAULTS and took_effect and rc == 0:
        acc.fail("prop_fail", "%s %s fault %s:%d: an injected I/O error went unreported (exit 0)" % (build, op, kind, k), **det)
    if rc < 0 or rc > 255 or rc == 77:
        acc.fail("prop_fail", "%s %s fault %s:%d: abnormal termination rc=%d" % (build, op, kind, k, rc), **det)
    if rc != 0:
        acc.stats["fault_detected"] += 1
    else:
        acc.stats["fault_harmless_exit0"] += 1

# ------------------------------------------------------------------ regressions of repaired defects (fixed corpus, run first)
def case_reg(acc, st, case, rng):
    ctx = st["ctx"]; rd = st["rd"]; kind = case["kind"]
    fr, content, _ = iolib.lz4_frame(rng, nblocks=2, opts={"bsid": 4})
    lg, lcontent, _, _ = iolib.legacy_frame(rng, nblocks=2)
    raw = gens.data(rng, "text", 5000)
    for build in ("ST", "MT"):
        exe = ctx[build]
        def expect_fail(tag, args, srcname, stdin_path=None, stdout_path=None, env=None):
            rc, out, err = run_cli(exe, args, cwd=rd.path, stdin_path=stdin_path, stdout_path=stdout_path, env=env)
            acc.evals += 1
            exists = os.path.exists(rd.f(srcname)) if srcname else True
            if rc == 0 or not exists:
                acc.fail("prop_fail", "%s regression %s [%s]: exit %d, source %s" % (build, kind, tag, rc, "kept" if exists else "REMOVED"),
                         build=build, tag=tag, args=args, rc=rc, stderr=err[-300:])
            acc.keys.add("%s|%s|%s" % (build, kind, tag))
        if kind == "reg_f2":
            for (tag, data) in [("lz4+garbage", fr + b"GARBAGE!"), ("legacy+garbage", lg + le32(0xFFFFFFF0) + b"GARBAGE"),
                                ("legacy+lz4+garbage", lg + fr + b"GARBAGE!"), ("skippable+lz4+garbage", le32(iolib.MAGIC_SKIP0) + le32(0) + fr + b"zzzzzzzz")]:
                rd.clean(); rd.write("x.lz4", data)
                expect_fail(tag + " --rm", ["-d", "-q", "--rm", "x.lz4", "x.out"], "x.lz4")
                rd.clean(); rd.write("x.lz4", data)
                expect_fail(tag + " -m --rm", ["-d", "-q", "-m", "--rm", "x.lz4"], "x.lz4")
                rd.clean(); rd.write("x.lz4", data)
                expect_fail(tag + " -dc --rm", ["-dc", "-q", "--rm", "x.lz4"], "x.lz4")
        elif kind == "reg_f3":
            for rm in ([], ["--rm"]):
                for sp in ([], ["--no-sparse"]):
                    rd.clean(); rd.write("x.lz4", fr)
                    expect_fail("decompress to /dev/full %s %s" % (rm, sp), ["-d", "-q", "-f"] + rm + sp + ["x.lz4", "/dev/full"], "x.lz4")
                    rd.clean(); rd.write("x.lz4", lg)
                    expect_fail("legacy decompress to /dev/full %s %s" % (rm, sp), ["-d", "-q", "-f"] + rm + sp + ["x.lz4", "/dev/full"], "x.lz4")
                rd.clean(); rd.write("x.bin", raw)
                expect_fail("compress to /dev/full %s" % rm, ["-q", "-f"] + rm + ["x.bin", "/dev/full"], "x.bin")
                rd.clean(); rd.write("x.bin", raw)
                expect_fail("legacy compress to /dev/full %s" % rm, ["-l", "-q", "-f"] + rm + ["x.bin", "/dev/full"], "x.bin")
                rd.clean(); rd.write("x.lz4", fr)
                expect_fail("decompress, stdout=/dev/full %s" % rm, ["-dc", "-q"] + rm + ["x.lz4"], "x.lz4", stdout_path="/dev/full")
                rd.clean(); rd.write("x.lz4", fr)
                expect_fail("decompress -m, stdout=/dev/full %s" % rm, ["-dc", "-m", "-q"] + rm + ["x.lz4"], "x.lz4", stdout_path="/dev/full")
                rd.clean(); rd.write("x.bin", raw)
                expect_fail("compress, stdout=/dev/full %s" % rm, ["-c", "-q"] + rm + ["x.bin"], "x.bin", stdout_path="/dev/full")
                rd.clean(); rd.write("x.bin", raw)
                expect_fail("compress -m, stdout=/dev/full %s" % rm, ["-c", "-m", "-q"] + rm + ["x.bin"], "x.bin", stdout_path="/dev/full")
            rd.clean(); rd.write("x.lz4", fr)
            expect_fail("pipe in, stdout=/dev/full", ["-d", "-q"], None, stdin_path=rd.f("x.lz4"), stdout_path="/dev/full")
        elif kind == "reg_f8":
            for (tag, data, pos) in [("2 lz4 frames, read error at the boundary", fr + fr, len(fr)), ("read error at offset 0", fr, 0),
                                     ("legacy+lz4, read error at the boundary", lg + fr, len(lg)),
                                     ("skippable+lz4, read error after the skippable frame", le32(iolib.MAGIC_SKIP0 + 1) + le32(3) + b"abc" + fr, 11),
                                     ("lz4+legacy, read error at the end", fr + lg, len(fr) + len(lg)),
                                     ("lz4 frame, read error at its end", fr, len(fr))]:
                rd.clean(); rd.write("x.lz4", data)
                expect_fail(tag + " (file --rm)", ["-d", "-q", "--rm", "x.lz4", "x.out"], "x.lz4", env=shim_env(ctx["shim"], fault="rpos:%d" % pos))
                rd.clean(); rd.write("x.lz4", data)
                expect_fail(tag + " (-t)", ["-t", "-q", "x.lz4"], "x.lz4", env=shim_env(ctx["shim"], fault="rpos:%d" % pos))
                rd.clean(); rd.write("x.lz4", data)
                expect_fail(tag + " (-m --rm)", ["-d", "-m", "-q", "--rm", "x.lz4"], "x.lz4", env=shim_env(ctx["shim"], fault="rpos:%d" % pos))
            os.makedirs(rd.f("adir"), exist_ok=True)
            expect_fail("stdin is a directory (read() fails with EISDIR), -dc", ["-dc", "-q"], None, stdin_path=rd.f("adir"))
            expect_fail("stdin is a directory, -t", ["-t", "-q"], None, stdin_path=rd.f("adir"))
        elif kind == "reg_f9":
            big = gens.data(rng, "text", 4 * 1024 * 1024 + 100000)
            for k in (2,):
                rd.clean(); rd.write("big.bin", big)
                expect_fail("compress >4MB, fread #%d fails, --rm" % k, ["-q", "--rm", "big.bin", "big.lz4"], "big.bin", env=shim_env(ctx["shim"], fault="fread:%d" % k))
            rd.clean(); rd.write("big.bin", big)
            expect_fail("compress >4MB, read error at 4MB+5, --rm", ["-q", "--rm", "big.bin", "big.lz4"], "big.bin", env=shim_env(ctx["shim"], fault="rpos:%d" % (4 * 1024 * 1024 + 5)))
            for k in (1,):
                rd.clean(); rd.write("x.bin", raw)
                expect_fail("legacy compress, fread #%d fails" % k, ["-l", "-q", "x.bin", "x.lz4"], "x.bin", env=shim_env(ctx["shim"], fault="fread:%d" % k))
            rd.clean(); os.makedirs(rd.f("adir"), exist_ok=True)
            expect_fail("legacy compress, stdin is a directory", ["-l", "-c", "-q"], None, stdin_path=rd.f("adir"))
            expect_fail("compress, stdin is a directory", ["-c", "-q"], None, stdin_path=rd.f("adir"))
        elif kind == "reg_f11":
            for n in (256, 512):
                rd.clean()
                names = []
                for i in range(n):
                    rd.write("f%d.lz4" % i, fr + b"GARBAGE!"); names.append("f%d.lz4" % i)
                expect_fail("%d undecodable inputs, -d -m" % n, ["-d", "-m", "-q", "-f"] + names, None)
                expect_fail("%d undecodable inputs, -t -m" % n, ["-t", "-m", "-q"] + names, None)
                expect_fail("%d missing inputs, -d -m" % n, ["-d", "-m", "-q", "-f"] + ["nothere%d.lz4" % i for i in range(n)], None)
                expect_fail("%d missing inputs, compress -m" % n, ["-m", "-q", "-f"] + ["absent%d" % i for i in range(n)], None)
                expect_fail("%d inputs with a wrong extension, -d -m" % n, ["-d", "-m", "-q", "-f"] + ["f%d.lz4" % i for i in range(n - 1)] + ["adir.txt"], None)
    rd.clean()

# ------------------------------------------------------------------ the concrete ST LZ4F loop (Model/IoLz4f.v)
def parse_loop(resp):
    """oracle line -> (status, code, (outlen, outmd5), rest, rerr, reads [(want, got, err)], writes [(n, ok)])"""
    t = resp.split()
    if t[0] == "ret":
        status, code, i = "ret", 0, 1
    elif t[0] == "die":
        status, code, i = "die", int(t[1]), 2
    else:
        raise RuntimeError("iolz4f oracle: " + resp[:200])
    f = {}
    out = (int(t[i][4:]), t[i + 1])
    for x in t[i + 2:]:
        k, v = x.split("=", 1); f[k] = v
    reads, writes = [], []
    for e in ([] if f["tr"] == "-" else f["tr"].split(",")):
        if e[0] == "r":
            w, g = e[1:].rstrip("!").split("/")
            reads.append((int(w), int(g), e.endswith("!")))
        elif e[0] == "w":
            writes.append((int(e[1:-1]), e[-1] == "+"))
    return status, code, out, int(f["rest"]), int(f["rerr"]), reads, writes

def stloop_one(acc, st, data, tag, frame_len=None, content=None, test=False, rpos=None):
    """one input (begins with an LZ4 frame magic) through the real ST binary under the stdio tracer and through the
    concrete loop model: exit code when the loop exits the process, fread request/return sequence, fwrite sizes,
    output; and the concrete model against the abstract step Io.lz4f_st (status, output, bytes left)."""
    ctx = st["ctx"]; rd = st["rd"]; orc = st["iolz4f"]
    src = rd.write("in.lz4", data); so = rd.f("out.bin"); log = rd.f("trace.log")
    for p_ in (so, log):
        try: os.remove(p_)
        except OSError: pass
    fault = ("rpos:%d" % rpos) if rpos is not None else None
    args = (["-t"] if test else ["-d", "-c"]) + ["-q"]
    rc, _, err = run_cli(ctx["ST"], args, stdin_path=src, stdout_path=so, env=shim_env(ctx["shim"], fault=fault, log=log), cwd=rd.path)
    got = open(so, "rb").read() if os.path.exists(so) else b""
    tr = read_trace(log)
    rfreads = [(e["req"], e["ret"]) for e in tr if e["kind"] == "fread" and e["fid"] == 0]
    rwrites = [e["req"] for e in tr if e["kind"] == "fwrite" and e["fid"] == 1]
    rl = "rpos:%d" % (rpos - 4) if rpos is not None else "-"
    resp = orc.ask("lz4fst", "1" if test else "0", rl, "-", hx(data[4:]))
    status, code, mout, rest, rerr, reads, writes = parse_loop(resp)
    acc.evals += 1
    acc.stats["stloop_" + (status if status == "ret" else "die%d" % code)] += 1
    acc.stats["stloop_freads"] += len(reads)
    det = {"tag": tag, "len": len(data), "data": data.hex() if len(data) <= 600 else data[:64].hex() + "...", "test": test, "rpos": rpos,
           "model": resp[:400], "rc": rc, "stderr": err[-200:]}
    if code == -1:
        acc.fail("corr_fail", "concrete loop model ran out of fuel (%s)" % tag, **det); return
    # 1. the fread calls of the real loop = the ERead events of the model (after the 4 magic bytes read by selectDecoder)
    if not rfreads or rfreads[0] != (4, 4):
        acc.fail("harness_error", "trace does not start with the magic number read (%s)" % tag, **det); return
    k = len(reads)
    real = rfreads[1:1 + k]
    if real != [(w, g) for w, g, e in reads]:
        acc.fail("corr_fail", "fread sequence of LZ4IO_decompressLZ4F differs from the loop model (%s): real %s, model %s" %
                 (tag, real[:12], [(w, g) for w, g, e in reads][:12]), **det); return
    # 2. the fwrite calls
    if not test:
        m = [n for n, ok in writes]
        if rwrites[:len(m)] != m:
            acc.fail("corr_fail", "fwrite sizes differ from the loop model (%s): real %s, model %s" % (tag, rwrites[:8], m[:8]), **det); return
    # 3. exit code when the loop itself exits the process; output
    if status == "die":
        if rc != code:
            acc.fail("corr_fail", "exit code %d, the loop model exits with %d (%s)" % (rc, code, tag), **det); return
        if not test and sig(got[:mout[0]]) != mout:
            acc.fail("corr_fail", "bytes written before exit %d differ from the loop model (%s)" % (code, tag), **det); return
    else:
        if not test and sig(got[:mout[0]]) != mout:
            acc.fail("corr_fail", "decoded bytes differ from the loop model (%s)" % tag, **det); return
        if rest == 0 and rpos is None and rc != 0:
            acc.fail("corr_fail", "the loop model completes and nothing follows, but the real exit code is %d (%s)" % (rc, tag), **det); return
        if len(rfreads) > 1 + k and rfreads[1 + k][0] != 4:
            acc.fail("corr_fail", "after the frame the real binary does not go on with a magic number read (%s)" % tag, **det); return
    # 4. the loop reads exactly the frame (LZ4F's hints never exceed it), on a frame we know to be valid
    if frame_len is not None and status == "ret":
        if rest != len(data) - frame_len:
            acc.fail("prop_fail", "LZ4IO_decompressLZ4F read %d bytes beyond the end of the frame (%s): bytes of what follows are lost" %
                     (len(data) - frame_len - rest, tag), **det); return
        if content is not None and not test and mout != sig(content):
            acc.fail("corr_fail", "loop model output differs from the frame content (%s)" % tag, **det); return
    # 5. the concrete loop against the abstract step Io.lz4f_st (one read, one write, frame_decode as decoder)
    aresp = orc.ask("lz4fabs", "1" if test else "0", rl, "-", hx(data[4:]))
    astatus, acode, aout, arest, arerr, areads, awrites = parse_loop(aresp)
    acc.stats["stloop_abs_" + astatus] += 1
    if astatus != status:
        acc.fail("corr_fail", "refinement: concrete loop %s/%d, abstract step %s/%d (%s)" % (status, code, astatus, acode, tag), abstract=aresp[:300], **det); return
    if status == "ret" and (aout != mout or arest != rest or sum(g for w, g, e in reads) != sum(g for w, g, e in areads)
                            or sum(n for n, ok in writes) != sum(n for n, ok in awrites)):
        acc.fail("corr_fail", "refinement: final state of the concrete loop differs from Io.lz4f_st (%s)" % tag, abstract=aresp[:300], **det); return
    if status == "die" and code not in (62, 66, 67, 68, 70):
        acc.fail("corr_fail", "unexpected exit code %d of the loop model (%s)" % (code, tag), **det); return
    acc.keys.add(hashlib.sha1(("%s|%d|%s|%s" % (md5(data), len(data), test, rpos)).encode()).hexdigest())

def half_compressible(rng, n):
    out = bytearray()
    while len(out) < n:
        out += rng.randbytes(200) + b"A" * 200
    return bytes(out[:n])

def case_stloop_f21(acc, st, case, rng):
    """F21: with block checksums the hint of dstage_storeCBlock counts the checksum twice; on a frame without content
    checksum whose last compressed block arrives in two pieces the ST loop freads 4 bytes beyond the frame and drops them"""
    ctx = st["ctx"]
    for bs in ("-B7", "-B4"):
        A = half_compressible(rng, 300000); B = half_compressible(rng, 100000)
        frames = []
        for raw in (A, B):
            rc, fr, err = run_cli(ctx["ST"], [bs, "-BX", "--no-frame-crc", "-c", "-q"], stdin_bytes=raw)
            if rc != 0:
                raise RuntimeError("lz4 failed to compress: " + err[-200:])
            frames.append(fr)
        acc.stats["stloop_f21"] += 1
        rd = st["rd"]; src = rd.write("two.lz4", frames[0] + frames[1]); so = rd.f("two.out")
        rc, _, err = run_cli(ctx["ST"], ["-d", "-c", "-q"], stdin_path=src, stdout_path=so, cwd=rd.path)
        got = open(so, "rb").read() if os.path.exists(so) else b""
        if rc != 0 or got != A + B:
            acc.fail("prop_fail", "F21: single-thread lz4 -d of two concatenated frames (%s -BX --no-frame-crc) exits %d with %d of %d bytes: "
                     "the loop read beyond the end of the first frame (LZ4F hint too large) and dropped the bytes" % (bs, rc, len(got), len(A + B)),
                     stderr=err[-200:], frame1=len(frames[0]), frame2=len(frames[1]))
        stloop_one(acc, st, frames[0] + frames[1], "F21 two frames %s -BX --no-frame-crc" % bs, frame_len=len(frames[0]), content=A)

def case_stloop(acc, st, case, rng):
    ctx = st["ctx"]
    if case.get("big"):
        raw = gens.data(rng, rng.choice(["runs", "random", "period", "zerorich", "barely"]), rng.choice([70000, 140000]))
        cargs = rng.choice([["-1"], ["-9"], ["-BD", "-B4"], ["-BX"], ["--content-size"], ["--no-frame-crc"], ["-B5", "-BD"], ["-B7"],
                            ["-BX", "--no-frame-crc", "-B7"], ["-BX", "--no-frame-crc", "-B5"], ["-BX", "--no-frame-crc", "-B4"], ["-BX", "-B6"]])
        rc, fr, err = run_cli(ctx["ST"], cargs + ["-c", "-q"], stdin_bytes=raw)
        if rc != 0:
            raise RuntimeError("lz4 failed to compress: " + err[-200:])
        content = raw; d = "cli" + "".join(cargs)
    else:
        fr, content, d = iolib.lz4_frame(rng, nblocks=rng.choice([0, 1, 2, 3, 5]), opts={"dictid": False})
    n = len(fr)
    big = bool(case.get("big"))
    acc.stats["stloop_frames"] += 1
    if n <= 160:
        # bounded search on the decoder model: no hint may exceed what is left of a valid frame, whatever two cuts and capacity
        # (this is what F21 violated; the unproved premise of "the ST loop reads exactly the frame")
        hs = st["iolz4f"].ask("hintscan", hx(fr))
        acc.evals += 1
        acc.stats["hintscan_frames"] += 1
        if hs.startswith("ok"):
            acc.stats["hintscan_calls"] += int(hs.split("=")[1])
        else:
            acc.fail("prop_fail", "LZ4F_decompress (model) asks for more than is left of a valid frame: %s (%s)" % (hs, d), frame=fr.hex())
    test = rng.random() < 0.3
    stloop_one(acc, st, fr, "whole frame " + d, frame_len=n, content=content, test=test)
    # something follows the frame: another frame, garbage, a skippable frame, a lone magic number
    fr2, c2, d2 = iolib.lz4_frame(rng, nblocks=1, opts={"bsid": 4, "dictid": False})
    tails = [(fr2, "second frame"), (rng.randbytes(rng.randrange(1, 40)), "garbage"), (le32(iolib.MAGIC_SKIP0 + 1) + le32(3) + b"abc", "skippable"),
             (le32(iolib.MAGIC), "lone magic"), (b"\0", "one byte")]
    for tail, tt in (tails[:2] if big else tails):
        stloop_one(acc, st, fr + tail, "%s + %s" % (d, tt), frame_len=n, content=content, test=test)
    # truncations (every cut for small frames, sampled otherwise) and bit flips
    cuts = list(range(4, n)) if n <= 80 else sorted(set([4, 5, 6, 7, 8, 10, 11, 15, 19, n - 1, n - 4, n - 5, n - 8] + [rng.randrange(4, n) for _ in range(12)]))
    if big:
        cuts = [7, n - 1, n - 5, rng.randrange(4, n), rng.randrange(4, n)]
    for c in cuts:
        if 4 <= c < n:
            stloop_one(acc, st, fr[:c], "%s cut at %d/%d" % (d, c, n), test=test)
    for _ in range(3 if big else (12 if n > 80 else 30)):
        i = rng.randrange(4, n); b = bytearray(fr); b[i] ^= 1 << rng.randrange(8)
        stloop_one(acc, st, bytes(b), "%s bit flip at %d" % (d, i), test=test)
    # read errors inside and after the frame
    for _ in range(2 if big else 6):
        stloop_one(acc, st, fr + fr2, "%s read limit" % d, test=test, rpos=rng.randrange(5, n + 6))

def run_case(st, case):
    rng = random.Random(case["sseed"])
    acc = Acc(case)
    k = case["kind"]
    try:
        if k.startswith("reg_"): case_reg(acc, st, case, rng)
        elif k == "trunc": case_trunc(acc, st, case, rng)
        elif k == "flip": case_flip(acc, st, case, rng)
        elif k == "garbage": case_garbage(acc, st, case, rng)
        elif k == "rm_multi": case_rm_multi(acc, st, case, rng)
        elif k == "fault": case_fault(acc, st, case, rng)
        elif k == "stloop": case_stloop(acc, st, case, rng)
        elif k == "stloop_f21": case_stloop_f21(acc, st, case, rng)
    finally:
        st["rd"].clean()
    return acc.out()

def classify(r):
    return None        # C14 has no known, unrepaired finding (F2, F3, F8, F9, F11, F21 are fixed in /repo; F4 belongs to C15)
