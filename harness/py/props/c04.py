"""C04 - the lz4 CLI round-trips every file under every option set, deterministically.

Theorem side (Properties_C04.v): sparse writer == plain write for every buffer sequence, block-size option
map, MT assembly is a function of (input, options), ST/MT/legacy pipelines produce streams the frame
specification decodes to the content (under the hypotheses on the library compressors, C01/C03).
Tie: (a) model of LZ4IO_fwriteSparse/End == the real static functions (exact fseek/fwrite call trace and
file image), (b) model of LZ4IO_setBlockSize/ID == real, (c) model layout (descriptor, block list) == real
MT/ST/legacy output.  Direct oracle on the real binaries (the property itself): exit codes, exact
restored bytes through both builds' decoders, byte-identical output for every worker count / run,
acceptance by the decoder extracted from the Coq frame specification."""
import os, sys, random, hashlib, collections, shutil, struct, itertools, json
import clilib
from clilib import KB, MB, GB, run, rd, wr, sha
import vlib
from vlib import Oracle, ROOT, BUILD

THEOREMS = None
ORACLES = ["block", "cli"]
CORRESPONDENCE = [
    "Model.Sparse (fwriteSparse*/fwriteSparseEnd) == real static LZ4IO_fwriteSparse/LZ4IO_fwriteSparseEnd: exact fseek/fwrite call trace, returned storedSkips, final file image",
    "Model.CliOpts set_block_size / set_block_size_id == real LZ4IO_setBlockSize / LZ4IO_setBlockSizeID (stored blockSize, blockSizeId, return value)",
    "Model.CompressPipe layout (frame descriptor, decoded size of every block, end mark/checksum) == structure parsed from the real MT / ST / legacy output",
    "Model.CompressPipe instantiated with the FrameC model (CliCompInst.cli_bytes_raw) == the real MT / ST output file, byte for byte, on inputs of at most 6000 bytes none of whose blocks compresses",
]
RULE = ("end-to-end: file contents {zero-rich, text-like, random, mixed, all-zero} x sizes {0, 1, 64KB/256KB/1MB/4MB/8MB +-1, ...} x option rows "
        "(pairwise-covering over level, -B#, -BD/-BI, -BX, --content-size, --no-frame-crc, -l, -D, I/O mode, decode sparse mode, compressor build) "
        "x worker counts {-T1,-T2,-T4,-T8, LZ4_NBWORKERS=3, default, repeat} x {MT,ST} decoder; sparse: generated buffer sequences aimed at word/segment "
        "boundaries, zero tails, 1 GB guard; block sizes 32..8MB powers of two +-1.  non-trivial = non-empty input (e2e), a sequence with at least one "
        "skipped zero word (sparse), an accepted size (setbs); distinct = distinct (content kind, size, seed, option row) / buffer-sequence hash / size")
TRUSTED = ["hand-written models Model/Sparse.v, Model/CliOpts.v, Model/CompressPipe.v, tied by the comparisons listed as correspondence obligations",
           "modelled OS behaviour: a write after seeking beyond end-of-file fills the gap with zero bytes (POSIX); fseek/fwrite succeed (failure paths belong to C14)",
           "C04_*_discharged: the LZ4F operations are Model/FrameC.v (tied to lz4frame.c by C03's per-call byte comparison), the write register is Model/WriteReg.v (C13); "
           "remaining hypotheses are the block compressor contracts blk_contract / legacy_blk_contract (C01/C06/C11/C12)",
           "the conditional theorems C04_st/mt/legacy/cli_roundtrip keep their Section hypotheses; two of those contracts are false as stated of the library (C04_update_contract_refuted, C04_end_contract_refuted) and are replaced by update_contract_af / end_contract_v"]
ASSUMPTIONS = ["64-bit little-endian target, sizeof(size_t)=8 (generated constant)", "each buffer handed to LZ4IO_fwriteSparse is at most 1 GB (callers use <= 8 MB)",
               "Spec stream_decode is run only on inputs whose decoding cost is bounded (the extracted decoder is O(offset) per match); larger inputs are judged by both real decoders and a frame walker"]

def build(tier):
    ctx = {"asan": False, "case_timeout": 900,
           "mt": clilib.build_cli(True), "st": clilib.build_cli(False),
           "plain": clilib.build_declib()}
    try:
        ctx["drv"] = clilib.build_drv()
    except RuntimeError as e:
        raise
    return ctx

# ------------------------------------------------------------------ option rows
LEVELS = [None, "-1", "-3", "-9", "-12", "--fast=3", "--best", "--fast"]
BSIZES = [None, "-B4", "-B5", "-B6", "-B7", "-B32", "-B65537", "-B1000000", "-B4194304"]
DIMS = collections.OrderedDict([
    ("level", LEVELS),
    ("bs", BSIZES),
    ("mode", [None, "-BD", "-BI"]),
    ("bx", [False, True]),
    ("csize", [False, True]),
    ("nocrc", [False, True]),
    ("dict", [None, None, 1000, 65536, 100000]),
    ("io", ["file", "file", "pipe", "redir", "cfile"]),
    ("sparse", ["default", "sparse", "nosparse"]),
    ("comp", ["mt", "st"]),
])
SMALL_SIZES = [0, 1, 2, 11, 12, 13, 100, 4095, 65535, 65536, 65537, 256 * KB - 1, 256 * KB, 256 * KB + 1, MB - 1, MB, MB + 1]
BIG_SIZES = [4 * MB - 1, 4 * MB, 4 * MB + 1, 8 * MB - 1, 8 * MB, 8 * MB + 1, 4 * MB + 65536, 12 * MB + 5, 16 * MB, 16 * MB + 1]
KINDS = ["zerorich", "text", "random", "mixed", "zeros"]

def pairwise_rows(rng, dims, extra=0):
    """greedy pairwise-covering rows over the option dimensions (every pair of values of two different
    dimensions occurs in some row)"""
    names = list(dims)
    vals = {k: sorted(set(map(repr, dims[k]))) for k in names}
    lookup = {k: {repr(v): v for v in dims[k]} for k in names}
    todo = set()
    for a, b in itertools.combinations(names, 2):
        for x in vals[a]:
            for y in vals[b]:
                todo.add((a, x, b, y))
    rows = []
    while todo:
        best, bestc = None, -1
        for _ in range(30):
            cand = {k: rng.choice(vals[k]) for k in names}
            # seed the candidate with one uncovered pair
            a, x, b, y = rng.choice(sorted(todo)) if rng.random() < 0.9 else (names[0], cand[names[0]], names[1], cand[names[1]])
            cand[a] = x; cand[b] = y
            c = sum(1 for (p, q) in itertools.combinations(names, 2) if (p, cand[p], q, cand[q]) in todo)
            if c > bestc:
                best, bestc = cand, c
        for (p, q) in itertools.combinations(names, 2):
            todo.discard((p, best[p], q, best[q]))
        rows.append({k: lookup[k][best[k]] for k in names})
    for _ in range(extra):
        rows.append({k: rng.choice(dims[k]) for k in names})
    return rows

def gen_cases(tier, seed):
    rng = random.Random(seed)
    cases = []
    rows = pairwise_rows(rng, DIMS, extra={"quick": 0, "search": 40, "thorough": 500}[tier])
    for r in rows:
        r["legacy"] = False
    # -l : most frame options are ignored; vary level (fast / HC threshold at 3), I/O mode, build
    for i in range({"quick": 10, "search": 16, "thorough": 40}[tier]):
        r = {k: rng.choice(v) for k, v in DIMS.items()}
        r["legacy"] = True
        r["level"] = LEVELS[i % len(LEVELS)] if i % 3 else rng.choice(["-2", "-3", "-0"])
        rows.append(r)
    # every small size and every content kind appears; sizes cycle through the rows
    sizes = list(SMALL_SIZES)
    rng.shuffle(sizes)
    for i, row in enumerate(rows):
        n = sizes[i % len(sizes)]
        if tier != "quick" and rng.random() < 0.3:
            n = rng.choice([rng.randrange(0, 70000), rng.randrange(0, 2 * MB)])
        cases.append({"kind": "e2e", "content": KINDS[i % len(KINDS)] if n else "zeros", "size": n, "cseed": rng.randrange(1 << 30), "opts": row})
    # inputs around the 4 MB job size (MT) and the 8 MB legacy block: cheap levels, every worker count.
    # The first rows are fixed shapes (each aims at one mechanism), the rest is drawn.
    fixed = [
        (8 * MB + 70001, "text", {"comp": "mt", "mode": "-BD", "legacy": False}),      # 3 jobs, 64 KB prefix chain
        (4 * MB + 1, "mixed", {"comp": "mt", "mode": "-BI", "legacy": False, "bx": True}),
        (8 * MB + 1, "text", {"comp": "mt", "legacy": True}),                         # 2 legacy blocks
        (4 * MB, "zerorich", {"comp": "st", "legacy": False, "bs": "-B7"}),            # exactly one ST block, no shortcut
        (12 * MB + 5, "text", {"comp": "mt", "mode": "-BD", "legacy": False, "dict": 65536, "bs": "-B4"}),
        (4 * MB, "random", {"comp": "mt", "legacy": False, "csize": True}),            # exactly one job, no shortcut
        (4 * MB - 1, "text", {"comp": "mt", "mode": "-BD", "legacy": False}),          # largest single-pass input
        (8 * MB, "zerorich", {"comp": "st", "mode": "-BD", "legacy": False, "bs": "-B6"}),
        (16 * MB + 1, "text", {"comp": "st", "legacy": True}),                        # 3 legacy blocks
        (8 * MB, "text", {"comp": "mt", "mode": "-BD", "legacy": False, "bs": "-B5", "bx": True}),
        # single-pass inputs that need every byte of the shared destination buffer: incompressible, block
        # checksums on, 1..3 bytes below the 4 MB job size (the bound of the one-shot path is exact there)
        (4 * MB - 1, "random", {"comp": "mt", "legacy": False, "bs": "-B4", "bx": True, "dict": None}),
        (4 * MB - 2, "random", {"comp": "st", "legacy": False, "bs": "-B7", "bx": True, "dict": None}),
        (4 * MB - 3, "random", {"comp": "mt", "legacy": False, "bs": "-B7", "bx": True, "mode": "-BD"}),
        # legacy blocks that do not shrink: stored size is compressBound(8 MB) > 8 MB, followed by a short block
        (8 * MB + 4099, "random", {"comp": "mt", "legacy": True}),
        (16 * MB + 1, "random", {"comp": "st", "legacy": True}),
    ]
    nbig = {"quick": 15, "search": 20, "thorough": 120}[tier]
    for i in range(nbig):
        row = {k: rng.choice(v) for k, v in DIMS.items()}
        row["legacy"] = rng.random() < 0.15
        row["level"] = rng.choice([None, "-1", "-3", "--fast=3"] + (["-9", "-12"] if tier == "thorough" else []))
        if i < len(fixed):
            n, kind, force = fixed[i]
            row.update(force)
        else:
            n, kind = rng.choice(BIG_SIZES), rng.choice(["text", "zerorich", "mixed", "random"])
            if i % 2 == 0:
                row["mode"] = "-BD"
        cases.append({"kind": "e2e", "content": kind, "size": n, "cseed": rng.randrange(1 << 30), "opts": row, "big": True})
    # -m : several files through one set of compression resources
    for i in range({"quick": 3, "search": 6, "thorough": 40}[tier]):
        row = {k: rng.choice(v) for k, v in DIMS.items()}
        row["io"] = "file"
        row["legacy"] = rng.random() < 0.2
        row["level"] = rng.choice([None, "-1", "-3", "-9", "--fast=3"])
        szs = [rng.choice(SMALL_SIZES) for _ in range(rng.choice([2, 3, 4]))]
        if i % 3 == 0:
            szs.insert(rng.randrange(len(szs)), rng.choice([4 * MB, 4 * MB + 1, 5 * MB]))
        cases.append({"kind": "multi", "sizes": szs, "content": rng.choice(KINDS), "cseed": rng.randrange(1 << 30), "opts": row})
    ns = {"quick": 12, "search": 30, "thorough": 400}[tier]
    for i in range(ns):
        cases.append({"kind": "sparse", "sseed": rng.randrange(1 << 40), "count": 12})
    for i in range({"quick": 2, "search": 4, "thorough": 30}[tier]):
        cases.append({"kind": "sparse", "sseed": rng.randrange(1 << 40), "count": 3, "big": True})
    cases.append({"kind": "setbs", "sseed": rng.randrange(1 << 40), "count": {"quick": 200, "search": 500, "thorough": 3000}[tier]})
    return cases

# ------------------------------------------------------------------ worker
def worker_init(ctx):
    st = {"ctx": ctx, "exe": {"mt": ctx["mt"], "st": ctx["st"]}, "lib": clilib.PlainLib(ctx["plain"]),
          "oracle": None, "cli": None}
    return st

def oracle(st):
    if st["oracle"] is None:
        st["oracle"] = Oracle(name="block")
    return st["oracle"]

def opt_args(o):
    a = []
    if o.get("level"): a.append(o["level"])
    if o.get("bs"): a.append(o["bs"])
    if o.get("mode"): a.append(o["mode"])
    if o.get("bx"): a.append("-BX")
    if o.get("csize"): a.append("--content-size")
    if o.get("nocrc"): a.append("--no-frame-crc")
    if o.get("legacy"): a.append("-l")
    return a

def compress(exe, o, io, src, dst, data, dictf, extra=(), env=None):
    """one compression run; returns (rc, compressed bytes or None, stderr)"""
    a = [exe, "-f"] + opt_args(o) + list(extra)
    if dictf:
        a += ["-D", dictf]
    if os.path.exists(dst):
        os.remove(dst)
    if io == "file":
        rc, _, err = run(a + [src, dst], env_extra=env)
    elif io == "cfile":
        rc, _, err = run(a + ["-c", src], stdout_file=dst, env_extra=env)
    elif io == "redir":
        rc, _, err = run(a, stdin_file=src, stdout_file=dst, env_extra=env)
    else:  # true pipes on both sides
        rc, out, err = run(a, stdin_bytes=data, pipe_out=True, env_extra=env)
        return rc, out, err
    return rc, (rd(dst) if os.path.exists(dst) else None), err

def decompress(exe, io, sparse, src, dst, F, dictf, test=False):
    a = [exe, "-f"]
    if dictf:
        a += ["-D", dictf]
    if test:
        rc, _, err = run(a + ["-t", src])
        return rc, None, err
    a.append("-d")
    if sparse == "sparse": a.append("--sparse")
    if sparse == "nosparse": a.append("--no-sparse")
    if os.path.exists(dst):
        os.remove(dst)
    if io == "file":
        rc, _, err = run(a + [src, dst])
    elif io == "cfile":
        rc, _, err = run(a + ["-c", src], stdout_file=dst)
    elif io == "redir":
        rc, _, err = run(a, stdin_file=src, stdout_file=dst)
    else:
        if sparse == "sparse":          # forcing sparse mode onto a pipe is refused by fseek: a legitimate error, not part of the property
            a.remove("--sparse")
        rc, out, err = run(a, stdin_bytes=F, pipe_out=True)
        return rc, out, err
    return rc, (rd(dst) if os.path.exists(dst) else None), err

def variants(comp, big):
    """(label, extra args, extra env) : every one must give the same compressed bytes"""
    if comp == "mt":
        v = [("T1", ["-T1"], None), ("T4", ["-T4"], None), ("env3", [], {"LZ4_NBWORKERS": "3"})]
        if big:
            v += [("T2", ["-T2"], None), ("T8", ["-T8"], None), ("T4again", ["-T4"], None), ("auto", [], None), ("T0", ["-T0"], None), ("T200", ["--threads=200"], None)]
        return v
    return [("st", [], None), ("st_again", [], None), ("st_T4", ["-T4"], None)]

def spec_cost_ok(case, n, F):
    """the extracted spec decoder costs O(offset) per match and O(content) per block: bound the work"""
    o = case["opts"]
    blocks = n // 32 if o.get("bs") == "-B32" and o.get("comp") == "st" and not o.get("legacy") else n // 65536
    if blocks * n > 3e8:
        return False
    kind = case.get("content")
    if kind in ("zeros", "random"):
        return n <= 1100000
    if kind == "zerorich":
        return n <= 300000
    return n <= 70000

def fail(res, status, what, detail):
    res["fails"].append({"status": status, "what": what, "detail": detail})

def e2e(st, case, wd, res):
    o = case["opts"]
    n = case["size"]
    data = clilib.content(case["content"], n, case["cseed"])
    src = os.path.join(wd, "in.bin")
    wr(src, data)
    dictf = None
    dictb = b""
    if o.get("dict"):
        dictf = os.path.join(wd, "dict.bin")
        # the dictionary shares vocabulary with text inputs (same seed => same word list prefix)
        dictb = clilib.content("text" if case["content"] != "random" else "random", o["dict"], case["cseed"])
        wr(dictf, dictb)
    comp = o["comp"]
    exe = st["exe"][comp]
    det = {"opts": o, "size": n, "content": case["content"], "cseed": case["cseed"]}
    ref = None
    for label, extra, env in variants(comp, case.get("big") or n >= 4 * MB):
        rc, F, err = compress(exe, o, o["io"], src, os.path.join(wd, "out.lz4"), data, dictf, extra, env)
        res["evals"] += 1
        res["stats"]["compress_runs"] += 1
        if rc != 0 or F is None:
            fail(res, "prop_fail", "lz4 (%s build, %s) exits %s on compression" % (comp, label, rc), dict(det, variant=label, stderr=err[-400:]))
            return
        if ref is None:
            ref = F
        elif F != ref:
            fail(res, "prop_fail", "compressed bytes differ between %s and %s (%s build): %d vs %d bytes, first difference at %d" %
                 (variants(comp, True)[0][0], label, comp, len(ref), len(F), next((i for i in range(min(len(ref), len(F))) if ref[i] != F[i]), min(len(ref), len(F)))),
                 dict(det, variant=label))
            return
    F = ref
    o2 = alias_of(st, o, random.Random(case["cseed"]))
    if o2 is not None:
        rc, F2, err = compress(exe, o2, o["io"], src, os.path.join(wd, "out.lz4"), data, dictf, variants(comp, False)[0][1], None)
        res["evals"] += 1
        res["stats"]["alias_runs"] += 1
        if rc != 0 or F2 != F:
            fail(res, "corr_fail", "option map: model says [%s] and [%s] are the same options, the real outputs differ (rc=%s)" %
                 (" ".join(opt_args(o)), " ".join(opt_args(o2)), rc), det)
            return
    cf = os.path.join(wd, "c.lz4")
    wr(cf, F)
    # decode with both builds
    for dname in ("mt", "st"):
        dexe = st["exe"][dname]
        io = o["io"] if dname == comp else {"file": "pipe", "pipe": "file", "redir": "cfile", "cfile": "redir"}[o["io"]]
        sparse = o["sparse"] if dname == comp else {"default": "sparse", "sparse": "nosparse", "nosparse": "default"}[o["sparse"]]
        rc, back, err = decompress(dexe, io, sparse, cf, os.path.join(wd, "back.bin"), F, dictf)
        res["evals"] += 1
        res["stats"]["decode_" + io + "_" + sparse] += 1
        if rc != 0:
            fail(res, "prop_fail", "lz4 -d (%s build, io=%s, %s) exits %s on the output of lz4 (%s build)" % (dname, io, sparse, rc, comp), dict(det, stderr=err[-400:]))
            return
        if back != data:
            bl = -1 if back is None else len(back)
            fail(res, "prop_fail", "lz4 -d (%s build, io=%s, sparse=%s) restored %d bytes, expected %d, %s" %
                 (dname, io, sparse, bl, n, "content differs" if bl == n else "length differs"), det)
            return
        rc, _, err = decompress(dexe, "file", "default", cf, None, F, dictf, test=True)
        res["evals"] += 1
        if rc != 0:
            fail(res, "prop_fail", "lz4 -t (%s build) exits %s on the output of lz4 (%s build)" % (dname, rc, comp), dict(det, stderr=err[-400:]))
            return
    # the decoder extracted from the Coq frame specification (strict end-of-block conditions)
    if spec_cost_ok(case, n, F):
        r = oracle(st).ask("stream", "1", vlib.hx(dictb[-65536:]), vlib.hx(F))
        res["evals"] += 1
        res["stats"]["spec_stream_decode"] += 1
        exp = "ok %d %s" % (n, hashlib.md5(data).hexdigest())
        if r != exp:
            fail(res, "prop_fail", "Spec.FrameSpec.stream_decode (strict blocks) on the CLI output: %s, expected %s" % (r, exp), det)
            return
    layout_check(st, case, F, data, dictb, res, det)
    if n > 0:
        res["keys"].add(sha(json.dumps([case["content"], n, case["cseed"], o], sort_keys=True).encode()))
    res["stats"]["size_" + ("0" if n == 0 else "<64K" if n < 65536 else "<4M" if n < 4 * MB else ">=4M")] += 1
    for k in ("level", "bs", "mode", "io", "comp"):
        res["stats"]["%s=%s" % (k, o.get(k))] += 1
    for k in ("bx", "csize", "nocrc", "legacy"):
        if o.get(k):
            res["stats"][k] += 1
    if o.get("dict"):
        res["stats"]["dict"] += 1

def rle(blocks):
    out = []
    for b in blocks:
        if out and out[-1][0] == b:
            out[-1][1] += 1
        else:
            out.append([b, 1])
    return ",".join("%dx%d" % (a, b) for a, b in out) if out else "-"

def layout_check(st, case, F, data, dictb, res, det):
    """(c) the model's decomposition predicts the structure of the real output"""
    o = case["opts"]
    n = len(data)
    fsz = 0 if o["io"] == "pipe" else n
    args = opt_args(o) + (["-D"] if o.get("dict") else [])
    want = cli_oracle(st).ask("layout", o["comp"], str(fsz), str(n), *args)
    res["evals"] += 1
    if o.get("legacy"):
        d = clilib.parse_legacy(st["lib"], F)
        got = None if d is None or d["end"] != len(F) else "legacy blocks=" + rle(d["blocks"])
    else:
        d = clilib.parse_frame(st["lib"], F, data, dictb)
        got = None
        if d is not None and d["end"] == len(F):
            if not d["crc_ok"]:
                fail(res, "prop_fail", "a checksum of the produced frame does not verify (%s)" % d["crc_what"], det); return
            got = "indep=%d bcrc=%d csize=%s ccrc=%d bsid=%d blocks=%s" % (d["indep"], d["bcrc"], "-" if d["csize"] is None else d["csize"], d["ccrc"], d["bsid"], rle(d["blocks"]))
    if got is None:
        fail(res, "prop_fail", "the output of lz4 is not a single well-formed frame", det); return
    if got != want:
        fail(res, "corr_fail", "layout of the real %s output differs from the model: code [%s] model [%s]" % (o["comp"], got[:300], want[:300]), det); return
    bytes_check(st, case, F, data, res, det)

def all_blocks_raw(F):
    """True iff F is one LZ4 frame whose data blocks all carry the uncompressed flag (walked from the format, no library)"""
    if len(F) < 11 or F[:4] != b"\x04\x22\x4d\x18":
        return False
    flg = F[4]
    pos = 4 + 2 + (8 if flg & 8 else 0) + (4 if flg & 1 else 0) + 1
    bcrc = 4 if flg & 16 else 0
    while pos + 4 <= len(F):
        w = struct.unpack_from("<I", F, pos)[0]
        pos += 4
        if w == 0:
            return True
        if not (w & 0x80000000):
            return False
        pos += (w & 0x7fffffff) + bcrc
    return False

def bytes_check(st, case, F, data, res, det):
    """(d) byte-level tie of the compression pipelines: when no block of the real output is compressed (tiny or
    incompressible input), the CompressPipe model instantiated with the FrameC model of lz4frame.c
    (Proofs/CliCompInst.v, cli_bytes_raw) predicts the output file byte for byte"""
    o = case["opts"]
    n = len(data)
    if o.get("legacy") or n > 6000 or not all_blocks_raw(F):
        return
    fsz = 0 if o["io"] == "pipe" else n
    args = opt_args(o) + (["-D"] if o.get("dict") else [])
    want = cli_oracle(st).ask("bytes", o["comp"], str(fsz), vlib.hx(data) if n else "-", *args)
    res["evals"] += 1
    res["stats"]["bytes_tie"] += 1
    exp = "%d %s" % (len(F), hashlib.md5(F).hexdigest())
    if not want.startswith(exp):
        fail(res, "corr_fail", "bytes of the real %s output differ from the model (all blocks stored raw): code [%s %s] model [%s]" %
             (o["comp"], exp, vlib.hx(F)[:200], want[:200]), det)
    res["stats"]["layout_" + ("legacy" if o.get("legacy") else "shortcut" if n < (4 * MB if o["comp"] == "mt" else 1) else "multi")] += 1

ALIASES = {"level": {"--best": "-12", "--fast": "--fast=1", None: "-1", "-12": "--best", "-1": None},
           "bs": {"-B4194304": "-B7", None: "-B7", "-B7": "-B4194304"},
           "mode": {"-BI": None, None: "-BI"}}
def alias_of(st, o, rng):
    """another spelling of the same options according to the model's option map (same parsed state)"""
    dims = [k for k in ALIASES if o.get(k) in ALIASES[k]]
    if not dims:
        return None
    k = rng.choice(dims)
    o2 = dict(o); o2[k] = ALIASES[k][o.get(k)]
    a1 = cli_oracle(st).ask("state", *(opt_args(o) or ["-BI"]))
    a2 = cli_oracle(st).ask("state", *(opt_args(o2) or ["-BI"]))
    return o2 if a1 == a2 and a1 != "badusage" else None

def multi(st, case, wd, res):
    o = case["opts"]
    comp = o["comp"]
    exe = st["exe"][comp]
    det = {"opts": o, "sizes": case["sizes"], "content": case["content"], "cseed": case["cseed"]}
    dictf = None
    if o.get("dict"):
        dictf = os.path.join(wd, "dict.bin")
        wr(dictf, clilib.content("text", o["dict"], case["cseed"]))
    d1 = os.path.join(wd, "m"); os.makedirs(d1)
    names, datas = [], []
    for i, n in enumerate(case["sizes"]):
        b = clilib.content(case["content"] if n else "zeros", n, case["cseed"] + i)
        p = os.path.join(d1, "f%d.bin" % i)
        wr(p, b); names.append(p); datas.append(b)
    a = [exe, "-f"] + opt_args(o) + (["-D", dictf] if dictf else [])
    outs = None
    for label, extra, env in variants(comp, False)[:2]:
        for p in names:
            if os.path.exists(p + ".lz4"):
                os.remove(p + ".lz4")
        rc, _, err = run(a + list(extra) + ["-m"] + names, env_extra=env)
        res["evals"] += 1
        if rc != 0 or not all(os.path.exists(p + ".lz4") for p in names):
            fail(res, "prop_fail", "lz4 -m (%s build, %s) exits %s / misses an output" % (comp, label, rc), dict(det, stderr=err[-400:]))
            return
        cur = [rd(p + ".lz4") for p in names]
        if outs is None:
            outs = cur
        elif outs != cur:
            fail(res, "prop_fail", "lz4 -m: compressed bytes differ between worker counts (%s build)" % comp, det)
            return
    # each output must equal the one-file compression of the same input (resources are shared across files in -m)
    for p, b, F in zip(names, datas, outs):
        rc, F1, err = compress(exe, o, "file", p, os.path.join(wd, "single.lz4"), b, dictf, ["-T1"] if comp == "mt" else [])
        res["evals"] += 1
        if rc != 0 or F1 != F:
            fail(res, "prop_fail", "lz4 -m output of %s (%d bytes in) differs from compressing that file alone (rc=%s)" % (os.path.basename(p), len(b), rc), det)
            return
    # decode all of them with -m by the other build, in a fresh directory
    other = "st" if comp == "mt" else "mt"
    for dname in (comp, other):
        d2 = os.path.join(wd, "d_" + dname); os.makedirs(d2)
        cn = []
        for p, F in zip(names, outs):
            q = os.path.join(d2, os.path.basename(p) + ".lz4")
            wr(q, F); cn.append(q)
        rc, _, err = run([st["exe"][dname], "-d", "-f", "-m"] + (["-D", dictf] if dictf else []) + cn)
        res["evals"] += 1
        if rc != 0:
            fail(res, "prop_fail", "lz4 -d -m (%s build) exits %s" % (dname, rc), dict(det, stderr=err[-400:]))
            return
        for q, b in zip(cn, datas):
            if not os.path.exists(q[:-4]) or rd(q[:-4]) != b:
                fail(res, "prop_fail", "lz4 -d -m (%s build) did not restore %s" % (dname, os.path.basename(q)), det)
                return
        rc, _, err = run([st["exe"][dname], "-t", "-m"] + (["-D", dictf] if dictf else []) + cn)
        res["evals"] += 1
        if rc != 0:
            fail(res, "prop_fail", "lz4 -t -m (%s build) exits %s" % (dname, rc), dict(det, stderr=err[-400:]))
            return
    res["keys"].add(sha(json.dumps([case["content"], case["sizes"], case["cseed"], o], sort_keys=True).encode()))
    res["stats"]["multi_files"] += len(names)


# ------------------------------------------------------------------ (a) sparse writer: model == real static functions
SP_SIZES = [0, 1, 2, 3, 5, 7, 8, 9, 15, 16, 17, 23, 24, 64, 4096, 32760, 32767, 32768, 32769, 32775, 32776, 32777, 65535, 65536, 65537, 65543, 98304, 98311, 131072]

def sp_buffer(rng, big_ok=True):
    """one decoded block as handed to LZ4IO_fwriteSparse, aimed at the word (8) / segment (32 KB) / remainder splits"""
    n = rng.choice(SP_SIZES + [rng.randrange(0, 70000), rng.randrange(0, 300)])
    if big_ok and rng.random() < 0.04:
        n = rng.choice([262144, 262147, 1 << 20, (1 << 20) + 5])
    shape = rng.choice(["zero", "zero", "one", "one", "fewnz", "runs", "dense", "ztail", "zhead", "wordedge"])
    b = bytearray(n)
    if n == 0:
        return bytes(b), shape
    if shape == "one":
        cands = [0, n - 1, n // 8 * 8 - 1, n // 8 * 8, n // 8 * 8 + 1, 32767, 32768, 32769, 32760, 32775, 65535, 65536, rng.randrange(n)]
        k = rng.choice([c for c in cands if 0 <= c < n])
        b[k] = rng.randrange(1, 256)
    elif shape == "fewnz":
        for _ in range(rng.choice([2, 3, 5])):
            b[rng.randrange(n)] = rng.randrange(1, 256)
    elif shape == "runs":
        i = 0
        while i < n:
            z = rng.choice([1, 7, 8, 9, 16, 100, 4096, 32768, 32776, 40000])
            i += z
            d = rng.choice([1, 1, 7, 8, 9, 100])
            for j in range(i, min(n, i + d)):
                b[j] = rng.randrange(1, 256)
            i += d
    elif shape == "dense":
        b = bytearray(rng.randbytes(n))
        if rng.random() < 0.5:
            for _ in range(3):
                k = rng.randrange(n); l = rng.choice([8, 16, 24, 4096])
                b[k:k + l] = bytes(min(l, n - k))
    elif shape == "ztail":
        k = rng.choice([1, 7, 8, 9, 15, 16, n // 2, n % 8 or 8, n % 8 + 8])
        k = min(k, n)
        b = bytearray(rng.randbytes(n - k)) + bytearray(k)
    elif shape == "zhead":
        k = min(n, rng.choice([1, 7, 8, 9, 16, 32768, 32769, n - 1, n // 8 * 8]))
        b = bytearray(k) + bytearray(x | 1 for x in rng.randbytes(n - k))
    elif shape == "wordedge":
        # zero run ending exactly at a word / segment boundary
        e = rng.choice([8, 16, 32768, 65536, n // 8 * 8]); e = min(e, n)
        b = bytearray(e) + bytearray(x | 1 for x in rng.randbytes(n - e))
    return bytes(b), shape

def zero_check(fd, a, b):
    """bytes [a,b) of the file are zero; holes are skipped with SEEK_DATA/SEEK_HOLE when the file system supports it"""
    pos = a
    while pos < b:
        try:
            d = os.lseek(fd, pos, os.SEEK_DATA)
        except OSError:
            return True        # ENXIO: no data beyond pos
        if d >= b:
            return True
        try:
            h = os.lseek(fd, d, os.SEEK_HOLE)
        except OSError:
            h = b
        e = min(h, b)
        while d < e:
            chunk = os.pread(fd, min(e - d, 1 << 24), d)
            if not chunk:
                return False
            if chunk.count(0) != len(chunk):
                return False
            d += len(chunk)
        pos = e
    return True

def parse_trace(t):
    """-> list of ("S", n) | ("W", bytes) | ("R", n)"""
    out, p = [], 0
    while p < len(t):
        k = chr(t[p]); p += 1
        v = struct.unpack_from("<Q", t, p)[0]; p += 8
        if k == "W":
            out.append(("W", t[p:p + v])); p += v
        elif k in "SR":
            out.append((k, v))
        else:
            out.append(("?", v))
    return out

def sparse_one(st, rng, wd, res, big=False):
    cli = cli_oracle(st)
    support = rng.choice([1, 1, 1, 2, 2, 0])
    use_stdout = 1 if rng.random() < 0.2 else 0
    sparse_mode = (support - use_stdout) > 0
    ov0 = 0
    if sparse_mode:
        ov0 = rng.choice([0, 0, 0, 1, 7, 8, 100000])
        if big:
            ov0 = rng.choice([GB - 40000, GB - 8, GB, GB + 1, GB + 5, 2 * GB - 70000, 2 * GB])
    frames = []
    nframes = rng.choice([1, 1, 1, 2, 3])
    for _ in range(nframes):
        bufs = []
        for _ in range(rng.choice([1, 2, 3, 4, 6])):
            b, shape = sp_buffer(rng, big_ok=not big)
            if big and rng.random() < 0.6:
                b, shape = bytes(rng.choice([65536, 32768, 40001])), "zero"
            bufs.append(b); res["stats"]["sp_" + shape] += 1
        if rng.random() < 0.35:
            bufs.append(bytes(rng.choice([1, 5, 8, 13, 32768, 32771])))          # all-zero last buffer
        frames.append(bufs)
    # script for the real code
    script = bytearray()
    first = True
    for fi, bufs in enumerate(frames):
        if fi > 0:
            script += struct.pack("<I", 0xFFFFFFFF)
        for b in bufs:
            script += struct.pack("<IBI", len(b), 1 if (first and ov0) else 0, ov0 & 0xFFFFFFFF) + b
            first = False
    sf, tf, of = os.path.join(wd, "script"), os.path.join(wd, "trace"), os.path.join(wd, "out")
    wr(sf, bytes(script))
    rc, _, err = run([st["ctx"]["drv"], "sparse", of, sf, tf, str(support), str(use_stdout)])
    det = {"support": support, "stdout": use_stdout, "ov0": ov0, "frames": [[b.hex() if len(b) <= 64 else "len=%d sha=%s" % (len(b), sha(b)) for b in bufs] for bufs in frames]}
    if rc != 0:
        fail(res, "prop_fail", "LZ4IO_fwriteSparse driver exits %d: %s" % (rc, err[-200:]), det)
        return
    real = parse_trace(rd(tf))
    # 1. the property on the real code: file image == plain concatenation
    total = b"".join(b for bufs in frames for b in bufs)
    head = ov0 if sparse_mode else 0
    size = os.path.getsize(of)
    fd = os.open(of, os.O_RDONLY)
    try:
        ok = size == head + len(total) and os.pread(fd, len(total), head) == total and zero_check(fd, 0, head)
        if not ok:
            fail(res, "prop_fail", "LZ4IO_fwriteSparse*/fwriteSparseEnd left a file image different from the plain concatenation: size %d, expected %d" %
                 (size, head + len(total)), det)
            return
        # 2. model, call by call: same fseek/fwrite trace and returned storedSkips
        model = []
        skips = 0
        first = True
        nz_skipped = False
        for fi, bufs in enumerate(frames):
            if fi > 0:
                r = cli.ask("fwend", str(skips))
                model += ops_of(r); skips = 0
            for b in bufs:
                if first and ov0:
                    skips = ov0
                first = False
                r = cli.ask("fws", str(use_stdout), str(support), str(skips), vlib.hx(b))
                res["evals"] += 1
                if r == "fuel":
                    fail(res, "corr_fail", "model ran out of fuel", det); return
                s2, ops = r.split(" ")
                skips = int(s2)
                if skips > 0:
                    nz_skipped = True
                model += ops_of(ops) + [("R", skips)]
        model += ops_of(cli.ask("fwend", str(skips)))
        realc = [(k, v if k != "W" else (len(v), hashlib.md5(v).hexdigest())) for k, v in real]
        if realc != model:
            i = next((i for i in range(min(len(realc), len(model))) if realc[i] != model[i]), min(len(realc), len(model)))
            fail(res, "corr_fail", "sparse writer: call trace differs at call %d: code %s, model %s" %
                 (i, realc[i] if i < len(realc) else "end", model[i] if i < len(model) else "end"), det)
            return
        # 3. POSIX interpretation of the trace (seek beyond EOF then write = zero gap) gives the real image
        pos, end, okm = 0, 0, True
        for k, v in real:
            if k == "S":
                pos += v
            elif k == "W" and len(v):
                if os.pread(fd, len(v), pos) != v or not zero_check(fd, end, pos):
                    okm = False
                pos += len(v); end = max(end, pos)
        if not okm or end != size:
            fail(res, "corr_fail", "file model (seek beyond EOF then write = zero gap) disagrees with the real file image", det)
            return
    finally:
        os.close(fd)
        os.remove(of)
    res["stats"]["sp_seq"] += 1
    res["stats"]["sp_mode_%d_%d" % (support, use_stdout)] += 1
    if big:
        res["stats"]["sp_1GB_guard"] += sum(1 for k, v in real if k == "S" and v == GB)
    if nz_skipped:
        res["keys"].add(sha(bytes(script) + bytes([support, use_stdout])))

def ops_of(s):
    if s == "-":
        return []
    out = []
    for t in s.split(","):
        if t[0] == "S":
            out.append(("S", int(t[1:])))
        else:
            n, h = t[1:].split(":")
            out.append(("W", (int(n), h)))
    return out

def cli_oracle(st):
    if st["cli"] is None:
        st["cli"] = Oracle(name="cli")
    return st["cli"]

def sparse_case(st, case, wd, res):
    rng = random.Random(case["sseed"])
    for i in range(case["count"]):
        sparse_one(st, rng, wd, res, big=case.get("big", False))

def setbs_case(st, case, wd, res):
    """(b) LZ4IO_setBlockSize / LZ4IO_setBlockSizeID: real static-table code vs model, plus the property itself"""
    rng = random.Random(case["sseed"])
    cli = cli_oracle(st)
    sizes = set(range(0, 70)) | {1 << 64 - 1, (1 << 64) - 1, (1 << 32) - 1, 1 << 32, (1 << 32) + 1}
    for k in range(5, 25):
        sizes |= {(1 << k) - 1, 1 << k, (1 << k) + 1}
    for _ in range(case["count"]):
        sizes.add(rng.choice([rng.randrange(32, 70000), rng.randrange(32, 5 * MB), rng.randrange(0, 1 << 40)]))
    sizes = sorted(x for x in sizes if 0 <= x < (1 << 64))
    rc, out, err = run([st["ctx"]["drv"], "setbs"] + [str(x) for x in sizes], pipe_out=True)
    lines = out.decode().strip().split("\n") if out else []
    if rc != 0 or len(lines) != len(sizes):
        fail(res, "harness_error", "cli_drv setbs failed rc=%s" % rc, {"stderr": err[-300:]}); return
    table = {4: 64 * KB, 5: 256 * KB, 6: MB, 7: 4 * MB}
    for x, ln in zip(sizes, lines):
        n, ret, bs, bid = [int(t) for t in ln.split()]
        want = min(max(x, 32), 4 * MB)
        if not (ret == bs == want and 4 <= bid <= 7 and table[bid] >= bs and (bid == 4 or table[bid - 1] < bs)):
            fail(res, "prop_fail", "LZ4IO_setBlockSize(%d) stores blockSize %d with block size ID %d (not the smallest standard size holding it)" % (x, bs, bid), {"size": x}); return
        m = cli.ask("setbs", str(x))
        res["evals"] += 1
        if m != "%d %d %d" % (ret, bs, bid):
            fail(res, "corr_fail", "LZ4IO_setBlockSize(%d): code (ret, blockSize, id) = (%d, %d, %d), model %s" % (x, ret, bs, bid, m), {"size": x}); return
        res["keys"].add("bs%d" % x)
        res["stats"]["setbs_id%d" % bid] += 1
    ids = list(range(0, 12)) + [255, 1 << 31]
    rc, out, err = run([st["ctx"]["drv"], "setbsid"] + [str(x) for x in ids], pipe_out=True)
    for x, ln in zip(ids, out.decode().strip().split("\n")):
        _, ret, bs, bid = [int(t) for t in ln.split()]
        m = cli.ask("setbsid", str(x))
        res["evals"] += 1
        if m != "%d %d %d" % (ret, bs, bid):
            fail(res, "corr_fail", "LZ4IO_setBlockSizeID(%d): code (%d, %d, %d), model %s" % (x, ret, bs, bid, m), {"id": x}); return
        if 4 <= x <= 7 and not (ret == bs == table[x] and bid == x):
            fail(res, "prop_fail", "-B%d does not select the documented block size" % x, {"id": x}); return

def run_case(st, case):
    res = {"evals": 0, "fails": [], "keys": set(), "stats": collections.Counter()}
    kind = case["kind"]
    wd = os.path.join(BUILD, "run", "c04_%d_%s" % (os.getpid(), sha(json.dumps(case, sort_keys=True).encode())))
    shutil.rmtree(wd, ignore_errors=True)
    os.makedirs(wd)
    try:
        if kind == "e2e":
            e2e(st, case, wd, res)
        elif kind == "multi":
            multi(st, case, wd, res)
        elif kind == "sparse":
            sparse_case(st, case, wd, res)
        elif kind == "setbs":
            setbs_case(st, case, wd, res)
    finally:
        shutil.rmtree(wd, ignore_errors=True)
    out = []
    for f in res["fails"][:3]:
        f["nontrivial"] = True; f["kind"] = kind
        out.append(f)
    out.append({"status": "ok", "evals": res["evals"], "keys": sorted(res["keys"])[:2000], "kind": kind, "stats": dict(res["stats"]), "nontrivial": False})
    return out
