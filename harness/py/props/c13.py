"""C13 - multi-threaded CLI pipelines are correct under every thread schedule.
Theorem side: Properties_C13.v.
Tie: (wr) LZ4IO_checkWriteOrder model == the real static function, state by state;
     (e2e) real MT binary vs sequential output for every worker count;
     (sched) model schedules replayed on the real thread pool through the scheduler shim."""
import random, hashlib, collections, os
import mtlib
from vlib import Oracle

THEOREMS = ["C13_write_order", "C13_no_reuse_parametric", "C13_ring_window", "C13_no_reuse_legacy", "C13_no_reuse_lz4f",
            "C13_generated_layer_consistent", "C13_reuse_if_NB_is_2_refuted", "C13_reuse_if_PB_is_2_refuted",
            "C13_reuse_if_writer_queue_is_2_refuted", "C13_depth1_deadlock", "C13_inorder_once", "C13_sequential_equiv",
            "C13_sequential_equiv_legacy", "C13_sequential_equiv_lz4f", "C13_tpool_compress_never_full",
            "C13_waiters_homogeneous", "C13_never_full_legacy", "C13_never_full_lz4f",
            "C13_no_deadlock", "C13_stuck_is_complete", "C13_no_deadlock_legacy", "C13_no_deadlock_lz4f",
            "C13_terminates", "C13_terminates_legacy", "C13_terminates_lz4f",
            "C13_no_deadlock_dec", "C13_stuck_is_final_dec", "C13_terminates_dec",
            "C13_no_deadlock_dec_legacy", "C13_no_deadlock_dec_lz4f", "C13_terminates_dec_legacy", "C13_terminates_dec_lz4f"]
ORACLES = ["mt"]
CORRESPONDENCE = [
    "WriteReg.arrive model == LZ4IO_checkWriteOrder (expectedRank, capacity, totalCSize, bytes written by each call, every slot of the descriptor array)",
    "Pipeline.pstep model accepts every schedule observed on the real thread pool + lz4io pipelines under the scheduler shim, with identical step-indexed event traces (submit/start/end of every job with kind, index and buffer slots; write of rank r)",
    "schedules generated from the model (adversarial strategies) are followed by the real code under the scheduler shim, with identical event traces and the sequential output",
    "TPool_create arguments and ring sizes of the real run == generated constants (Gen/TPoolSites.v, Gen/Consts.v)",
]
RULE = ("wr: arrival orders of n blocks (n in 1..700: identity, reversed, rank 0 last, random, bounded-window shuffle, pairs, "
        "plus malformed sequences with duplicate/missing ranks for the correspondence only); non-trivial = at least one block stored out of order. "
        "e2e: files spanning 2..12 jobs (4 MB chunks / 8 MB legacy blocks, exact multiples and partial last chunk; random, text, mixed, zero payloads; "
        "-BD, -B4..7, --content-size, -BX, --no-frame-crc) x -T1..-T8 on the real MT binary vs -T1 / the ST build, decoding by both builds with and without sparse writes. "
        "shim: the real CLI with threadpool.c driven by the cooperative scheduler (uniform, sticky, slow writer, slow/fast main, starved worker, "
        "wake-main / wake-not-main policies) and free-running with seeded yield/usleep perturbation; deadlock, ownership violation, wrong bytes or non-termination fail. "
        "sched: per pipeline (LZ4F/legacy x compress/decode, N in 1..8, ring wrap-around sizes) one seeded real schedule checked against the model and three "
        "model-generated adversarial schedules replayed on the real code; non-trivial = every case (each has >= 60 scheduling steps); distinct = distinct schedules. "
        "explore: every interleaving and wake-up choice of the model at the generated constants for small N / job counts (supplement; a witness is replayed on the real code). "
        "thorough adds a ThreadSanitizer build of the real binary.")
TRUSTED = ["hand-written models Model/WriteReg.v, Model/TPool.v, Model/Pipeline.v tied by the comparisons above",
           "scheduler shim harness/c/sched_shim.c (cooperative scheduling of the real pthreads: one runner at a time, step = up to the next mutex release / blocking wait) "
           "and event hooks harness/c/mt_hooks.c (lz4io.c included unchanged, TPool_create/TPool_submitJob/fread/fwrite observed)",
           "tools/gen_tpool_sites.py (TPool_create arguments and ring array sizes from clang's JSON AST; fails loudly on an unknown call site)"]
ASSUMPTIONS = ["mutex-protected sections are atomic; code between synchronisation operations only touches thread-local data and the buffers it owns "
               "(so interleavings finer than the model's steps are equivalent to one of them); races on other C variables and the hardware memory model are outside the model (TSan run is the only evidence there)",
               "no spurious condition-variable wake-ups (they only re-test a predicate)",
               "pthread variant of threadpool.c (the Windows completion-port variant is not modelled); data are abstract in the pipeline model (block k = [k])",
               "deadlock freedom (every reachable non-final state has an enabled pick) and termination (explicit bound on the length of every schedule: the initial value of "
               "(N+4)*remaining_work + awake_threads, which decreases on every step) are PROVED in the model for the compression pipelines (all N >= 1, chunk counts, tPool depth >= 2, wPool depth >= 1) "
               "and for the two decode pipelines (1 decoder + 1 writer, all block counts, depths >= 1, NB >= TQ+2, NB >= WQ+2 legacy / PB >= WQ+2 LZ4F; the ring hypotheses come from the invariant the proof reuses); "
               "these are statements about the model's blocking structure (mutex sections atomic, no spurious wake-ups, fair progress of the picked thread) - on the real code they are supported by the shim/e2e runs only; "
               "C13_depth1_deadlock is the negative instance at compression tPool depth 1",
               "decode pipelines: single frame per run in the model; concatenated frames are covered by the end-to-end runs only"]

def build(tier):
    ctx = {"asan": False, "case_timeout": 900, "wr_drv": mtlib.build_wr_drv(),
           "mt": mtlib.build_cli(True), "st": mtlib.build_cli(False), "shim": mtlib.build_shim()}
    if tier == "thorough":
        ctx["tsan"] = mtlib.build_cli(True, tsan=True)
    return ctx

# ---------------------------------------------------------------- cases
def gen_cases(tier, seed):
    rng = random.Random(seed)
    n_wr = {"quick": 40, "search": 150, "thorough": 300}[tier]
    cases = []
    shapes = ["identity", "reversed", "zero_last", "random", "window", "window", "malformed", "pairs"]
    for i in range(n_wr):
        cases.append({"kind": "wr", "seed": rng.randrange(1 << 48), "shape": shapes[i % len(shapes)],
                      "n": rng.choice([1, 2, 3, 5, 16, 17, 18, 33, 40, 100]) if i % 10 else rng.choice([300, 520, 700])})
    MB = 1 << 20
    # ---- end-to-end on the real MT binary: files spanning many jobs, every worker count
    n_e2e = {"quick": 6, "search": 10, "thorough": 24}[tier]
    lz4f_sizes = [4 * MB, 4 * MB + 1, 8 * MB, 13 * MB + 4097, 26 * MB + 5, 41 * MB]       # chunk = 4 MB
    leg_sizes = [8 * MB, 8 * MB + 1, 24 * MB, 50 * MB + 3, 57 * MB]                         # block = 8 MB, ring = 4
    optsets = [[], ["-BD"], ["-B4"], ["--content-size", "-BX"], ["--no-frame-crc", "-B5", "-BD"], ["-1", "-B7"]]
    for i in range(n_e2e):
        legacy = (i % 3 == 2)
        cases.append({"kind": "e2e", "seed": rng.randrange(1 << 48), "fmt": "legacy" if legacy else "lz4f",
                      "size": (leg_sizes if legacy else lz4f_sizes)[(i // 3 + i) % (5 if legacy else 6)] if tier != "quick"
                              else ([50 * MB + 3, 24 * MB][(i // 3) % 2] if legacy else [26 * MB + 5, 41 * MB, 8 * MB, 4 * MB + 1][(i - i // 3) % 4]),
                      "payload": ["mixed", "random", "text", "mixed"][i % 4],
                      "opts": [] if legacy else optsets[i % len(optsets)],
                      "workers": [1, 2, 3, 4, 5, 6, 7, 8] if tier != "quick" else [1, 2, 3, 5, 8]})
    # ---- the real code under the controlled scheduler: seeded schedules and adversarial strategies
    n_shim = {"quick": 16, "search": 40, "thorough": 80}[tier]
    strategies = ["uniform", "sticky", "slow_writer", "slow_main", "fast_main", "wake_main", "wake_notmain", "one_worker_starved"]
    for i in range(n_shim):
        legacy = (i % 4 == 3)
        cases.append({"kind": "shim", "seed": rng.randrange(1 << 48), "fmt": "legacy" if legacy else "lz4f",
                      "size": (26 * MB + 11 if i % 8 == 3 else 50 * MB + 3) if legacy else [13 * MB + 7, 21 * MB, 26 * MB + 5][i % 3],
                      "payload": ["random", "mixed"][i % 2], "strategy": strategies[i % len(strategies)],
                      "N": [1, 2, 3, 4, 8][(i // 2) % 5], "mode": "free" if i % 5 == 4 else "coop",
                      # linked blocks: the reader chain hands the last 64 KB of a chunk to the next job
                      "opts": [] if legacy or i % 2 == 0 else [["-BD"], ["-BD", "-B4"], ["-BD", "-BX"]][(i // 2) % 3]})
    # ---- model <-> real code under the scheduler shim: schedules generated from the model replayed on the real
    #      thread pool (event traces must be equal), and seeded real schedules checked for acceptance by the model
    n_sched = {"quick": 12, "search": 30, "thorough": 60}[tier]
    gen_strats = ["uniform", "slow_writer", "descending", "wake_main", "fast_main", "slow_main", "sticky", "roundrobin",
                  "wake_other", "slow_workers", "fast_writer"]
    for i in range(n_sched):
        pipe = ["CF", "DL", "CL", "DF"][i % 4]
        cases.append({"kind": "sched", "seed": rng.randrange(1 << 48), "pipe": pipe,
                      "N": [2, 1, 3, 4, 8][(i // 4) % 5] if pipe in ("CF", "CL") else 1,
                      "jobs": {"CF": [4, 6, 3, 7], "CL": [3, 2, 4, 3], "DL": [7, 6, 9, 7], "DF": [5, 6, 7, 5]}[pipe][(i // 4) % 4],
                      "exact": (i // 4) % 3 == 1,       # input size an exact multiple of the chunk size (reader chain ends on an empty read)
                      "strategies": [gen_strats[(3 * i + k) % len(gen_strats)] for k in range(3)]})
    # ---- bounded exhaustive exploration of the model at the generated constants (supplement to the theorems):
    #      every interleaving and every wake-up choice; a deadlock / reuse witness is replayed on the real code
    ex = [("CL", 2, 2, 1), ("CF", 2, 2, 1), ("CL", 1, 3, 0), ("CF", 1, 2, 0), ("DL", 1, 7, 0), ("DF", 1, 0, 0)]
    if tier != "quick":
        ex += [("CL", 3, 2, 1), ("CF", 3, 3, 0), ("CL", 2, 4, 0), ("CF", 2, 4, 1), ("DL", 1, 12, 0)]
    for pipe, N, jobs, last in ex:
        cases.append({"kind": "explore", "pipe": pipe, "N": N, "jobs": jobs, "last": last, "outs": "2,1,3,0,2", "seed": 0})
    if tier == "thorough":
        for i in range(4):
            cases.append({"kind": "tsan", "seed": rng.randrange(1 << 48), "fmt": "legacy" if i % 2 else "lz4f",
                          "size": 50 * MB + 3 if i % 2 else 26 * MB + 5, "payload": ["mixed", "random"][i // 2], "N": [4, 2, 8, 3][i]})
    return cases

def worker_init(ctx):
    return {"ctx": ctx, "oracle": Oracle(name="mt")}

# ---------------------------------------------------------------- write register
def wr_order(rng, shape, n):
    r = list(range(n))
    if shape == "identity":
        return r
    if shape == "reversed":
        return r[::-1]
    if shape == "zero_last":
        x = r[1:]
        rng.shuffle(x)
        return x + [0]
    if shape == "random":
        rng.shuffle(r)
        return r
    if shape == "window":            # what N workers produce: bounded displacement
        w = rng.choice([2, 3, 4, 8, 20])
        out = []
        pend = []
        for i in r:
            pend.append(i)
            if len(pend) >= w:
                out.append(pend.pop(rng.randrange(len(pend))))
        while pend:
            out.append(pend.pop(rng.randrange(len(pend))))
        return out
    if shape == "pairs":
        out = []
        for i in range(0, n, 2):
            out += [i + 1, i] if i + 1 < n else [i]
        return out
    if shape == "malformed":         # duplicates and gaps: correspondence only
        return [rng.randrange(0, max(1, n // 2)) for _ in range(n)]
    raise ValueError(shape)

def run_wr(st, case):
    rng = random.Random(case["seed"])
    n, shape = case["n"], case["shape"]
    order = wr_order(rng, shape, n)
    data = {}
    script = []
    for k, r in enumerate(order):
        d = bytes([r & 255]) + rng.randbytes(rng.choice([0, 1, 2, 7]))
        if shape != "malformed":
            data[r] = d
        script.append((r, d))
    inp = "".join("%d %s\n" % (r, d.hex()) for r, d in script).encode()
    rc, out, err = mtlib.run([st["ctx"]["wr_drv"]], inp=inp, timeout=120)
    res = {"status": "ok", "kind": "wr", "evals": len(script), "stats": {"wr_" + shape: 1, "wr_arrivals": len(script)}, "keys": []}
    detail = {"order": order if n <= 60 else "n=%d shape=%s seed=%d" % (n, shape, case["seed"])}
    if rc != 0:
        res.update(status="prop_fail", what="write-register driver died (rc=%s): %s" % (rc, err[-400:]), detail=detail)
        return res
    clines = out.decode().strip().split("\n")
    m = st["oracle"].ask("wr", *["%d:%s" % (r, d.hex()) for r, d in script]).split("|")
    flag, mlines = m[0], m[1:]
    # property, directly on the real code: every prefix of the output is a prefix of the rank-ordered blocks,
    # and at the end everything has been written exactly once and nothing is left in the register
    if shape != "malformed":
        expect = b"".join(data[r] for r in range(n))
        got = b""
        stored_max = 0
        for k, l in enumerate(clines):
            f = l.split(" ")
            if f[3] != "-":
                got += bytes.fromhex(f[3])
            stored_max = max(stored_max, sum(1 for x in f[4].split(",") if x != "-1"))
            if not expect.startswith(got):
                res.update(status="prop_fail", what="real LZ4IO_checkWriteOrder wrote blocks out of rank order after arrival %d" % k, detail=detail)
                return res
        last = clines[-1].split(" ")
        if got != expect or int(last[0]) != n or any(x != "-1" for x in last[4].split(",")):
            res.update(status="prop_fail", what="real LZ4IO_checkWriteOrder: after all %d ranks arrived output/register are not final (expectedRank=%s)" % (n, last[0]), detail=detail)
            return res
        if flag != "ok":
            res.update(status="prop_fail", what="model flag raised on a permutation (contradicts C13_write_order)", detail=detail)
            return res
        if stored_max > 0:
            res["keys"] = [hashlib.sha1(inp).hexdigest()]
        res["stats"]["wr_max_stored_%s" % ("0" if stored_max == 0 else "le16" if stored_max <= 16 else "le256" if stored_max <= 256 else "gt256")] = 1
    if clines != mlines:
        k = next((i for i in range(min(len(clines), len(mlines))) if clines[i] != mlines[i]), min(len(clines), len(mlines)))
        res.update(status="corr_fail", what="write register: model and code differ at arrival %d" % k,
                   detail=dict(detail, code=clines[k][:300] if k < len(clines) else None, model=mlines[k][:300] if k < len(mlines) else None))
    return res

# ---------------------------------------------------------------- end-to-end, real binaries
def fail(res, what, detail, status="prop_fail"):
    res.update(status=status, what=what, detail=detail, nontrivial=True)
    return res

def cli(res, exe, args, what, detail, env=None, timeout=40):
    """run the CLI; a timeout or a non-zero exit status is a failure of the property (termination / success)"""
    rc, out, err = mtlib.run([exe] + args, timeout=timeout, env=env)
    res["evals"] += 1
    if rc == "timeout":
        fail(res, "%s did not terminate within %ds" % (what, timeout), dict(detail, cmd=args))
        return False
    if rc != 0:
        msg = mtlib.SHIM_RC.get(rc, "exit status %s" % rc)
        if rc == 66:
            msg = "ThreadSanitizer report"
        fail(res, "%s: %s" % (what, msg), dict(detail, cmd=args, stderr=err[-1500:]))
        return False
    return True

def run_e2e(st, case):
    ctx = st["ctx"]
    rng = random.Random(case["seed"])
    res = {"status": "ok", "kind": "e2e", "evals": 0, "keys": [], "stats": collections.Counter()}
    detail = {k: case[k] for k in ("seed", "fmt", "size", "payload", "opts")}
    legacy = case["fmt"] == "legacy"
    copts = (["-l"] if legacy else []) + case["opts"]
    with mtlib.TmpDir() as d:
        src = os.path.join(d, "in")
        with open(src, "wb") as f:
            f.write(mtlib.gen_payload(rng, case["size"], case["payload"]))
        src_sha = mtlib.file_sha(src)
        ref = os.path.join(d, "ref.lz4")
        if not cli(res, ctx["mt"], ["-f", "-q", "-T1"] + copts + [src, ref], "MT compression -T1", detail):
            return res
        ref_sha = mtlib.file_sha(ref)
        for T in case["workers"]:
            if T == 1:
                continue
            o = os.path.join(d, "o.lz4")
            if not cli(res, ctx["mt"], ["-f", "-q", "-T%d" % T] + copts + [src, o], "MT compression -T%d" % T, detail):
                return res
            if mtlib.file_sha(o) != ref_sha:
                return fail(res, "MT compression -T%d output differs from -T1 output" % T, detail)
            res["stats"]["e2e_compress_T%d" % T] += 1
        if "-BD" not in copts:        # the ST code path links blocks across 4 MB chunks, the MT one per chunk: different but both valid
            o = os.path.join(d, "st.lz4")
            if not cli(res, ctx["st"], ["-f", "-q"] + copts + [src, o], "ST compression", detail):
                return res
            if mtlib.file_sha(o) != ref_sha:
                return fail(res, "MT compression output differs from the single-threaded build's output", detail)
            res["stats"]["e2e_compress_vs_ST"] += 1
        for name, exe in (("MT", ctx["mt"]), ("ST", ctx["st"])):
            for sparse in ([], ["--no-sparse"]):
                o = os.path.join(d, "dec")
                if not cli(res, exe, ["-d", "-f", "-q"] + sparse + [ref, o], "%s decompression" % name, detail):
                    return res
                if mtlib.file_sha(o) != src_sha:
                    return fail(res, "%s decompression %s does not reproduce the input" % (name, " ".join(sparse)), detail)
                res["stats"]["e2e_decode_%s" % name] += 1
        res["stats"]["e2e_%s_jobs_%d" % (case["fmt"], -(-case["size"] // ((8 if legacy else 4) << 20)))] += 1
        res["keys"] = [hashlib.sha1(repr(sorted(detail.items())).encode()).hexdigest()]
    return res

def strategy_env(case, N, writer_tid, seed, d, tag):
    s = case["strategy"]
    kw = {"mode": case["mode"], "seed": seed}
    if case["mode"] == "free":
        kw["perturb"] = 40
        return mtlib.shim_env(**kw)
    if s == "sticky":
        kw["sticky"] = 92
    elif s == "slow_writer":
        kw["weights"] = "%d:1" % writer_tid
    elif s == "slow_main":
        kw["weights"] = "0:1"
    elif s == "fast_main":
        kw["weights"] = "-1:5,0:400"
    elif s == "wake_main":
        kw["wake"] = "main"
    elif s == "wake_notmain":
        kw["wake"] = "notmain"
    elif s == "one_worker_starved":
        kw["weights"] = "1:1"
    return mtlib.shim_env(**kw)

def run_shim(st, case):
    """real thread pool + lz4io pipelines, every scheduling and wake-up decision taken by the shim from a seeded
    strategy; deadlock, ownership violation, wrong output or non-termination = the property fails on the real code"""
    ctx = st["ctx"]
    rng = random.Random(case["seed"])
    res = {"status": "ok", "kind": "shim", "evals": 0, "keys": [], "stats": collections.Counter()}
    detail = {k: case[k] for k in ("seed", "fmt", "size", "payload", "strategy", "N", "mode")}
    legacy = case["fmt"] == "legacy"
    N = case["N"]
    copts = list(case.get("opts", []))
    detail["opts"] = copts
    with mtlib.TmpDir() as d:
        src = os.path.join(d, "in")
        with open(src, "wb") as f:
            f.write(mtlib.gen_payload(rng, case["size"], case["payload"]))
        src_sha = mtlib.file_sha(src)
        ref = os.path.join(d, "ref.lz4")
        if not cli(res, ctx["mt"], ["-f", "-q", "-T1"] + copts + (["-l"] if legacy else []) + [src, ref], "MT compression -T1", detail):
            return res
        ref_sha = mtlib.file_sha(ref)
        for rep in range(2):
            seed = rng.randrange(1 << 31)
            o = os.path.join(d, "o.lz4")
            env = strategy_env(case, N, N + 1, seed, d, "c")
            if not cli(res, ctx["shim"], ["-f", "-q", "-T%d" % N] + copts + (["-l"] if legacy else []) + [src, o],
                       "compression under the %s scheduler (strategy %s, seed %d)" % (case["mode"], case["strategy"], seed), detail, env=env):
                return res
            if mtlib.file_sha(o) != ref_sha:
                return fail(res, "compression under schedule (strategy %s, seed %d) differs from the sequential output" % (case["strategy"], seed), detail)
            o = os.path.join(d, "dec")
            env = strategy_env(case, 1, 2, seed, d, "d")
            if not cli(res, ctx["shim"], ["-d", "-f", "-q", ref, o],
                       "decompression under the %s scheduler (strategy %s, seed %d)" % (case["mode"], case["strategy"], seed), detail, env=env):
                return res
            if mtlib.file_sha(o) != src_sha:
                return fail(res, "decompression under schedule (strategy %s, seed %d) does not reproduce the input" % (case["strategy"], seed), detail)
            res["stats"]["shim_%s_%s" % (case["mode"], case["strategy"] if case["mode"] == "coop" else "perturbed")] += 2
            res["keys"].append(hashlib.sha1(("%r%d" % (sorted(detail.items()), seed)).encode()).hexdigest())
    return res

def run_tsan(st, case):
    ctx = st["ctx"]
    rng = random.Random(case["seed"])
    res = {"status": "ok", "kind": "tsan", "evals": 0, "keys": [], "stats": collections.Counter()}
    detail = {k: case[k] for k in ("seed", "fmt", "size", "payload", "N")}
    env = dict(os.environ)
    env.pop("LD_PRELOAD", None)
    env["TSAN_OPTIONS"] = "exitcode=66:halt_on_error=0"
    legacy = case["fmt"] == "legacy"
    with mtlib.TmpDir() as d:
        src = os.path.join(d, "in")
        with open(src, "wb") as f:
            f.write(mtlib.gen_payload(rng, case["size"], case["payload"]))
        o = os.path.join(d, "o.lz4")
        if not cli(res, ctx["tsan"], ["-f", "-q", "-T%d" % case["N"]] + (["-l"] if legacy else []) + [src, o], "TSan build, compression", detail, env=env, timeout=600):
            return res
        o2 = os.path.join(d, "dec")
        if not cli(res, ctx["tsan"], ["-d", "-f", "-q", o, o2], "TSan build, decompression", detail, env=env, timeout=600):
            return res
        if mtlib.file_sha(o2) != mtlib.file_sha(src):
            return fail(res, "TSan build: round trip differs", detail)
        res["stats"]["tsan_runs"] += 2
        res["keys"] = [hashlib.sha1(repr(sorted(detail.items())).encode()).hexdigest()]
    return res

# ---------------------------------------------------------------- model schedules on the real code
def read_trace(path):
    pools, lines, special = [], [], []
    if not os.path.exists(path):
        return pools, lines, ["no trace file"]
    for l in open(path).read().strip().split("\n"):
        if not l:
            continue
        f = l.split(" ", 2)
        if f[2].startswith("pool "):
            pools.append(f[2])
        elif f[2].startswith(("VIOL", "DEADLOCK", "MISMATCH", "SCHEDULE-EXHAUSTED")):
            special.append(l)
        else:
            lines.append(l)
    return pools, lines, special

def first_diff(a, b):
    for i in range(min(len(a), len(b))):
        if a[i] != b[i]:
            return i, a[i], b[i]
    if len(a) != len(b):
        i = min(len(a), len(b))
        return i, a[i] if i < len(a) else None, b[i] if i < len(b) else None
    return None

def run_sched(st, case):
    ctx = st["ctx"]
    orc = st["oracle"]
    rng = random.Random(case["seed"])
    res = {"status": "ok", "kind": "sched", "evals": 0, "keys": [], "stats": collections.Counter()}
    detail = {k: case[k] for k in ("seed", "pipe", "N", "jobs", "exact", "strategies")}
    pipe, N, jobs = case["pipe"], case["N"], case["jobs"]
    K = st.setdefault("consts", [int(x) for x in orc.ask("consts").split()])
    depths = {"CL": (K[0], K[1]), "CF": (K[2], K[3]), "DL": (K[4], K[5]), "DF": (K[6], K[7])}[pipe]
    NB, PB = (K[8] if pipe == "DL" else K[10]), K[11]
    MB = 1 << 20
    chunk = 8 * MB if pipe in ("CL", "DL") else 4 * MB
    with mtlib.TmpDir() as d:
        src = os.path.join(d, "in")
        if pipe == "DF":
            size = jobs * 4 * MB + rng.randrange(1000, 100000)          # random data: compressed size ~ size => `jobs`+1 input chunks
            payload = mtlib.gen_payload(rng, size, "random") if not case["exact"] else \
                      mtlib.gen_payload(rng, size // 2, "random") + mtlib.gen_payload(rng, size, "text")
        else:
            size = jobs * chunk + (0 if case["exact"] else rng.randrange(1, chunk // 2))
            payload = mtlib.gen_payload(rng, size, rng.choice(["mixed", "random"]))
        with open(src, "wb") as f:
            f.write(payload)
        del payload
        legacy = pipe in ("CL", "DL")
        ref = os.path.join(d, "ref.lz4")
        if not cli(res, ctx["mt"], ["-f", "-q", "-T1"] + (["-l"] if legacy else []) + [src, ref], "MT compression -T1", detail):
            return res
        if pipe in ("CL", "CF"):
            args = ["-f", "-q", "-T%d" % N] + (["-l"] if legacy else []) + [src, os.path.join(d, "o")]
            want_sha = mtlib.file_sha(ref)
            nfull, last = size // chunk, 1 if size % chunk else 0
            cfg = [pipe, N, depths[0], depths[1], NB, PB, nfull, last, 0, "-"]
        else:
            args = ["-d", "-f", "-q", ref, os.path.join(d, "o")]
            want_sha = mtlib.file_sha(src)
            cfg = [pipe, 1, depths[0], depths[1], NB, PB, 0, 0, -(-size // chunk) if pipe == "DL" else 0, "-"]
        trace, picks, sched = (os.path.join(d, x) for x in ("trace", "picks", "sched"))

        def check_pools(pools):
            want = ["pool 0 workers=%d depth=%d" % (cfg[1], depths[0]), "pool 1 workers=1 depth=%d" % depths[1]]
            if pools != want:
                fail(res, "TPool_create calls of the real run %r differ from the generated call-site constants %r" % (pools, want), detail, "corr_fail")
                return False
            return True

        # (a) a seeded schedule on the real code; the model must accept it and produce the same events
        seed = rng.randrange(1 << 31)
        env = mtlib.shim_env(mode="coop", seed=seed, trace=trace, picks=picks, sticky=rng.choice([0, 0, 60, 90]),
                             wake=rng.choice(["random", "first", "last", "main", "notmain"]))
        if not cli(res, ctx["shim"], args, "%s under a seeded cooperative schedule (seed %d)" % (pipe, seed), detail, env=env):
            return res
        if mtlib.file_sha(args[-1]) != want_sha:
            return fail(res, "%s under seeded schedule %d: output differs from the sequential result" % (pipe, seed), detail)
        pools, rlines, special = read_trace(trace)
        if special:
            return fail(res, "real run reported: " + special[0], detail)
        if not check_pools(pools):
            return res
        if pipe == "DF":      # number of output buffers per input chunk: a function of the data, read off the real trace
            outs, cur = [], None
            for l in rlines:
                t = l.split(" ", 2)[2]
                if t.startswith("start F"):
                    outs.append(0)
                elif t.startswith("sub w Y"):
                    outs[-1] += 1
            cfg[9] = ",".join(map(str, outs)) if outs else "-"
            res["stats"]["sched_DF_chunks_%d_outs_%d" % (len(outs), sum(outs))] += 1
        cfg_t = [str(x) for x in cfg]
        pk = [l.split() for l in open(picks).read().strip().split("\n")]
        pstr = ",".join("%s:%s" % (t, w) for t, w in pk) + ",0:0"     # the last step of main ends with the process, it is not logged
        r = orc.ask("sim", *cfg_t, pstr).split("|")
        res["evals"] += len(pk)
        if r[0] != "accepted" or "final=1 err=0 viol=0" not in r[1]:
            return fail(res, "model does not accept the schedule observed on the real code: %s / %s" % (r[0], r[1][:200]),
                        dict(detail, shim_seed=seed, cfg=cfg_t, picks=pstr if len(pstr) < 3000 else pstr[:3000] + "..."), "corr_fail")
        mlines = r[2].split(";") if r[2] else []
        df = first_diff(rlines, mlines)
        if df:
            return fail(res, "event traces differ at event %d: real %r, model %r" % df, dict(detail, shim_seed=seed, cfg=cfg_t), "corr_fail")
        res["stats"]["sched_real_to_model_%s" % pipe] += 1
        res["stats"]["sched_steps"] += len(pk)

        # (b) schedules generated from the model by adversarial strategies, replayed on the real code
        for strat in case["strategies"]:
            gseed = rng.randrange(1 << 30)
            g = orc.ask("gen", *cfg_t, strat, str(gseed)).split("|")
            if g[0] != "complete" or "final=1 err=0 viol=0" not in g[1]:
                return fail(res, "model run under strategy %s ended with %s (%s): contradicts C13_no_deadlock / C13_no_reuse" % (strat, g[0], g[1][:200]),
                            dict(detail, cfg=cfg_t, gen_seed=gseed, picks=g[2][:3000]))
            mp = [x.split(":") for x in g[2].split(",")]
            with open(sched, "w") as f:
                f.write("".join("%s %s\n" % (t, w) for t, w in mp))
            for x in (trace, picks):
                if os.path.exists(x):
                    os.remove(x)
            env = mtlib.shim_env(mode="coop", seed=1, trace=trace, picks=picks, sched=sched)
            rc, out, err = mtlib.run([ctx["shim"]] + args, timeout=40, env=env)
            res["evals"] += len(mp)
            what = "%s replaying model schedule (strategy %s, seed %d)" % (pipe, strat, gseed)
            dd = dict(detail, cfg=cfg_t, strategy=strat, gen_seed=gseed)
            if rc == "timeout":
                return fail(res, what + ": did not terminate", dd)
            if rc == 96:
                return fail(res, what + ": the real code cannot follow the schedule: " + err[-300:], dd, "corr_fail")
            if rc != 0:
                return fail(res, what + ": " + mtlib.SHIM_RC.get(rc, "exit status %s" % rc), dict(dd, stderr=err[-800:]))
            pools, rlines, special = read_trace(trace)
            if special:
                return fail(res, what + ": " + special[0], dd, "corr_fail" if "EXHAUSTED" in special[0] else "prop_fail")
            if mtlib.file_sha(args[-1]) != want_sha:
                return fail(res, what + ": output differs from the sequential result", dd)
            mlines = g[3].split(";") if g[3] else []
            df = first_diff(rlines, mlines)
            if df:
                return fail(res, what + ": event traces differ at event %d: real %r, model %r" % df, dd, "corr_fail")
            res["stats"]["sched_model_to_real_%s_%s" % (pipe, strat)] += 1
            res["stats"]["sched_steps"] += len(mp)
            res["keys"].append(hashlib.sha1(g[2].encode()).hexdigest())
    return res

def run_explore(st, case):
    ctx = st["ctx"]
    orc = st["oracle"]
    res = {"status": "ok", "kind": "explore", "evals": 0, "keys": [], "stats": collections.Counter()}
    pipe, N, jobs = case["pipe"], case["N"], case["jobs"]
    K = st.setdefault("consts", [int(x) for x in orc.ask("consts").split()])
    depths = {"CL": (K[0], K[1]), "CF": (K[2], K[3]), "DL": (K[4], K[5]), "DF": (K[6], K[7])}[pipe]
    NB, PB = (K[8] if pipe == "DL" else K[10]), K[11]
    cfg = [pipe, N, depths[0], depths[1], NB, PB, jobs if pipe in ("CL", "CF") else 0, case["last"],
           jobs if pipe == "DL" else 0, case["outs"] if pipe == "DF" else "-"]
    cfg_t = [str(x) for x in cfg]
    r = orc.ask("explore", *cfg_t, "1500000").split("|")
    f = dict(x.split("=") for x in r[0].split(" "))
    res["evals"] = int(f["states"])
    res["stats"]["explore_states_%s" % pipe] += int(f["states"])
    res["stats"]["explore_%s_N%d_jobs%d_maxq_t%s_maxq_w%s" % (pipe, N, jobs, f["maxq_t"], f["maxq_w"])] += 1
    detail = {"cfg": cfg_t, "result": r[0]}
    bad = None
    if int(f["deadlocks"]) > 0:
        bad = ("deadlock", r[1])
    elif int(f["viol"]) > 0:
        bad = ("buffer reuse", r[2])
    elif int(f["err"]) > 0 or f["outputs"] != f["expected"] or int(f["finals"]) == 0:
        return fail(res, "model exploration at the generated constants: err=%s outputs=%s expected=%s finals=%s" % (f["err"], f["outputs"], f["expected"], f["finals"]), detail)
    elif pipe in ("CL", "CF") and int(f["maxq_t"]) > 2:
        return fail(res, "model exploration: tPool queue holds %s jobs (tpool_compress_never_full bound is 2)" % f["maxq_t"], detail, "corr_fail")
    if bad is None:
        if f["truncated"] == "0":
            res["keys"] = [hashlib.sha1(" ".join(cfg_t).encode()).hexdigest()]
        return res
    # the model has a bad schedule at the constants of the current source: replay it on the real code
    what, witness = bad
    detail["witness"] = witness
    if pipe == "DF":
        return fail(res, "model exploration finds a %s schedule at the generated constants (LZ4F decoding; not replayed)" % what, detail)
    MB = 1 << 20
    chunk = 8 * MB if pipe in ("CL", "DL") else 4 * MB
    rng = random.Random(12345)
    with mtlib.TmpDir() as d:
        src = os.path.join(d, "in")
        size = jobs * chunk + (chunk // 3 if case["last"] else 0) - (chunk // 2 if pipe == "DL" else 0)
        with open(src, "wb") as fh:
            fh.write(mtlib.gen_payload(rng, size, "mixed"))
        legacy = pipe in ("CL", "DL")
        if pipe == "DL":
            ref = os.path.join(d, "ref.lz4")
            if not cli(res, ctx["mt"], ["-f", "-q", "-T1", "-l", src, ref], "MT compression -T1", detail):
                return res
            args = ["-d", "-f", "-q", ref, os.path.join(d, "o")]
        else:
            args = ["-f", "-q", "-T%d" % N] + (["-l"] if legacy else []) + [src, os.path.join(d, "o")]
        sched = os.path.join(d, "sched")
        with open(sched, "w") as fh:
            fh.write("".join("%s %s\n" % tuple(x.split(":")) for x in witness.split(",")))
        env = mtlib.shim_env(mode="coop", seed=1, sched=sched, trace=os.path.join(d, "trace"))
        rc, out, err = mtlib.run([ctx["shim"]] + args, timeout=40, env=env)
        detail["replay_rc"] = rc
        detail["replay_stderr"] = err[-600:]
        if rc in (97, 95) or rc == "timeout":
            return fail(res, "%s: the schedule found in the model at the constants of the current source reproduces on the real code (%s)"
                        % (what, mtlib.SHIM_RC.get(rc, rc)), detail)
        return fail(res, "model exploration finds a %s schedule but the real code does not reproduce it (rc=%s)" % (what, rc), detail, "corr_fail")

def run_case(st, case):
    if case["kind"] == "explore":
        return run_explore(st, case)
    if case["kind"] == "sched":
        return run_sched(st, case)
    if case["kind"] == "wr":
        return run_wr(st, case)
    if case["kind"] == "e2e":
        return run_e2e(st, case)
    if case["kind"] == "shim":
        return run_shim(st, case)
    if case["kind"] == "tsan":
        return run_tsan(st, case)
    return {"status": "harness_error", "what": "unknown case kind %r" % case.get("kind")}
