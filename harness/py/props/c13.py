"""C13 - multi-threaded CLI pipelines are correct under every thread schedule.
Theorem side: Properties_C13.v.
Tie: (wr) LZ4IO_checkWriteOrder model == the real static function, state by state;
     (e2e) real MT binary vs sequential output for every worker count;
     (sched) model schedules replayed on the real thread pool through the scheduler shim."""
import random, hashlib, collections, os
import mtlib
from vlib import Oracle

THEOREMS = None
ORACLES = ["mt"]
CORRESPONDENCE = ["WriteReg.arrive model == LZ4IO_checkWriteOrder (expectedRank, capacity, totalCSize, bytes written by each call, every slot of the descriptor array)"]
RULE = ("wr: arrival orders of n blocks (n in 1..700: identity, reversed, rank 0 last, random, bounded-window shuffle, "
        "plus malformed sequences with duplicate/missing ranks for the correspondence only); non-trivial = at least one block stored out of order; "
        "distinct = distinct (order, sizes) scripts")
TRUSTED = ["hand-written models Model/WriteReg.v, Model/TPool.v, Model/Pipeline.v tied by the comparisons above"]
ASSUMPTIONS = ["mutex-protected sections are atomic; code between synchronisation operations only touches thread-local data and the buffers it owns",
               "no spurious condition-variable wake-ups (they only re-test a predicate)",
               "pthread variant of threadpool.c (the Windows completion-port variant is not modelled)"]

def build(tier):
    ctx = {"asan": False, "case_timeout": 600, "wr_drv": mtlib.build_wr_drv()}
    return ctx

# ---------------------------------------------------------------- cases
def gen_cases(tier, seed):
    rng = random.Random(seed)
    n_wr = {"quick": 40, "search": 150, "thorough": 300}[tier]
    cases = []
    shapes = ["identity", "reversed", "zero_last", "random", "window", "window", "malformed", "pairs"]
    for i in range(n_wr):
        cases.append({"kind": "wr", "seed": rng.randrange(1 << 48), "shape": shapes[i % len(shapes)],
                      "n": rng.choice([1, 2, 3, 5, 16, 17, 18, 33, 40, 100]) if i % 10 else rng.choice([300, 520, 700])})
    return cases

def worker_init(ctx):
    return {"ctx": ctx, "oracle": Oracle(name="mt")}

# ---------------------------------------------------------------- write register
def wr_order(rng, shape, n):
    r = list(range(n))
    if shape == "identity":
        return r
    if shape == "reversed":
        return r[::-1]
    if shape == "zero_last":
        x = r[1:]
        rng.shuffle(x)
        return x + [0]
    if shape == "random":
        rng.shuffle(r)
        return r
    if shape == "window":            # what N workers produce: bounded displacement
        w = rng.choice([2, 3, 4, 8, 20])
        out = []
        pend = []
        for i in r:
            pend.append(i)
            if len(pend) >= w:
                out.append(pend.pop(rng.randrange(len(pend))))
        while pend:
            out.append(pend.pop(rng.randrange(len(pend))))
        return out
    if shape == "pairs":
        out = []
        for i in range(0, n, 2):
            out += [i + 1, i] if i + 1 < n else [i]
        return out
    if shape == "malformed":         # duplicates and gaps: correspondence only
        return [rng.randrange(0, max(1, n // 2)) for _ in range(n)]
    raise ValueError(shape)

def run_wr(st, case):
    rng = random.Random(case["seed"])
    n, shape = case["n"], case["shape"]
    order = wr_order(rng, shape, n)
    data = {}
    script = []
    for k, r in enumerate(order):
        d = bytes([r & 255]) + rng.randbytes(rng.choice([0, 1, 2, 7]))
        if shape != "malformed":
            data[r] = d
        script.append((r, d))
    inp = "".join("%d %s\n" % (r, d.hex()) for r, d in script).encode()
    rc, out, err = mtlib.run([st["ctx"]["wr_drv"]], inp=inp, timeout=120)
    res = {"status": "ok", "kind": "wr", "evals": len(script), "stats": {"wr_" + shape: 1, "wr_arrivals": len(script)}, "keys": []}
    detail = {"order": order if n <= 60 else "n=%d shape=%s seed=%d" % (n, shape, case["seed"])}
    if rc != 0:
        res.update(status="prop_fail", what="write-register driver died (rc=%s): %s" % (rc, err[-400:]), detail=detail)
        return res
    clines = out.decode().strip().split("\n")
    m = st["oracle"].ask("wr", *["%d:%s" % (r, d.hex()) for r, d in script]).split("|")
    flag, mlines = m[0], m[1:]
    # property, directly on the real code: every prefix of the output is a prefix of the rank-ordered blocks,
    # and at the end everything has been written exactly once and nothing is left in the register
    if shape != "malformed":
        expect = b"".join(data[r] for r in range(n))
        got = b""
        stored_max = 0
        for k, l in enumerate(clines):
            f = l.split(" ")
            if f[3] != "-":
                got += bytes.fromhex(f[3])
            stored_max = max(stored_max, sum(1 for x in f[4].split(",") if x != "-1"))
            if not expect.startswith(got):
                res.update(status="prop_fail", what="real LZ4IO_checkWriteOrder wrote blocks out of rank order after arrival %d" % k, detail=detail)
                return res
        last = clines[-1].split(" ")
        if got != expect or int(last[0]) != n or any(x != "-1" for x in last[4].split(",")):
            res.update(status="prop_fail", what="real LZ4IO_checkWriteOrder: after all %d ranks arrived output/register are not final (expectedRank=%s)" % (n, last[0]), detail=detail)
            return res
        if flag != "ok":
            res.update(status="prop_fail", what="model flag raised on a permutation (contradicts C13_write_order)", detail=detail)
            return res
        if stored_max > 0:
            res["keys"] = [hashlib.sha1(inp).hexdigest()]
        res["stats"]["wr_max_stored_%s" % ("0" if stored_max == 0 else "le16" if stored_max <= 16 else "le256" if stored_max <= 256 else "gt256")] = 1
    if clines != mlines:
        k = next((i for i in range(min(len(clines), len(mlines))) if clines[i] != mlines[i]), min(len(clines), len(mlines)))
        res.update(status="corr_fail", what="write register: model and code differ at arrival %d" % k,
                   detail=dict(detail, code=clines[k][:300] if k < len(clines) else None, model=mlines[k][:300] if k < len(mlines) else None))
    return res

def run_case(st, case):
    if case["kind"] == "wr":
        return run_wr(st, case)
    return {"status": "harness_error", "what": "unknown case kind %r" % case.get("kind")}
