"""One-shot block compressor cases shared by C01 / C06 / C09 / C17: real library calls on
exact ASan buffers, the property oracles, and the correspondence with the Coq model
of the fast compressor (Model/Fast.v, Model/FastApi.v)."""
import random, ctypes, struct, hashlib, collections
from ctypes import c_int, byref
import gens, blk
from capi import Lib, Buf
from vlib import Oracle, hx, md5

ACCELS = [1, 1, 1, 2, 7, 0, -5, 65537, 70000, 100]
LEVELS = [1, 2, 3, 4, 6, 9, 10, 11, 12, 0, -1, 13]
MAXI = 0x7E000000

def bound(n):
    return 0 if n < 0 or n > MAXI else n + n // 255 + 16

def ctx_fields(stbuf):
    raw = stbuf.bytes(16384 + 32)
    cur, tt, ds = struct.unpack_from("<III", raw, 16400)
    return cur, tt, ds, md5(raw[:16384])

def parse_model(a):
    t = a.split()
    # ret consumed hw len md5 [hex] cur= tt= dictSize= tab=
    d = {"ret": int(t[0]), "consumed": int(t[1]), "hw": int(t[2]), "len": int(t[3]), "md5": t[4]}
    for x in t[5:]:
        if "=" in x:
            k, v = x.split("=")
            d[k] = v
    return d

def run_fast(st, variant, src, cap, accel, res, info, check_model=True):
    """variant: default | fast | ext (junk state) ; returns (ret, out)"""
    lib, orc = st["lib"], st["oracle"]
    n = len(src)
    srcb = Buf(n, data=src)
    dstb = Buf(max(cap, 0), fill=0xC3)
    stbuf = None
    if variant == "default":
        r = lib.compress_default(srcb.p, dstb.p, n, cap)
    elif variant == "fast":
        r = lib.compress_fast(srcb.p, dstb.p, n, cap, accel)
    else:
        stbuf = blk.junk_state(lib, "fast", info.get("junk", 1))
        r = lib.compress_fast_extState(stbuf.p, srcb.p, dstb.p, n, cap, accel)
    out = dstb.bytes(r) if 0 < r <= cap else b""
    res["evals"] += 1
    if check_model:
        m = parse_model(orc.ask("comp", "ext", hx(src), str(cap), str(accel if variant != "default" else 1)))
        bad = None
        if m["ret"] != r:
            bad = "return value: model %d, code %d" % (m["ret"], r)
        elif r > 0 and m["md5"] != md5(out):
            bad = "output bytes differ (ret=%d)" % r
        elif stbuf is not None:
            cur, tt, ds, tab = ctx_fields(stbuf)
            if (str(cur), str(tt), str(ds), tab) != (m["cur"], m["tt"], m["dictSize"], m["tab"]):
                bad = "context after the call differs: code cur=%d tt=%d dictSize=%d, model cur=%s tt=%s dictSize=%s, table %s" % (
                    cur, tt, ds, m["cur"], m["tt"], m["dictSize"], "same" if tab == m["tab"] else "differs")
        if bad is None and r > 0 and m["hw"] > (cap if cap < bound(n) else bound(n)):
            bad = "model high-water %d exceeds capacity" % m["hw"]
        if bad:
            res["fails"].append({"status": "corr_fail", "what": "fast compressor model/code disagree: " + bad,
                                 "detail": dict(info, variant=variant, cap=cap, accel=accel, n=n, src=src.hex() if n <= 400 else "len=%d" % n)})
    srcb.free(); dstb.free()
    if stbuf: stbuf.free()
    return r, out


def run_fr_history(st, srcs, params, res, info, check_model=True):
    """A history of LZ4_compress_fast_extState_fastReset calls on ONE state (initStream once):
    exact comparison with the model after every call; returns [(ret, out)]"""
    lib, orc = st["lib"], st["oracle"]
    stbuf = blk.junk_state(lib, "fast", info.get("junk", 1))
    lib.initStream(stbuf.p, stbuf.n)
    if check_model:
        orc.ask("ctxinit")
    outs = []
    for k, (src, (cap, accel)) in enumerate(zip(srcs, params)):
        n = len(src)
        srcb = Buf(n, data=src); dstb = Buf(max(cap, 0), fill=0xC3)
        r = lib.compress_fast_extState_fastReset(stbuf.p, srcb.p, dstb.p, n, cap, accel)
        out = dstb.bytes(r) if 0 < r <= cap else b""
        res["evals"] += 1
        if check_model:
            m = parse_model(orc.ask("fr", hx(src), str(cap), str(accel)))
            cur, tt, ds, tab = ctx_fields(stbuf)
            bad = None
            if m["ret"] != r:
                bad = "return value: model %d, code %d" % (m["ret"], r)
            elif r > 0 and m["md5"] != md5(out):
                bad = "output bytes differ (ret=%d)" % r
            elif (str(cur), str(tt), str(ds), tab) != (m["cur"], m["tt"], m["dictSize"], m["tab"]):
                bad = "context after call %d differs: code cur=%d tt=%d dictSize=%d, model cur=%s tt=%s dictSize=%s, table %s" % (
                    k, cur, tt, ds, m["cur"], m["tt"], m["dictSize"], "same" if tab == m["tab"] else "differs")
            if bad:
                res["fails"].append({"status": "corr_fail", "what": "fastReset history model/code disagree at call %d: %s" % (k, bad),
                                     "detail": dict(info, sizes=[len(x) for x in srcs], params=params)})
                check_model = False
        outs.append((r, out))
        srcb.free(); dstb.free()
    stbuf.free()
    return outs

def run_hc(st, variant, src, cap, level, res, info):
    lib = st["lib"]
    n = len(src)
    srcb = Buf(n, data=src)
    dstb = Buf(max(cap, 0), fill=0xC3)
    r = blk.compress(lib, variant, level, srcb, n, dstb, cap, info.get("junk", 1))
    out = dstb.bytes(r) if 0 < r <= cap else b""
    res["evals"] += 1
    srcb.free(); dstb.free()
    return r, out

def run_destsize(st, which, src, target, level, res, info, check_model=True):
    """which: fast | hc ; returns (ret, consumed, out)"""
    lib, orc = st["lib"], st["oracle"]
    n = len(src)
    srcb = Buf(n, data=src)
    dstb = Buf(max(target, 0), fill=0xC3)
    sz = c_int(n)
    if which == "fast":
        r = lib.compress_destSize(srcb.p, dstb.p, byref(sz), target)
    else:
        stbuf = blk.junk_state(lib, "hc", info.get("junk", 1))
        r = lib.compress_HC_destSize(stbuf.p, srcb.p, dstb.p, byref(sz), target, level)
        stbuf.free()
    out = dstb.bytes(r) if 0 < r <= target else b""
    res["evals"] += 1
    if which == "fast" and check_model:
        m = parse_model(orc.ask("comp", "dest", hx(src), str(target), "1"))
        bad = None
        if m["ret"] != r:
            bad = "return value: model %d, code %d" % (m["ret"], r)
        elif r > 0 and (m["md5"] != md5(out) or m["consumed"] != sz.value):
            bad = "output or consumed differ (code consumed=%d model=%d)" % (sz.value, m["consumed"])
        elif r > 0 and m["hw"] > target and target < bound(n):
            bad = "model high-water %d exceeds target %d" % (m["hw"], target)
        if bad:
            res["fails"].append({"status": "corr_fail", "what": "destSize model/code disagree: " + bad,
                                 "detail": dict(info, target=target, n=n, src=src.hex() if n <= 400 else "len=%d" % n)})
    srcb.free(); dstb.free()
    return r, sz.value, out

def hcemit_lib():
    """shared object with harness/c/hcemit.c (#includes lz4hc.c to reach the static LZ4HC_encodeSequence)"""
    from vlib import build_lib
    return build_lib("hcemit", wrappers=["hcemit.c"])

def run_hcemit(st, rng, res, info, L, ml, offset, limit, room):
    """one call of the real LZ4HC_encodeSequence vs the extracted model (Model.HcEmit):
    L literals, match length ml, `room` = oend - op; exact-size ASan destination"""
    import ctypes
    from ctypes import c_int, byref, c_void_p
    L4 = st["hcemit"]
    f = L4.v_hc_encodeSequence
    f.restype = c_int
    f.argtypes = [c_void_p, c_int, c_int, c_void_p, c_int, c_int, c_int, c_int, c_int,
                  ctypes.POINTER(c_int), ctypes.POINTER(c_int), ctypes.POINTER(c_int)]
    anchor = rng.choice([0, 3, 17])
    src = rng.randbytes(anchor + L + ml + 16)
    op0 = rng.choice([0, 1, 9])
    oend = op0 + room
    # the wild copy reads up to 7 bytes beyond the literals: give the source that slack (as the parsers do: MFLIMIT)
    srcb = Buf(len(src), data=src)
    dstsz = oend if limit else op0 + 1 + L // 255 + 1 + L + 8 + 2 + ml // 255 + 2 + 8
    dstb = Buf(max(dstsz, 1), fill=0xC3)
    nop, nip, nan = c_int(0), c_int(0), c_int(0)
    r = f(srcb.p, anchor + L, anchor, dstb.p, op0, ml, offset, 1 if limit else 0, oend, byref(nop), byref(nip), byref(nan))
    res["evals"] += 1
    got = dstb.bytes(nop.value - op0, op0) if nop.value >= op0 else b""
    tail = dstb.bytes()[max(nop.value, op0):]
    srcb.free(); dstb.free()
    m = st["oracle"].ask("hcemit", hx(src), str(anchor + L), str(anchor), str(op0), str(ml), str(offset), "1" if limit else "0", str(oend)).split()
    mret, mop, mhw, mlen, mmd5 = int(m[0]), int(m[1]), int(m[2]), int(m[3]), m[4]
    bad = None
    if mret != r:
        bad = "return code: model %d, code %d" % (mret, r)
    elif r == 0 and (mop != nop.value or mmd5 != md5(got)):
        bad = "bytes/op differ: model op %d, code op %d" % (mop, nop.value)
    elif r == 0 and (nip.value != anchor + L + ml or nan.value != nip.value):
        bad = "ip/anchor not advanced to the end of the match"
    if bad:
        res["fails"].append({"status": "corr_fail", "what": "LZ4HC_encodeSequence model/code disagree: " + bad,
                             "detail": dict(info, L=L, ml=ml, offset=offset, limit=limit, room=room)})
    if limit and mhw > oend:
        res["fails"].append({"status": "prop_fail", "what": "model high-water %d exceeds oend %d (theorem encodeSequence_cap contradicted?)" % (mhw, oend), "detail": info})
    return r

def new_res():
    return {"evals": 0, "fails": [], "keys": set(), "stats": collections.Counter()}

def finish(res, kind):
    out = []
    for f in res["fails"][:3]:
        f["nontrivial"] = True; f["kind"] = kind
        out.append(f)
    out.append({"status": "ok", "evals": res["evals"], "keys": sorted(res["keys"])[:3000], "kind": kind,
                "stats": dict(res["stats"]), "nontrivial": False})
    return out

def key_of(*parts):
    h = hashlib.sha1()
    for p in parts:
        h.update(p if isinstance(p, bytes) else str(p).encode()); h.update(b"|")
    return h.hexdigest()[:20]

# ------------------------------------------------------------------ LZ4MID (HC levels 1-2) model vs code
def midstate_lib():
    """shared object with harness/c/hcstate.c (field access to LZ4_streamHC_t for the LZ4MID correspondence)"""
    from vlib import build_lib
    return build_lib("midstate", wrappers=["hcstate.c"])

def parse_mid(a):
    t = a.split()
    if len(t) < 9 or not t[0].lstrip("-").isdigit():
        raise RuntimeError("mid oracle: " + a[:300])
    d = {"ret": int(t[0]), "consumed": int(t[1]), "len": int(t[2]), "md5": t[3]}
    for kv in t[4:]:
        if "=" in kv:
            k, v = kv.split("=", 1); d[k] = v
    return d

def run_mid_session(st, calls, res, info, level=2):
    """calls: list of ("fr", src, cap) = LZ4_compress_HC_extStateHC_fastReset, ("ds", src, target) = LZ4_compress_HC_destSize,
    executed on ONE LZ4_streamHC_t and on the extracted Model.HcMidApi (oracle `mid`, session context).
    After every call: return value, consumed, output bytes, both hash tables, end index and dirty flag must agree.
    returns the list of (kind, src, ret, consumed, out)."""
    import ctypes, hashlib
    from ctypes import c_int, byref, c_void_p, c_uint, c_ulonglong
    lib = st["midlib"]; raw = st["midraw"]; orc = st["mid"]
    raw.v_hc_mid_tables.restype = c_int; raw.v_hc_mid_tables.argtypes = [c_void_p, c_void_p]
    raw.v_hc_end_index.restype = c_ulonglong; raw.v_hc_end_index.argtypes = [c_void_p]
    raw.v_hc_dirty.restype = c_int; raw.v_hc_dirty.argtypes = [c_void_p]
    stbuf = Buf(lib.sizeofStateHC(), data=bytes(lib.sizeofStateHC()))
    lib.initStreamHC(stbuf.p, stbuf.n)
    orc.ask("midinit")
    tabs = Buf(4 * 32768)
    outs = []
    for ci, (kind, src, cap) in enumerate(calls):
        n = len(src)
        srcb = Buf(n, data=src)
        dstb = Buf(max(cap, 0), fill=0xC3)
        sz = c_int(n)
        if kind == "frn":
            # invalid size (negative / above LZ4_MAX_INPUT_SIZE) with a small valid source buffer: must return 0
            bad_n = struct.unpack("<i", src[:4])[0]
            srcb.free(); srcb = Buf(16, data=bytes(16)); n = 16
            r = lib.compress_HC_extStateHC_fastReset(stbuf.p, srcb.p, dstb.p, bad_n, cap, level)
            m = parse_mid(orc.ask("midfrn", str(bad_n), str(cap)))
            consumed = 0
            if r != 0:
                res["fails"].append({"status": "prop_fail", "what": "LZ4_compress_HC_extStateHC_fastReset(level %d) returned %d for srcSize %d" % (level, r, bad_n),
                                     "detail": dict(info, call=ci)})
        elif kind == "fr":
            r = lib.compress_HC_extStateHC_fastReset(stbuf.p, srcb.p, dstb.p, n, cap, level)
            m = parse_mid(orc.ask("midfr", hx(src), str(cap)))
            consumed = n
        else:
            r = lib.compress_HC_destSize(stbuf.p, srcb.p, dstb.p, byref(sz), cap, level)
            m = parse_mid(orc.ask("midds", hx(src), str(cap)))
            consumed = sz.value
        out = dstb.bytes(r) if 0 < r <= cap else b""
        res["evals"] += 1
        res["stats"]["mid_" + kind] += 1
        half = raw.v_hc_mid_tables(stbuf.p, tabs.p)
        t = tabs.bytes()
        h4 = hashlib.md5(t[:4 * half]).hexdigest(); h8 = hashlib.md5(t[4 * half:8 * half]).hexdigest()
        endi = raw.v_hc_end_index(stbuf.p); dirty = raw.v_hc_dirty(stbuf.p)
        bad = None
        if m["ret"] != r:
            bad = "return value: model %d, code %d" % (m["ret"], r)
        elif r > 0 and (m["md5"] != md5(out) or (kind == "ds" and m["consumed"] != consumed)):
            bad = "output or consumed differ (code consumed=%d model=%d, code len %d model len %d)" % (consumed, m["consumed"], len(out), m["len"])
        elif m["h4"] != h4 or m["h8"] != h8:
            bad = "hash tables differ after the call (%s)" % ("hash4" if m["h4"] != h4 else "hash8")
        elif int(m["end"]) != endi or int(m["dirty"]) != (1 if dirty else 0):
            bad = "context differs: end index model %s code %d, dirty model %s code %d" % (m["end"], endi, m["dirty"], dirty)
        elif r > 0 and int(m["hw"]) > cap and (kind == "ds" or cap < bound(n)):
            res["fails"].append({"status": "prop_fail", "what": "LZ4MID model writes up to %s > capacity %d" % (m["hw"], cap),
                                 "detail": dict(info, call=ci, kind=kind, n=n, cap=cap)})
        if bad:
            res["fails"].append({"status": "corr_fail", "what": "LZ4MID model/code disagree (call %d, %s): %s" % (ci, kind, bad),
                                 "detail": dict(info, call=ci, kind=kind, n=n, cap=cap, level=level,
                                                calls=[(k, s.hex() if len(s) <= 300 else "len=%d md5=%s" % (len(s), md5(s)), c) for (k, s, c) in calls[:ci + 1]])})
            srcb.free(); dstb.free()
            break
        outs.append((kind, src, r, consumed, out))
        srcb.free(); dstb.free()
    stbuf.free(); tabs.free()
    return outs


# ---- shared wiring: every check that claims a theorem about Model.HcMid runs the `mid` correspondence itself
MID_CORR = ("Model.HcMidApi (LZ4MID_compress + one-shot HC entry points at levels 1-2, LZ4_compress_HC_destSize) == the real functions over call "
            "histories on one LZ4_streamHC_t (return value, consumed, bytes, both hash tables, end index, dirty flag after every call)")

def mid_gen_cases(rng, tier, scale=1.0):
    nm = int({"quick": 16, "search": 40, "thorough": 120}[tier] * scale)
    return [{"bseed": rng.randrange(1 << 48), "count": 10 if i % 8 else 2, "mode": "hcmid", "maxn": 9000 if i % 8 else 70000} for i in range(max(nm, 2))]

def mid_worker(st, ctx):
    import ctypes
    from capi import Lib
    from vlib import Oracle
    st["midlib"] = Lib(ctx["midstate"]); st["midraw"] = ctypes.CDLL(ctx["midstate"]); st["mid"] = Oracle(name="mid")
    return st

def mid_history(st, rng, res, info, maxn, judge):
    """HC levels 1-2 (LZ4MID): fast-reset one-shot calls and destSize calls on one LZ4_streamHC_t, model == code after every
    call; judge(kind, src, cap, r, consumed, out) -> error string or None decides the property on every result"""
    import gens
    calls = []
    for _ in range(rng.choice([1, 2, 3, 5])):
        n = rng.choice([0, 1, 5, 12, 13, 14, 20, 100, 1000, 3000, 4096, 9000]) if maxn < 20000 else rng.choice([100, 3000, 20000, 65536 + 40, 70000])
        if rng.random() < 0.3:
            n = rng.randrange(0, min(maxn, 9000))
        kind = rng.choice(gens.KINDS)
        if maxn >= 20000 and n > 65536 and rng.random() < 0.6:
            kind = rng.choice(gens.FAR_KINDS)          # window-edge generators: distances 65533..65540, far runs
        src = gens.data(rng, kind, n)
        if calls and rng.random() < 0.5 and kind not in gens.FAR_KINDS:
            prev = calls[-1][1]
            src = (prev[:len(src) // 2] + src)[:n]
        b = bound(n)
        if rng.random() < 0.06:
            calls.append(("frn", struct.pack("<i", rng.choice([-1, -5, -2147483648, 0x7E000001, 2147483647])), rng.choice([0, 16, 100])))
        elif rng.random() < 0.3:
            calls.append(("ds", src, rng.choice([1, 2, 5, 12, 13, 20, n // 3 + 1, n // 2 + 7, b, rng.randrange(1, b + 2)])))
        else:
            calls.append(("fr", src, rng.choice([b, b, b + 5, max(0, b - 1), n // 2 + 4, rng.randrange(0, b + 2)])))
    level = rng.choice([1, 2])
    outs = run_mid_session(st, calls, res, info, level=level)
    for (kind, src, r, consumed, out), (_, _, cap) in zip(outs, calls):
        res["stats"]["variant_mid_" + kind] += 1
        err = judge(kind, src, cap, r, consumed, out)
        if err:
            res["fails"].append({"status": "prop_fail", "what": "LZ4MID (level %d, %s): %s" % (level, kind, err),
                                 "detail": dict(info, sizes=[len(c[1]) for c in calls], caps=[c[2] for c in calls])})
        if r > 0 and len(out) < consumed:
            res["keys"].add(key_of(src, "mid" + kind, level, len(out)))

def run_mid_case(st, case, judge):
    import random
    rng = random.Random(case["bseed"])
    res = new_res()
    for j in range(case["count"]):
        mid_history(st, rng, res, {"bseed": case["bseed"], "j": j, "mid": 1}, case["maxn"], judge)
    return finish(res, "hcmid")


# ------------------------------------------------------------------ hash-chain parser (HC levels 3-9) model vs code
CHAIN_LEVELS = [3, 4, 5, 6, 7, 8, 9, 9, 9, 0, -3, 10, 10, 11, 11, 12, 12, 12, 13, 100]     # 0 / negative = LZ4HC_CLEVEL_DEFAULT (9: pattern analysis on); > 12 = 12 (ultra)
CHAIN_CORR = ("Model.HcChainApi + Model.HcOptApi (LZ4HC_compress_hashChain, LZ4HC_compress_optimal, LZ4HC_FindLongerMatch, LZ4HC_InsertAndGetWiderMatch + one-shot HC entry points at levels 3-12 mixed, "
              "LZ4_compress_HC_destSize) == the real functions over call histories on one LZ4_streamHC_t (return value, consumed, bytes, "
              "hashTable, chainTable, nextToUpdate, end index, dirty flag, favorDecSpeed after every call)")
CHAIN_SEARCH_CORR = ("Model.HcChain.insertAndGetWiderMatch == LZ4HC_InsertAndGetWiderMatch called directly on a context with an external "
                     "dictionary segment, chainSwap / patternAnalysis / favorDecSpeed on and off (match offset, length, back, "
                     "hashTable, chainTable, nextToUpdate after every call)")

def chainstate_lib():
    """shared object with harness/c/hcchain.c (#includes lz4hc.c: field access + the static search function)"""
    from vlib import build_lib
    return build_lib("chainstate", wrappers=["hcchain.c"])

def parse_chain(a):
    t = a.split()
    if len(t) < 9 or not t[0].lstrip("-").isdigit():
        raise RuntimeError("chain oracle: " + a[:300])
    d = {"ret": int(t[0]), "consumed": int(t[1]), "len": int(t[2]), "md5": t[3]}
    for kv in t[4:]:
        if "=" in kv:
            k, v = kv.split("=", 1); d[k] = v
    return d

def _chain_sigs(raw):
    import ctypes
    from ctypes import c_int, c_void_p, c_uint, c_ulonglong
    if getattr(raw, "_chain_sigs_done", False):
        return
    raw.v_hcc_tables.restype = None; raw.v_hcc_tables.argtypes = [c_void_p, c_void_p, c_void_p]
    raw.v_hcc_end_index.restype = c_ulonglong; raw.v_hcc_end_index.argtypes = [c_void_p]
    raw.v_hcc_next_to_update.restype = c_uint; raw.v_hcc_next_to_update.argtypes = [c_void_p]
    raw.v_hcc_dirty.restype = c_int; raw.v_hcc_dirty.argtypes = [c_void_p]
    raw.v_hcc_fav.restype = c_int; raw.v_hcc_fav.argtypes = [c_void_p]
    raw.v_hcc_set_end_index.restype = None; raw.v_hcc_set_end_index.argtypes = [c_void_p, c_uint]
    raw.v_hcc_search_init.restype = None; raw.v_hcc_search_init.argtypes = [c_void_p, c_void_p, c_int, c_void_p, c_int]
    raw.v_hcc_search.restype = None
    raw.v_hcc_search.argtypes = [c_void_p, c_void_p] + [c_int] * 8 + [c_void_p]
    raw._chain_sigs_done = True

def _chain_state(raw, stbuf, hb, cb):
    import hashlib
    raw.v_hcc_tables(stbuf.p, hb.p, cb.p)
    return {"ht": hashlib.md5(hb.bytes()).hexdigest(), "ct": hashlib.md5(cb.bytes()).hexdigest(),
            "end": str(raw.v_hcc_end_index(stbuf.p)), "ntu": str(raw.v_hcc_next_to_update(stbuf.p)),
            "dirty": str(1 if raw.v_hcc_dirty(stbuf.p) else 0), "fav": str(1 if raw.v_hcc_fav(stbuf.p) else 0)}

def run_chain_session(st, calls, res, info):
    """calls: list of ("fr", src, cap, level) = LZ4_compress_HC_extStateHC_fastReset, ("ds", src, target, level) =
    LZ4_compress_HC_destSize, ("fav", f) = LZ4_favorDecompressionSpeed, ("setend", idx) = pretend idx bytes of history
    (field poke on both sides), executed on ONE LZ4_streamHC_t and on the extracted Model.HcChainApi (oracle `chain`,
    session context).  After every call: return value, consumed, output bytes, hashTable, chainTable, nextToUpdate,
    end index, dirty flag and favorDecSpeed must agree.  returns the list of (kind, src, cap, level, ret, consumed, out)."""
    from ctypes import c_int, byref
    lib = st["chainlib"]; raw = st["chainraw"]; orc = st["chain"]
    _chain_sigs(raw)
    stbuf = Buf(lib.sizeofStateHC(), data=bytes(lib.sizeofStateHC()))
    lib.initStreamHC(stbuf.p, stbuf.n)
    orc.ask("chaininit")
    hb = Buf(4 * 32768); cb = Buf(2 * 65536)
    outs = []
    for ci, call in enumerate(calls):
        kind = call[0]
        if kind == "fav":
            lib.favorDecompressionSpeed(stbuf.p, call[1]); orc.ask("chainfav", str(call[1])); continue
        if kind == "setend":
            raw.v_hcc_set_end_index(stbuf.p, call[1]); orc.ask("chainsetend", str(call[1])); continue
        _, src, cap, level = call
        n = len(src)
        srcb = Buf(n, data=src)
        dstb = Buf(max(cap, 0), fill=0xC3)
        sz = c_int(n)
        if kind == "fr":
            r = lib.compress_HC_extStateHC_fastReset(stbuf.p, srcb.p, dstb.p, n, cap, level)
            m = parse_chain(orc.ask("chainfr", hx(src), str(cap), str(level)))
            consumed = n
        else:
            r = lib.compress_HC_destSize(stbuf.p, srcb.p, dstb.p, byref(sz), cap, level)
            m = parse_chain(orc.ask("chainds", hx(src), str(cap), str(level)))
            consumed = sz.value
        out = dstb.bytes(r) if 0 < r <= cap else b""
        res["evals"] += 1
        res["stats"]["chain_" + kind] += 1
        cs = _chain_state(raw, stbuf, hb, cb)
        bad = None
        if m["ret"] != r:
            bad = "return value: model %d, code %d" % (m["ret"], r)
        elif r > 0 and (m["md5"] != md5(out) or (kind == "ds" and m["consumed"] != consumed)):
            bad = "output or consumed differ (code consumed=%d model=%d, code len %d model len %d)" % (consumed, m["consumed"], len(out), m["len"])
        else:
            diff = [k for k in ("ht", "ct", "ntu", "end", "dirty", "fav") if m[k] != cs[k]]
            if diff:
                bad = "context differs after the call in %s (model %s, code %s)" % (
                    ",".join(diff), " ".join("%s=%s" % (k, m[k]) for k in diff if k not in ("ht", "ct")),
                    " ".join("%s=%s" % (k, cs[k]) for k in diff if k not in ("ht", "ct")))
        if bad is None and r > 0 and int(m["hw"]) > cap and (kind == "ds" or cap < bound(n)):
            res["fails"].append({"status": "prop_fail", "what": "hash-chain model writes up to %s > capacity %d" % (m["hw"], cap),
                                 "detail": dict(info, call=ci, kind=kind, n=n, cap=cap, level=level)})
        if bad:
            res["fails"].append({"status": "corr_fail", "what": "hash-chain parser model/code disagree (call %d, %s, level %d): %s" % (ci, kind, level, bad),
                                 "detail": dict(info, call=ci, kind=kind, n=n, cap=cap, level=level,
                                                calls=[(c[0], c[1].hex() if len(c[1]) <= 300 else "len=%d md5=%s" % (len(c[1]), md5(c[1])), c[2], c[3]) if len(c) == 4 else c
                                                       for c in calls[:ci + 1]])})
            # the real code's result is still judged by the caller (the property does not depend on the model)
            outs.append((kind, src, cap, level, r, consumed, out))
            srcb.free(); dstb.free()
            break
        outs.append((kind, src, cap, level, r, consumed, out))
        srcb.free(); dstb.free()
    stbuf.free(); hb.free(); cb.free()
    return outs

def run_chain_search_session(st, rng, res, info):
    """direct calls of LZ4HC_InsertAndGetWiderMatch on a context with an external dictionary segment (possibly empty) and a
    prefix, at increasing positions, with look-back, chainSwap, patternAnalysis and favorDecSpeed drawn at random"""
    import ctypes
    lib = st["chainlib"]; raw = st["chainraw"]; orc = st["chain"]
    _chain_sigs(raw)
    kind = rng.choice(["runs", "period", "text", "twosym", "selfdict", "mixed", "runs", "zerorich"])
    dn = rng.choice([0, 0, 3, 4, 5, 40, 300, 2000])
    pn = rng.choice([40, 200, 1500, 4000])
    whole = gens.data(rng, kind, dn + pn)
    if rng.random() < 0.4 and dn >= 4:      # a run crossing the dictionary / prefix boundary
        b = bytes([rng.randrange(256)]); k1 = rng.randrange(1, min(dn, 40) + 1); k2 = rng.randrange(0, 40)
        whole = whole[:dn - k1] + b * (k1 + k2) + whole[dn + k2:]
        if rng.random() < 0.5 and pn > 200:
            q = rng.randrange(60, pn - 100); whole = whole[:dn + q] + b * 70 + whole[dn + q + 70:]
    whole = whole[:dn + pn]
    d, p = whole[:dn], whole[dn:]
    pn = len(p)
    if pn < 20:
        return
    stbuf = Buf(lib.sizeofStateHC(), data=bytes(lib.sizeofStateHC()))
    db = Buf(dn, data=d); pb = Buf(pn, data=p)
    level = rng.choice([3, 9, 12])
    raw.v_hcc_search_init(stbuf.p, db.p, dn, pb.p, level)
    orc.ask("ssinit", hx(d), hx(p))
    hb = Buf(4 * 32768); cb = Buf(2 * 65536)
    resb = (ctypes.c_int * 3)()
    high = pn - 5
    pos = 0
    k = 0
    while pos <= pn - 12 and k < 60:
        k += 1
        low = pos - rng.choice([0, 0, 0, 1, 2, 5, 17]) if rng.random() < 0.5 else pos
        low = max(0, low)
        swap = 1 if (low == pos and rng.random() < 0.5) else 0        # chainSwap asserts lookBackLength == 0
        pa = rng.choice([0, 1, 1]); fav = rng.choice([0, 0, 1])
        nb = rng.choice([1, 2, 4, 16, 64, 256])
        longest = rng.choice([3, 3, 4, 5, 8, 18])
        if pos - low + 0 > longest - 1 + 0 and low < pos:
            longest = max(longest, pos - low + 1)          # as the parser: the 2-byte pre-test reads at iLowLimit + longest - 1 >= ip - ... inside the source
        longest = min(longest, high - low) if high - low >= 3 else 3
        if longest < 1:
            break
        raw.v_hcc_search(stbuf.p, pb.p, pos, low, high, longest, nb, pa, swap, fav, resb)
        a = orc.ask("sssearch", str(pos), str(low), str(high), str(longest), str(nb), str(pa), str(swap), str(fav))
        res["evals"] += 1
        res["stats"]["chain_search"] += 1
        cs = _chain_state(raw, stbuf, hb, cb)
        t = a.split()
        bad = None
        if t[0] == "undef":
            bad = "model ran out of fuel"
        else:
            mm = dict(kv.split("=", 1) for kv in t[3:])
            if [int(t[0]), int(t[1]), int(t[2])] != [resb[0], resb[1], resb[2]]:
                bad = "match differs: model (off,len,back)=(%s,%s,%s), code (%d,%d,%d)" % (t[0], t[1], t[2], resb[0], resb[1], resb[2])
            elif (mm["ntu"], mm["ht"], mm["ct"]) != (cs["ntu"], cs["ht"], cs["ct"]):
                bad = "tables differ after the search (ntu model %s code %s)" % (mm["ntu"], cs["ntu"])
        if bad:
            res["fails"].append({"status": "corr_fail", "what": "LZ4HC_InsertAndGetWiderMatch model/code disagree: " + bad,
                                 "detail": dict(info, dict=d.hex() if dn <= 300 else "len=%d" % dn, prefix=p.hex() if pn <= 300 else "len=%d" % pn,
                                                pos=pos, low=low, high=high, longest=longest, nb=nb, pa=pa, swap=swap, fav=fav, level=level)})
            break
        if resb[1] > longest and swap == 0 and resb[0] > 0:
            res["keys"].add(key_of(whole, "search", pos, low, nb, pa, fav))
        pos += rng.choice([0, 1, 1, 2, 3, 7, max(1, resb[1] - 2)])
    stbuf.free(); db.free(); pb.free(); hb.free(); cb.free()


CHAIN_DICT_CORR = ("Model.HcChainDict.insertAndGetWiderMatch_dict == LZ4HC_InsertAndGetWiderMatch with dict == usingDictCtxHc called directly on a "
                   "fresh working stream with a dictionary context prepared by LZ4_loadDictHC at a hash-chain / optimal level or at an LZ4MID level "
                   "(cross-strategy) and attached; the dictionary context's hashTable and chainTable are read from the C state (match offset, length, "
                   "back, working hashTable, chainTable, nextToUpdate after every call)")

def run_chain_dict_session(st, rng, res, info):
    """LZ4HC_InsertAndGetWiderMatch(dict == usingDictCtxHc) on a working stream with an attached dictionary context"""
    import ctypes
    from ctypes import c_int, c_void_p
    lib = st["chainlib"]; raw = st["chainraw"]; orc = st["chain"]
    _chain_sigs(raw)
    raw.v_hcc_dict_init.restype = None; raw.v_hcc_dict_init.argtypes = [c_void_p, c_void_p, c_void_p, c_int, c_void_p, c_void_p, c_int]
    raw.v_hcc_dict_init.argtypes = [c_void_p, c_void_p, c_void_p, c_int, c_int, c_void_p, c_int]
    raw.v_hcc_search_dict.restype = None; raw.v_hcc_search_dict.argtypes = [c_void_p, c_void_p] + [c_int] * 8 + [c_void_p]
    kind = rng.choice(["runs", "period", "text", "twosym", "selfdict", "mixed", "zerorich"])
    dn = rng.choice([4, 5, 40, 300, 2000, 4096, 9000])
    pn = rng.choice([40, 200, 1500, 4000])
    whole = gens.data(rng, kind, dn + pn)
    if rng.random() < 0.5:      # the prefix repeats parts of the dictionary
        p0 = bytearray(whole[dn:])
        for _ in range(rng.choice([1, 3, 8])):
            l = rng.randrange(4, min(200, dn) + 1); a = rng.randrange(0, dn - l + 1); b = rng.randrange(0, max(1, pn - l))
            p0[b:b + l] = whole[a:a + l]
        whole = whole[:dn] + bytes(p0[:pn])
    d, p = whole[:dn], whole[dn:dn + pn]
    pn = len(p)
    if pn < 20:
        return
    dlevel = rng.choice([3, 5, 9, 9, 12, 2, 2])
    level = rng.choice([3, 9, 12])
    work = Buf(lib.sizeofStateHC(), data=bytes(lib.sizeofStateHC())); dst = Buf(lib.sizeofStateHC(), data=bytes(lib.sizeofStateHC()))
    db = Buf(dn, data=d); pb = Buf(pn, data=p)
    raw.v_hcc_dict_init(work.p, dst.p, db.p, dn, dlevel, pb.p, level)
    hb = Buf(4 * 32768); cb = Buf(2 * 65536)
    raw.v_hcc_tables(dst.p, hb.p, cb.p)
    orc.ask("dsinit", hx(d), hx(p), hb.bytes().hex(), cb.bytes().hex())
    resb = (ctypes.c_int * 3)()
    high = pn - 5
    pos = 0; k = 0
    while pos <= pn - 12 and k < 40:
        k += 1
        low = max(0, pos - rng.choice([0, 0, 1, 2, 5, 17])) if rng.random() < 0.4 else pos
        swap = 1 if (low == pos and rng.random() < 0.3) else 0
        pa = rng.choice([0, 1]); fav = rng.choice([0, 0, 1])
        nb = rng.choice([1, 2, 4, 16, 64, 256])
        longest = rng.choice([3, 3, 4, 5, 8, 18])
        if low < pos:
            longest = max(longest, pos - low + 1)
        longest = min(longest, high - low) if high - low >= 3 else 3
        if longest < 1:
            break
        raw.v_hcc_search_dict(work.p, pb.p, pos, low, high, longest, nb, pa, swap, fav, resb)
        a = orc.ask("dssearch", str(pos), str(low), str(high), str(longest), str(nb), str(pa), str(swap), str(fav))
        res["evals"] += 1
        res["stats"]["chain_dictsearch" + ("_mid" if dlevel <= 2 else "")] += 1
        cs = _chain_state(raw, work, hb, cb)
        t = a.split()
        bad = None
        if t[0] == "undef":
            bad = "model ran out of fuel"
        else:
            mm = dict(kv.split("=", 1) for kv in t[3:])
            if [int(t[0]), int(t[1]), int(t[2])] != [resb[0], resb[1], resb[2]]:
                bad = "match differs: model (off,len,back)=(%s,%s,%s), code (%d,%d,%d)" % (t[0], t[1], t[2], resb[0], resb[1], resb[2])
            elif (mm["ntu"], mm["ht"], mm["ct"]) != (cs["ntu"], cs["ht"], cs["ct"]):
                bad = "working tables differ after the search"
        if bad:
            res["fails"].append({"status": "corr_fail", "what": "LZ4HC_InsertAndGetWiderMatch (dictCtx) model/code disagree: " + bad,
                                 "detail": dict(info, dict=d.hex() if dn <= 300 else "len=%d" % dn, prefix=p.hex() if pn <= 300 else "len=%d" % pn,
                                                pos=pos, low=low, high=high, longest=longest, nb=nb, pa=pa, swap=swap, fav=fav, level=level, dlevel=dlevel)})
            break
        if resb[1] > longest and resb[0] > pos:       # a match reaching into the dictionary
            res["keys"].add(key_of(whole, "dictsearch", pos, low, nb, dlevel))
            res["stats"]["chain_dictsearch_hit"] += 1
        pos += rng.choice([0, 1, 1, 2, 3, 7, max(1, resb[1] - 2)])
    work.free(); dst.free(); db.free(); pb.free(); hb.free(); cb.free()

def chain_gen_cases(rng, tier, scale=1.0):
    nm = int({"quick": 18, "search": 40, "thorough": 120}[tier] * scale)
    return [{"bseed": rng.randrange(1 << 48), "count": 8 if i % 9 else 1, "mode": "hcchain", "maxn": 8000 if i % 9 else 70000} for i in range(max(nm, 3))]

def chain_worker(st, ctx):
    import ctypes
    from capi import Lib
    from vlib import Oracle
    st["chainlib"] = Lib(ctx["chainstate"]); st["chainraw"] = ctypes.CDLL(ctx["chainstate"]); st["chain"] = Oracle(name="chain")
    return st

def optwrap_data(rng, n):
    """aimed at the optimal parser's table limit (LZ4_OPT_NUM = 4096 positions) and `sufficient_len`: short matches followed,
    a few bytes later, by matches of 60..4300 bytes (long block copied again), overlapping candidates, runs"""
    out = bytearray(rng.randbytes(rng.choice([20, 200])))
    A = rng.randbytes(rng.choice([70, 130, 600, 3000, 4090, 4095, 4096, 4100, 4300]))
    out += A + rng.randbytes(rng.choice([5, 40]))
    while len(out) < n:
        r = rng.random()
        if r < 0.35:
            l = rng.choice([4, 5, 8, 18, 19, 36, 37, 60]); p = rng.randrange(0, len(out) - l); out += out[p:p + l]
        elif r < 0.6:
            k = rng.choice([64, 65, 128, 129, 2000, 4000, 4090, 4095, 4096, len(A)]); o = rng.randrange(0, max(1, len(A) - k + 1)); out += A[o:o + k]
        elif r < 0.75:
            out += bytes([rng.randrange(256)]) * rng.choice([5, 19, 40, 300, 4200])
        else:
            out += rng.randbytes(rng.choice([1, 2, 3, 12]))
    return bytes(out[:n])

def chain_history(st, rng, res, info, maxn, judge):
    """HC levels 3-9 (hash chain): fast-reset one-shot calls and destSize calls on one LZ4_streamHC_t (levels mixed, favorDecSpeed
    toggled, occasionally a context that has already indexed ~1 GB), model == code after every call;
    judge(kind, src, cap, level, r, consumed, out) -> error string or None decides the property on every result"""
    calls = []
    big = maxn >= 20000
    if rng.random() < 0.15:
        calls.append(("setend", rng.choice([1073741824 - 70000, 1073741824 - 2000, 1073741824, 1073741825, 1073741824 + 5000, 0x3FFF0000])))
    for _ in range(rng.choice([1, 2, 3]) if big else rng.choice([1, 2, 3, 5])):
        if rng.random() < 0.25:
            calls.append(("fav", rng.choice([0, 1])))
        if big:
            kind = rng.choice(gens.FAR_KINDS + ["period", "runs", "mixed"])
            n = rng.choice([65536 + 40, 70000, 66000])
        else:
            kind = rng.choice(gens.KINDS + ["runs", "period", "twosym"])
            n = rng.choice([0, 1, 5, 12, 13, 14, 20, 100, 1000, 3000, 4096, 8000])
            if rng.random() < 0.3:
                n = rng.randrange(0, min(maxn, 8000))
        src = gens.data(rng, kind, n)
        if not big and rng.random() < 0.2:
            n = rng.choice([5000, 9000, 14000]); src = optwrap_data(rng, n)
        if big and kind in gens.FAR_KINDS:
            src = src[:72000]
        n = len(src)
        prev = [c for c in calls if c[0] in ("fr", "ds")]
        if prev and rng.random() < 0.5:
            src = (prev[-1][1][:len(src) // 2] + src)[:n]
        b = bound(n)
        level = rng.choice(CHAIN_LEVELS)
        if rng.random() < 0.3:
            calls.append(("ds", src, rng.choice([1, 2, 5, 12, 13, 20, n // 3 + 1, n // 2 + 7, b, rng.randrange(1, b + 2)]), level))
        else:
            calls.append(("fr", src, rng.choice([b, b, b + 5, max(0, b - 1), n // 2 + 4, rng.randrange(0, b + 2)]), level))
    outs = run_chain_session(st, calls, res, info)
    for (kind, src, cap, level, r, consumed, out) in outs:
        res["stats"]["variant_chain_" + kind] += 1
        err = judge(kind, src, cap, level, r, consumed, out)
        if err:
            res["fails"].append({"status": "prop_fail", "what": "HC hash chain (level %d, %s): %s" % (level, kind, err),
                                 "detail": dict(info, sizes=[len(c[1]) for c in calls if len(c) == 4], caps=[c[2] for c in calls if len(c) == 4])})
        if r > 0 and len(out) < consumed:
            res["keys"].add(key_of(src, "chain" + kind, level, len(out)))

def chain_dest_sweep(st, rng, res, info, judge):
    """LZ4_compress_HC_destSize with EVERY target size in a window (the overflow epilogue `_dest_overflow` and the last-literals
    adjustment depend on exact byte counts), one small compressible input, one level; and the limitedOutput capacities around
    the full size"""
    kind = rng.choice(["runs", "period", "text", "twosym", "longmatch", "selfdict", "lit255", "mixed"])
    n = rng.choice([30, 60, 100, 200, 400, 700])
    src = gens.data(rng, kind, n)[:900]
    n = len(src); b = bound(n)
    level = rng.choice(CHAIN_LEVELS)
    lo = rng.randrange(1, max(2, b - 40)) if b > 90 else 1
    calls = [("ds", src, t, level) for t in range(lo, min(b + 2, lo + 90))]
    calls += [("fr", src, c, level) for c in sorted(set(rng.randrange(0, b + 1) for _ in range(12)))]
    outs = run_chain_session(st, calls, res, info)
    for (k, s_, cap, lvl, r, consumed, out) in outs:
        res["stats"]["variant_chain_sweep_" + k] += 1
        err = judge(k, s_, cap, lvl, r, consumed, out)
        if err:
            res["fails"].append({"status": "prop_fail", "what": "HC hash chain (level %d, %s, capacity/target %d of a sweep): %s" % (lvl, k, cap, err),
                                 "detail": dict(info, n=n, dkind=kind, level=lvl, cap=cap, src=src.hex() if n <= 400 else "len=%d" % n)})
            break
        if r > 0 and 0 < consumed < n:
            res["keys"].add(key_of(src, "chainsweep", lvl, cap))

def run_chain_case(st, case, judge):
    import random
    rng = random.Random(case["bseed"])
    res = new_res()
    for j in range(case["count"]):
        chain_history(st, rng, res, {"bseed": case["bseed"], "j": j, "chain": 1}, case["maxn"], judge)
        if case["maxn"] < 20000:
            run_chain_search_session(st, rng, res, {"bseed": case["bseed"], "j": j, "chainsearch": 1})
            run_chain_dict_session(st, rng, res, {"bseed": case["bseed"], "j": j, "chaindict": 1})
            if j % 4 == 0:
                chain_dest_sweep(st, rng, res, {"bseed": case["bseed"], "j": j, "chainsweep": 1}, judge)
    return finish(res, "hcchain")
