"""One-shot block compressor cases shared by C01 / C06 / C09 / C17: real library calls on
exact ASan buffers, the property oracles, and the correspondence with the Coq model
of the fast compressor (Model/Fast.v, Model/FastApi.v)."""
import random, ctypes, struct, hashlib, collections
from ctypes import c_int, byref
import gens, blk
from capi import Lib, Buf
from vlib import Oracle, hx, md5

ACCELS = [1, 1, 1, 2, 7, 0, -5, 65537, 70000, 100]
LEVELS = [1, 2, 3, 4, 6, 9, 10, 11, 12, 0, -1, 13]
MAXI = 0x7E000000

def bound(n):
    return 0 if n < 0 or n > MAXI else n + n // 255 + 16

def ctx_fields(stbuf):
    raw = stbuf.bytes(16384 + 32)
    cur, tt, ds = struct.unpack_from("<III", raw, 16400)
    return cur, tt, ds, md5(raw[:16384])

def parse_model(a):
    t = a.split()
    # ret consumed hw len md5 [hex] cur= tt= dictSize= tab=
    d = {"ret": int(t[0]), "consumed": int(t[1]), "hw": int(t[2]), "len": int(t[3]), "md5": t[4]}
    for x in t[5:]:
        if "=" in x:
            k, v = x.split("=")
            d[k] = v
    return d

def run_fast(st, variant, src, cap, accel, res, info, check_model=True):
    """variant: default | fast | ext (junk state) ; returns (ret, out)"""
    lib, orc = st["lib"], st["oracle"]
    n = len(src)
    srcb = Buf(n, data=src)
    dstb = Buf(max(cap, 0), fill=0xC3)
    stbuf = None
    if variant == "default":
        r = lib.compress_default(srcb.p, dstb.p, n, cap)
    elif variant == "fast":
        r = lib.compress_fast(srcb.p, dstb.p, n, cap, accel)
    else:
        stbuf = blk.junk_state(lib, "fast", info.get("junk", 1))
        r = lib.compress_fast_extState(stbuf.p, srcb.p, dstb.p, n, cap, accel)
    out = dstb.bytes(r) if 0 < r <= cap else b""
    res["evals"] += 1
    if check_model:
        m = parse_model(orc.ask("comp", "ext", hx(src), str(cap), str(accel if variant != "default" else 1)))
        bad = None
        if m["ret"] != r:
            bad = "return value: model %d, code %d" % (m["ret"], r)
        elif r > 0 and m["md5"] != md5(out):
            bad = "output bytes differ (ret=%d)" % r
        elif stbuf is not None:
            cur, tt, ds, tab = ctx_fields(stbuf)
            if (str(cur), str(tt), str(ds), tab) != (m["cur"], m["tt"], m["dictSize"], m["tab"]):
                bad = "context after the call differs: code cur=%d tt=%d dictSize=%d, model cur=%s tt=%s dictSize=%s, table %s" % (
                    cur, tt, ds, m["cur"], m["tt"], m["dictSize"], "same" if tab == m["tab"] else "differs")
        if bad is None and r > 0 and m["hw"] > (cap if cap < bound(n) else bound(n)):
            bad = "model high-water %d exceeds capacity" % m["hw"]
        if bad:
            res["fails"].append({"status": "corr_fail", "what": "fast compressor model/code disagree: " + bad,
                                 "detail": dict(info, variant=variant, cap=cap, accel=accel, n=n, src=src.hex() if n <= 400 else "len=%d" % n)})
    srcb.free(); dstb.free()
    if stbuf: stbuf.free()
    return r, out


def run_fr_history(st, srcs, params, res, info, check_model=True):
    """A history of LZ4_compress_fast_extState_fastReset calls on ONE state (initStream once):
    exact comparison with the model after every call; returns [(ret, out)]"""
    lib, orc = st["lib"], st["oracle"]
    stbuf = blk.junk_state(lib, "fast", info.get("junk", 1))
    lib.initStream(stbuf.p, stbuf.n)
    if check_model:
        orc.ask("ctxinit")
    outs = []
    for k, (src, (cap, accel)) in enumerate(zip(srcs, params)):
        n = len(src)
        srcb = Buf(n, data=src); dstb = Buf(max(cap, 0), fill=0xC3)
        r = lib.compress_fast_extState_fastReset(stbuf.p, srcb.p, dstb.p, n, cap, accel)
        out = dstb.bytes(r) if 0 < r <= cap else b""
        res["evals"] += 1
        if check_model:
            m = parse_model(orc.ask("fr", hx(src), str(cap), str(accel)))
            cur, tt, ds, tab = ctx_fields(stbuf)
            bad = None
            if m["ret"] != r:
                bad = "return value: model %d, code %d" % (m["ret"], r)
            elif r > 0 and m["md5"] != md5(out):
                bad = "output bytes differ (ret=%d)" % r
            elif (str(cur), str(tt), str(ds), tab) != (m["cur"], m["tt"], m["dictSize"], m["tab"]):
                bad = "context after call %d differs: code cur=%d tt=%d dictSize=%d, model cur=%s tt=%s dictSize=%s, table %s" % (
                    k, cur, tt, ds, m["cur"], m["tt"], m["dictSize"], "same" if tab == m["tab"] else "differs")
            if bad:
                res["fails"].append({"status": "corr_fail", "what": "fastReset history model/code disagree at call %d: %s" % (k, bad),
                                     "detail": dict(info, sizes=[len(x) for x in srcs], params=params)})
                check_model = False
        outs.append((r, out))
        srcb.free(); dstb.free()
    stbuf.free()
    return outs

def run_hc(st, variant, src, cap, level, res, info):
    lib = st["lib"]
    n = len(src)
    srcb = Buf(n, data=src)
    dstb = Buf(max(cap, 0), fill=0xC3)
    r = blk.compress(lib, variant, level, srcb, n, dstb, cap, info.get("junk", 1))
    out = dstb.bytes(r) if 0 < r <= cap else b""
    res["evals"] += 1
    srcb.free(); dstb.free()
    return r, out

def run_destsize(st, which, src, target, level, res, info, check_model=True):
    """which: fast | hc ; returns (ret, consumed, out)"""
    lib, orc = st["lib"], st["oracle"]
    n = len(src)
    srcb = Buf(n, data=src)
    dstb = Buf(max(target, 0), fill=0xC3)
    sz = c_int(n)
    if which == "fast":
        r = lib.compress_destSize(srcb.p, dstb.p, byref(sz), target)
    else:
        stbuf = blk.junk_state(lib, "hc", info.get("junk", 1))
        r = lib.compress_HC_destSize(stbuf.p, srcb.p, dstb.p, byref(sz), target, level)
        stbuf.free()
    out = dstb.bytes(r) if 0 < r <= target else b""
    res["evals"] += 1
    if which == "fast" and check_model:
        m = parse_model(orc.ask("comp", "dest", hx(src), str(target), "1"))
        bad = None
        if m["ret"] != r:
            bad = "return value: model %d, code %d" % (m["ret"], r)
        elif r > 0 and (m["md5"] != md5(out) or m["consumed"] != sz.value):
            bad = "output or consumed differ (code consumed=%d model=%d)" % (sz.value, m["consumed"])
        elif r > 0 and m["hw"] > target and target < bound(n):
            bad = "model high-water %d exceeds target %d" % (m["hw"], target)
        if bad:
            res["fails"].append({"status": "corr_fail", "what": "destSize model/code disagree: " + bad,
                                 "detail": dict(info, target=target, n=n, src=src.hex() if n <= 400 else "len=%d" % n)})
    srcb.free(); dstb.free()
    return r, sz.value, out

def hcemit_lib():
    """shared object with harness/c/hcemit.c (#includes lz4hc.c to reach the static LZ4HC_encodeSequence)"""
    from vlib import build_lib
    return build_lib("hcemit", wrappers=["hcemit.c"])

def run_hcemit(st, rng, res, info, L, ml, offset, limit, room):
    """one call of the real LZ4HC_encodeSequence vs the extracted model (Model.HcEmit):
    L literals, match length ml, `room` = oend - op; exact-size ASan destination"""
    import ctypes
    from ctypes import c_int, byref, c_void_p
    L4 = st["hcemit"]
    f = L4.v_hc_encodeSequence
    f.restype = c_int
    f.argtypes = [c_void_p, c_int, c_int, c_void_p, c_int, c_int, c_int, c_int, c_int,
                  ctypes.POINTER(c_int), ctypes.POINTER(c_int), ctypes.POINTER(c_int)]
    anchor = rng.choice([0, 3, 17])
    src = rng.randbytes(anchor + L + ml + 16)
    op0 = rng.choice([0, 1, 9])
    oend = op0 + room
    # the wild copy reads up to 7 bytes beyond the literals: give the source that slack (as the parsers do: MFLIMIT)
    srcb = Buf(len(src), data=src)
    dstsz = oend if limit else op0 + 1 + L // 255 + 1 + L + 8 + 2 + ml // 255 + 2 + 8
    dstb = Buf(max(dstsz, 1), fill=0xC3)
    nop, nip, nan = c_int(0), c_int(0), c_int(0)
    r = f(srcb.p, anchor + L, anchor, dstb.p, op0, ml, offset, 1 if limit else 0, oend, byref(nop), byref(nip), byref(nan))
    res["evals"] += 1
    got = dstb.bytes(nop.value - op0, op0) if nop.value >= op0 else b""
    tail = dstb.bytes()[max(nop.value, op0):]
    srcb.free(); dstb.free()
    m = st["oracle"].ask("hcemit", hx(src), str(anchor + L), str(anchor), str(op0), str(ml), str(offset), "1" if limit else "0", str(oend)).split()
    mret, mop, mhw, mlen, mmd5 = int(m[0]), int(m[1]), int(m[2]), int(m[3]), m[4]
    bad = None
    if mret != r:
        bad = "return code: model %d, code %d" % (mret, r)
    elif r == 0 and (mop != nop.value or mmd5 != md5(got)):
        bad = "bytes/op differ: model op %d, code op %d" % (mop, nop.value)
    elif r == 0 and (nip.value != anchor + L + ml or nan.value != nip.value):
        bad = "ip/anchor not advanced to the end of the match"
    if bad:
        res["fails"].append({"status": "corr_fail", "what": "LZ4HC_encodeSequence model/code disagree: " + bad,
                             "detail": dict(info, L=L, ml=ml, offset=offset, limit=limit, room=room)})
    if limit and mhw > oend:
        res["fails"].append({"status": "prop_fail", "what": "model high-water %d exceeds oend %d (theorem encodeSequence_cap contradicted?)" % (mhw, oend), "detail": info})
    return r

def new_res():
    return {"evals": 0, "fails": [], "keys": set(), "stats": collections.Counter()}

def finish(res, kind):
    out = []
    for f in res["fails"][:3]:
        f["nontrivial"] = True; f["kind"] = kind
        out.append(f)
    out.append({"status": "ok", "evals": res["evals"], "keys": sorted(res["keys"])[:3000], "kind": kind,
                "stats": dict(res["stats"]), "nontrivial": False})
    return out

def key_of(*parts):
    h = hashlib.sha1()
    for p in parts:
        h.update(p if isinstance(p, bytes) else str(p).encode()); h.update(b"|")
    return h.hexdigest()[:20]

# ------------------------------------------------------------------ LZ4MID (HC levels 1-2) model vs code
def midstate_lib():
    """shared object with harness/c/hcstate.c (field access to LZ4_streamHC_t for the LZ4MID correspondence)"""
    from vlib import build_lib
    return build_lib("midstate", wrappers=["hcstate.c"])

def parse_mid(a):
    t = a.split()
    if len(t) < 9 or not t[0].lstrip("-").isdigit():
        raise RuntimeError("mid oracle: " + a[:300])
    d = {"ret": int(t[0]), "consumed": int(t[1]), "len": int(t[2]), "md5": t[3]}
    for kv in t[4:]:
        if "=" in kv:
            k, v = kv.split("=", 1); d[k] = v
    return d

def run_mid_session(st, calls, res, info, level=2):
    """calls: list of ("fr", src, cap) = LZ4_compress_HC_extStateHC_fastReset, ("ds", src, target) = LZ4_compress_HC_destSize,
    executed on ONE LZ4_streamHC_t and on the extracted Model.HcMidApi (oracle `mid`, session context).
    After every call: return value, consumed, output bytes, both hash tables, end index and dirty flag must agree.
    returns the list of (kind, src, ret, consumed, out)."""
    import ctypes, hashlib
    from ctypes import c_int, byref, c_void_p, c_uint, c_ulonglong
    lib = st["midlib"]; raw = st["midraw"]; orc = st["mid"]
    raw.v_hc_mid_tables.restype = c_int; raw.v_hc_mid_tables.argtypes = [c_void_p, c_void_p]
    raw.v_hc_end_index.restype = c_ulonglong; raw.v_hc_end_index.argtypes = [c_void_p]
    raw.v_hc_dirty.restype = c_int; raw.v_hc_dirty.argtypes = [c_void_p]
    stbuf = Buf(lib.sizeofStateHC(), data=bytes(lib.sizeofStateHC()))
    lib.initStreamHC(stbuf.p, stbuf.n)
    orc.ask("midinit")
    tabs = Buf(4 * 32768)
    outs = []
    for ci, (kind, src, cap) in enumerate(calls):
        n = len(src)
        srcb = Buf(n, data=src)
        dstb = Buf(max(cap, 0), fill=0xC3)
        sz = c_int(n)
        if kind == "frn":
            # invalid size (negative / above LZ4_MAX_INPUT_SIZE) with a small valid source buffer: must return 0
            bad_n = struct.unpack("<i", src[:4])[0]
            srcb.free(); srcb = Buf(16, data=bytes(16)); n = 16
            r = lib.compress_HC_extStateHC_fastReset(stbuf.p, srcb.p, dstb.p, bad_n, cap, level)
            m = parse_mid(orc.ask("midfrn", str(bad_n), str(cap)))
            consumed = 0
            if r != 0:
                res["fails"].append({"status": "prop_fail", "what": "LZ4_compress_HC_extStateHC_fastReset(level %d) returned %d for srcSize %d" % (level, r, bad_n),
                                     "detail": dict(info, call=ci)})
        elif kind == "fr":
            r = lib.compress_HC_extStateHC_fastReset(stbuf.p, srcb.p, dstb.p, n, cap, level)
            m = parse_mid(orc.ask("midfr", hx(src), str(cap)))
            consumed = n
        else:
            r = lib.compress_HC_destSize(stbuf.p, srcb.p, dstb.p, byref(sz), cap, level)
            m = parse_mid(orc.ask("midds", hx(src), str(cap)))
            consumed = sz.value
        out = dstb.bytes(r) if 0 < r <= cap else b""
        res["evals"] += 1
        res["stats"]["mid_" + kind] += 1
        half = raw.v_hc_mid_tables(stbuf.p, tabs.p)
        t = tabs.bytes()
        h4 = hashlib.md5(t[:4 * half]).hexdigest(); h8 = hashlib.md5(t[4 * half:8 * half]).hexdigest()
        endi = raw.v_hc_end_index(stbuf.p); dirty = raw.v_hc_dirty(stbuf.p)
        bad = None
        if m["ret"] != r:
            bad = "return value: model %d, code %d" % (m["ret"], r)
        elif r > 0 and (m["md5"] != md5(out) or (kind == "ds" and m["consumed"] != consumed)):
            bad = "output or consumed differ (code consumed=%d model=%d, code len %d model len %d)" % (consumed, m["consumed"], len(out), m["len"])
        elif m["h4"] != h4 or m["h8"] != h8:
            bad = "hash tables differ after the call (%s)" % ("hash4" if m["h4"] != h4 else "hash8")
        elif int(m["end"]) != endi or int(m["dirty"]) != (1 if dirty else 0):
            bad = "context differs: end index model %s code %d, dirty model %s code %d" % (m["end"], endi, m["dirty"], dirty)
        elif r > 0 and int(m["hw"]) > cap and (kind == "ds" or cap < bound(n)):
            res["fails"].append({"status": "prop_fail", "what": "LZ4MID model writes up to %s > capacity %d" % (m["hw"], cap),
                                 "detail": dict(info, call=ci, kind=kind, n=n, cap=cap)})
        if bad:
            res["fails"].append({"status": "corr_fail", "what": "LZ4MID model/code disagree (call %d, %s): %s" % (ci, kind, bad),
                                 "detail": dict(info, call=ci, kind=kind, n=n, cap=cap, level=level,
                                                calls=[(k, s.hex() if len(s) <= 300 else "len=%d md5=%s" % (len(s), md5(s)), c) for (k, s, c) in calls[:ci + 1]])})
            srcb.free(); dstb.free()
            break
        outs.append((kind, src, r, consumed, out))
        srcb.free(); dstb.free()
    stbuf.free(); tabs.free()
    return outs


# ---- shared wiring: every check that claims a theorem about Model.HcMid runs the `mid` correspondence itself
MID_CORR = ("Model.HcMidApi (LZ4MID_compress + one-shot HC entry points at levels 1-2, LZ4_compress_HC_destSize) == the real functions over call "
            "histories on one LZ4_streamHC_t (return value, consumed, bytes, both hash tables, end index, dirty flag after every call)")

def mid_gen_cases(rng, tier, scale=1.0):
    nm = int({"quick": 16, "search": 40, "thorough": 120}[tier] * scale)
    return [{"bseed": rng.randrange(1 << 48), "count": 10 if i % 8 else 2, "mode": "hcmid", "maxn": 9000 if i % 8 else 70000} for i in range(max(nm, 2))]

def mid_worker(st, ctx):
    import ctypes
    from capi import Lib
    from vlib import Oracle
    st["midlib"] = Lib(ctx["midstate"]); st["midraw"] = ctypes.CDLL(ctx["midstate"]); st["mid"] = Oracle(name="mid")
    return st

def mid_history(st, rng, res, info, maxn, judge):
    """HC levels 1-2 (LZ4MID): fast-reset one-shot calls and destSize calls on one LZ4_streamHC_t, model == code after every
    call; judge(kind, src, cap, r, consumed, out) -> error string or None decides the property on every result"""
    import gens
    calls = []
    for _ in range(rng.choice([1, 2, 3, 5])):
        n = rng.choice([0, 1, 5, 12, 13, 14, 20, 100, 1000, 3000, 4096, 9000]) if maxn < 20000 else rng.choice([100, 3000, 20000, 65536 + 40, 70000])
        if rng.random() < 0.3:
            n = rng.randrange(0, min(maxn, 9000))
        kind = rng.choice(gens.KINDS)
        src = gens.data(rng, kind, n)
        if calls and rng.random() < 0.5:
            prev = calls[-1][1]
            src = (prev[:len(src) // 2] + src)[:n]
        b = bound(n)
        if rng.random() < 0.06:
            calls.append(("frn", struct.pack("<i", rng.choice([-1, -5, -2147483648, 0x7E000001, 2147483647])), rng.choice([0, 16, 100])))
        elif rng.random() < 0.3:
            calls.append(("ds", src, rng.choice([1, 2, 5, 12, 13, 20, n // 3 + 1, n // 2 + 7, b, rng.randrange(1, b + 2)])))
        else:
            calls.append(("fr", src, rng.choice([b, b, b + 5, max(0, b - 1), n // 2 + 4, rng.randrange(0, b + 2)])))
    level = rng.choice([1, 2])
    outs = run_mid_session(st, calls, res, info, level=level)
    for (kind, src, r, consumed, out), (_, _, cap) in zip(outs, calls):
        res["stats"]["variant_mid_" + kind] += 1
        err = judge(kind, src, cap, r, consumed, out)
        if err:
            res["fails"].append({"status": "prop_fail", "what": "LZ4MID (level %d, %s): %s" % (level, kind, err),
                                 "detail": dict(info, sizes=[len(c[1]) for c in calls], caps=[c[2] for c in calls])})
        if r > 0 and len(out) < consumed:
            res["keys"].add(key_of(src, "mid" + kind, level, len(out)))

def run_mid_case(st, case, judge):
    import random
    rng = random.Random(case["bseed"])
    res = new_res()
    for j in range(case["count"]):
        mid_history(st, rng, res, {"bseed": case["bseed"], "j": j, "mid": 1}, case["maxn"], judge)
    return finish(res, "hcmid")
