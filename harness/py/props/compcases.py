"""One-shot block compressor cases shared by C01 / C06 / C09 / C17: real library calls on
exact ASan buffers, the property oracles, and the correspondence with the Coq model
of the fast compressor (Model/Fast.v, Model/FastApi.v)."""
import random, ctypes, struct, hashlib, collections
from ctypes import c_int, byref
import gens, blk
from capi import Lib, Buf
from vlib import Oracle, hx, md5

ACCELS = [1, 1, 1, 2, 7, 0, -5, 65537, 70000, 100]
LEVELS = [1, 2, 3, 4, 6, 9, 10, 11, 12, 0, -1, 13]
MAXI = 0x7E000000

def bound(n):
    return 0 if n < 0 or n > MAXI else n + n // 255 + 16

def ctx_fields(stbuf):
    raw = stbuf.bytes(16384 + 32)
    cur, tt, ds = struct.unpack_from("<III", raw, 16400)
    return cur, tt, ds, md5(raw[:16384])

def parse_model(a):
    t = a.split()
    # ret consumed hw len md5 [hex] cur= tt= dictSize= tab=
    d = {"ret": int(t[0]), "consumed": int(t[1]), "hw": int(t[2]), "len": int(t[3]), "md5": t[4]}
    for x in t[5:]:
        if "=" in x:
            k, v = x.split("=")
            d[k] = v
    return d

def run_fast(st, variant, src, cap, accel, res, info, check_model=True):
    """variant: default | fast | ext (junk state) ; returns (ret, out)"""
    lib, orc = st["lib"], st["oracle"]
    n = len(src)
    srcb = Buf(n, data=src)
    dstb = Buf(max(cap, 0), fill=0xC3)
    stbuf = None
    if variant == "default":
        r = lib.compress_default(srcb.p, dstb.p, n, cap)
    elif variant == "fast":
        r = lib.compress_fast(srcb.p, dstb.p, n, cap, accel)
    else:
        stbuf = blk.junk_state(lib, "fast", info.get("junk", 1))
        r = lib.compress_fast_extState(stbuf.p, srcb.p, dstb.p, n, cap, accel)
    out = dstb.bytes(r) if 0 < r <= cap else b""
    res["evals"] += 1
    if check_model:
        m = parse_model(orc.ask("comp", "ext", hx(src), str(cap), str(accel if variant != "default" else 1)))
        bad = None
        if m["ret"] != r:
            bad = "return value: model %d, code %d" % (m["ret"], r)
        elif r > 0 and m["md5"] != md5(out):
            bad = "output bytes differ (ret=%d)" % r
        elif stbuf is not None:
            cur, tt, ds, tab = ctx_fields(stbuf)
            if (str(cur), str(tt), str(ds), tab) != (m["cur"], m["tt"], m["dictSize"], m["tab"]):
                bad = "context after the call differs: code cur=%d tt=%d dictSize=%d, model cur=%s tt=%s dictSize=%s, table %s" % (
                    cur, tt, ds, m["cur"], m["tt"], m["dictSize"], "same" if tab == m["tab"] else "differs")
        if bad is None and r > 0 and m["hw"] > (cap if cap < bound(n) else bound(n)):
            bad = "model high-water %d exceeds capacity" % m["hw"]
        if bad:
            res["fails"].append({"status": "corr_fail", "what": "fast compressor model/code disagree: " + bad,
                                 "detail": dict(info, variant=variant, cap=cap, accel=accel, n=n, src=src.hex() if n <= 400 else "len=%d" % n)})
    srcb.free(); dstb.free()
    if stbuf: stbuf.free()
    return r, out


def run_fr_history(st, srcs, params, res, info, check_model=True):
    """A history of LZ4_compress_fast_extState_fastReset calls on ONE state (initStream once):
    exact comparison with the model after every call; returns [(ret, out)]"""
    lib, orc = st["lib"], st["oracle"]
    stbuf = blk.junk_state(lib, "fast", info.get("junk", 1))
    lib.initStream(stbuf.p, stbuf.n)
    if check_model:
        orc.ask("ctxinit")
    outs = []
    for k, (src, (cap, accel)) in enumerate(zip(srcs, params)):
        n = len(src)
        srcb = Buf(n, data=src); dstb = Buf(max(cap, 0), fill=0xC3)
        r = lib.compress_fast_extState_fastReset(stbuf.p, srcb.p, dstb.p, n, cap, accel)
        out = dstb.bytes(r) if 0 < r <= cap else b""
        res["evals"] += 1
        if check_model:
            m = parse_model(orc.ask("fr", hx(src), str(cap), str(accel)))
            cur, tt, ds, tab = ctx_fields(stbuf)
            bad = None
            if m["ret"] != r:
                bad = "return value: model %d, code %d" % (m["ret"], r)
            elif r > 0 and m["md5"] != md5(out):
                bad = "output bytes differ (ret=%d)" % r
            elif (str(cur), str(tt), str(ds), tab) != (m["cur"], m["tt"], m["dictSize"], m["tab"]):
                bad = "context after call %d differs: code cur=%d tt=%d dictSize=%d, model cur=%s tt=%s dictSize=%s, table %s" % (
                    k, cur, tt, ds, m["cur"], m["tt"], m["dictSize"], "same" if tab == m["tab"] else "differs")
            if bad:
                res["fails"].append({"status": "corr_fail", "what": "fastReset history model/code disagree at call %d: %s" % (k, bad),
                                     "detail": dict(info, sizes=[len(x) for x in srcs], params=params)})
                check_model = False
        outs.append((r, out))
        srcb.free(); dstb.free()
    stbuf.free()
    return outs

def run_hc(st, variant, src, cap, level, res, info):
    lib = st["lib"]
    n = len(src)
    srcb = Buf(n, data=src)
    dstb = Buf(max(cap, 0), fill=0xC3)
    r = blk.compress(lib, variant, level, srcb, n, dstb, cap, info.get("junk", 1))
    out = dstb.bytes(r) if 0 < r <= cap else b""
    res["evals"] += 1
    srcb.free(); dstb.free()
    return r, out

def run_destsize(st, which, src, target, level, res, info, check_model=True):
    """which: fast | hc ; returns (ret, consumed, out)"""
    lib, orc = st["lib"], st["oracle"]
    n = len(src)
    srcb = Buf(n, data=src)
    dstb = Buf(max(target, 0), fill=0xC3)
    sz = c_int(n)
    if which == "fast":
        r = lib.compress_destSize(srcb.p, dstb.p, byref(sz), target)
    else:
        stbuf = blk.junk_state(lib, "hc", info.get("junk", 1))
        r = lib.compress_HC_destSize(stbuf.p, srcb.p, dstb.p, byref(sz), target, level)
        stbuf.free()
    out = dstb.bytes(r) if 0 < r <= target else b""
    res["evals"] += 1
    if which == "fast" and check_model:
        m = parse_model(orc.ask("comp", "dest", hx(src), str(target), "1"))
        bad = None
        if m["ret"] != r:
            bad = "return value: model %d, code %d" % (m["ret"], r)
        elif r > 0 and (m["md5"] != md5(out) or m["consumed"] != sz.value):
            bad = "output or consumed differ (code consumed=%d model=%d)" % (sz.value, m["consumed"])
        elif r > 0 and m["hw"] > target and target < bound(n):
            bad = "model high-water %d exceeds target %d" % (m["hw"], target)
        if bad:
            res["fails"].append({"status": "corr_fail", "what": "destSize model/code disagree: " + bad,
                                 "detail": dict(info, target=target, n=n, src=src.hex() if n <= 400 else "len=%d" % n)})
    srcb.free(); dstb.free()
    return r, sz.value, out

def new_res():
    return {"evals": 0, "fails": [], "keys": set(), "stats": collections.Counter()}

def finish(res, kind):
    out = []
    for f in res["fails"][:3]:
        f["nontrivial"] = True; f["kind"] = kind
        out.append(f)
    out.append({"status": "ok", "evals": res["evals"], "keys": sorted(res["keys"])[:3000], "kind": kind,
                "stats": dict(res["stats"]), "nontrivial": False})
    return out

def key_of(*parts):
    h = hashlib.sha1()
    for p in parts:
        h.update(p if isinstance(p, bytes) else str(p).encode()); h.update(b"|")
    return h.hexdigest()[:20]
