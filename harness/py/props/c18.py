"""C18 - compression contexts stay correct after any history of reuse.
Theorem side: Properties_C18.v (table_inv over arbitrary op lists, stale entries can never be used).
Tie: as C11.  Direct oracles (fast AND HC): every block of the history is decoded independently with only its legitimate
history (one-shot blocks: no history at all), so a match reaching into an earlier, unrelated input is rejected by the
independent decoder; inputs are laid out back to back and share content so that a stale entry would hit equal bytes."""
import random
import streamlib as sl
from vlib import build_lib

THEOREMS = ["C18_table_inv", "C18_table_inv_step", "C18_stale_skipped_oneshot", "C18_stale_skipped_stream", "C18_fastReset_any_state", "C18_history_roundtrip", "C18_hc_mid_reuse", "C18_hc_mid_step", "C18_hc_mid_fastReset", "C18_hc_mid_history", "C18_hc_chain_reuse", "C18_hc_chain_step", "C18_hc_chain_fastReset", "C18_hc_chain_history", "C18_hc_opt_reuse", "C18_hc_opt_step", "C18_hc_opt_fastReset", "C18_hc_opt_history"]
ORACLES = ["stream"]
CORRESPONDENCE = ["Model.HcOptStream = Model.HcTabStream (the streaming layer of HcChainStream, parametric in the block compressor) instantiated with the compressor of the level (LZ4HC_compress_hashChain 3-9, LZ4HC_compress_optimal 10-12 with nbSearches / targetLength / ultra / favorDecSpeed; LZ4_favorDecompressionSpeed; histories may change strategy chain <-> opt) == lib/lz4hc.c: return value, consumed, bytes, md5 of hashTable and chainTable, nextToUpdate, end/prefixStart/dictStart, dictLimit/lowLimit, level, dirty, favorDecSpeed, dictCtx null/non-null after EVERY mirrored call; level 10-12 calls on more than streamlib.OPT_MODEL_MAX input bytes are not mirrored (extracted optimal parser too slow): direct oracles, state re-imported afterwards",
                  "Model.HcChainStream (HC levels 3-9, the same API functions with their strat != lz4mid branches: LZ4HC_Insert in loadDictHC and setExternalDict, LZ4HC_clearTables, LZ4HC_compress_hashChain with nbSearches of the level, dictCtx copied / detached; histories that stay inside the hash-chain strategy) == lib/lz4hc.c: return value, consumed, bytes, md5 of the whole hashTable and of the chainTable, nextToUpdate, end/prefixStart/dictStart (arena addresses), dictLimit/lowLimit, level, dirty, dictCtx null/non-null after EVERY mirrored call; a change of strategy inside a history, levels >= 10 and the dictionary-context search LZ4HC_searchExtDict are outside the model (state re-imported afterwards)",
                  "Model.HcMidStream (HC levels 1-2: initStreamHC, resetStreamHC(_fast), setCompressionLevel, loadDictHC/LZ4MID_fillHTable, attach_HC_dictionary with the dictionary context copied / detached / searched in place (LZ4MID_searchExtDict = Model.HcMidDict), setExternalDict, overlap trimming, 2 GB reload, compress_HC_continue(_destSize), saveDictHC (fixes F17, F18), extStateHC(_fastReset)) == lib/lz4hc.c: return value, consumed, bytes, both LZ4MID hash tables, end/prefixStart/dictStart (arena addresses), dictLimit/lowLimit/nextToUpdate, level, dirty, dictCtx null/non-null after EVERY mirrored call; calls at levels >= 3 or searching a dictionary context whose stream is at a level >= 3 (LZ4MID_searchHCDict) are outside the model (state re-imported afterwards)",
                  "Model.FastStream / Model.FastApi (prepareTable reset conditions, fastReset one-shots, extState, destSize_extState, resetStream_fast, "
                  "streaming sessions, loadDict, attach, failed calls) == lib/lz4.c: return value, output bytes and whole public stream state after EVERY operation of the history"]
RULE = ("histories of 14..40 operations on ONE context: fast-reset one-shots of size classes {<4KB, 4KB..64KB+11 (16-bit table), >=65547 (32-bit table)}, "
        "LZ4_compress_fast_extState, LZ4_compress_destSize_extState, short streaming sessions after LZ4_resetStream_fast (plain / loadDict / attach), capacities forcing "
        "failures (15-20%), state injection next to 0xFFFF, 1 GB, 2 GB, 2^32; HC: LZ4_compress_HC_extStateHC_fastReset / _extStateHC at levels 2..10, "
        "LZ4_resetStreamHC_fast (also when dirty) + sessions with loadDictHC / attach_HC / level changes; abandoned sessions (attach on a cleared table, nothing or an empty input compressed, reset, dictionary-less session with dictionary-like content; run on the code alone and with the model); inputs placed back to back, sharing content, sometimes "
        "overwriting earlier inputs; non-trivial = an emitted block containing a match; distinct = distinct (source, block)")
TRUSTED = ["hand-written models Model/FastStream.v + Model/FastApi.v, tied by exact state comparison after every operation of every history",
           "HC context reuse (dirty flag, resetStreamHC_fast, init_internal) is not modelled in Coq: direct oracle only, plus the observable checks "
           "'non-positive result => dirty set' and 'resetStreamHC_fast clears dirty and dictCtx'"]
ASSUMPTIONS = ["64-bit little-endian target", "every failed call is followed by the documented reset (the state after a failure is documented as undefined)"]

def build(tier):
    return {"lib": build_lib("default"), "model": True}

def gen_cases(tier, seed):
    rng = random.Random(seed)
    n = {"quick": 48, "search": 160, "thorough": 300}[tier]
    cases = [{"bseed": 17, "kind": "corpus_F17", "arena": 1 << 18, "model": False},
             {"bseed": 18, "kind": "corpus_u16_cleared", "arena": 1 << 16, "model": False},
             {"bseed": 18, "kind": "corpus_u16_cleared", "arena": 1 << 16}]
    for i in range(n):
        fam = "f" if i % 3 < 2 else "h"
        big = i % 7 == 0
        cases.append({"bseed": rng.randrange(1 << 48), "kind": "reuse_" + fam, "fam": fam,
                      "p": {"levels": [1, 2, 2] if (fam == "h" and i % 4 == 0) else [3, 4, 6, 9] if (fam == "h" and i % 4 == 2) else [10, 11, 12, 5] if (fam == "h" and i % 4 == 1) else sl.HC_LEVELS_CHEAP, "nops": rng.choice([14, 25, 40]) if not big else 14, "pbig": 0.3 if big else 0.04, "pmid": 0.3 if big else 0.25,
                            "arena_in": 500000 if big else 300000},
                      "arena": (500000 if big else 300000) + 3 * sl.K64 + 8192, "mirror": False, "ring": i % 2 == 0})
    # attach, compress nothing (or an empty input) on a cleared table, reset, dictionary-less session with dictionary-like content:
    # first on the real code alone (the property oracle decides), then with the model
    k = {"quick": 3, "search": 12, "thorough": 12}[tier]
    ab = []
    for i in range(k):
        ab.append({"bseed": rng.randrange(1 << 48), "kind": "attach_abandoned_f", "fam": "f", "arena": 1 << 17, "model": False})
    for i in range(k):
        ab.append({"bseed": rng.randrange(1 << 48), "kind": "attach_abandoned_" + ("f" if i % 3 else "h"), "fam": "f" if i % 3 else "h", "arena": 1 << 17})
    cases = cases[:2] + ab + cases[2:]
    if tier == "search":
        # failing-input search: the real code alone, judged by the property oracles (a model mismatch would stop a script early)
        for c in cases:
            c["model"] = False
    return cases

worker_init = sl.worker_init

def run_case(st, case):
    if case["kind"] == "corpus_F17":
        return sl.run_scenario(st, case, lambda S, rng: sl.corpus_savedict_fresh(S, rng))
    if case["kind"].startswith("attach_abandoned"):
        return sl.run_scenario(st, case, lambda S, rng: sl.scen_attach_abandoned(S, rng, case["fam"], {}))
    if case["kind"] == "corpus_u16_cleared":
        return sl.run_scenario(st, case, lambda S, rng: sl.corpus_u16_cleared(S, rng))
    def fn(S, rng):
        sl.scen_reuse(S, rng, case["fam"], case["p"])
    return sl.run_scenario(st, case, fn)
