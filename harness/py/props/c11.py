"""C11 - streaming (linked-block) compression round-trips over every history.
Theorem side: Properties_C11.v (FastStream model of the streaming API of lz4.c).
Tie: every operation of every script is run on the real library and on the extracted model; return value,
output bytes and the whole public LZ4_stream_t state are compared after each operation.
Direct oracles on the real code (fast AND HC): each block decodes to its source with the decoder-side history
(independent decoder extracted from the Coq block specification; real decoders in the documented geometries)."""
import random
import streamlib as sl
from vlib import build_lib

THEOREMS = ["C11_fast_stream", "C11_continue_decodes", "C11_hist_prelude", "C11_hist_write_block", "C11_hist_saveDict", "C11_renorm", "C11_shift", "C11_hc_mid_stream", "C11_hc_mid_continue", "C11_hc_mid_decodes", "C11_hc_mid_write_block", "C11_hc_mid_saveDict", "C11_hc_chain_stream", "C11_hc_chain_continue", "C11_hc_chain_decodes", "C11_hc_chain_write_block", "C11_hc_chain_saveDict", "C11_hc_opt_stream", "C11_hc_opt_continue", "C11_hc_opt_decodes", "C11_hc_opt_write_block", "C11_hc_opt_saveDict"]
ORACLES = ["stream"]
CORRESPONDENCE = ["Model.HcOptStream = Model.HcTabStream (the streaming layer of HcChainStream, parametric in the block compressor) instantiated with the compressor of the level (LZ4HC_compress_hashChain 3-9, LZ4HC_compress_optimal 10-12 with nbSearches / targetLength / ultra / favorDecSpeed; LZ4_favorDecompressionSpeed; histories may change strategy chain <-> opt) == lib/lz4hc.c: return value, consumed, bytes, md5 of hashTable and chainTable, nextToUpdate, end/prefixStart/dictStart, dictLimit/lowLimit, level, dirty, favorDecSpeed, dictCtx null/non-null after EVERY mirrored call; level 10-12 calls on more than streamlib.OPT_MODEL_MAX input bytes are not mirrored (extracted optimal parser too slow): direct oracles, state re-imported afterwards",
                  "Model.HcChainStream (HC levels 3-9, the same API functions with their strat != lz4mid branches: LZ4HC_Insert in loadDictHC and setExternalDict, LZ4HC_clearTables, LZ4HC_compress_hashChain with nbSearches of the level, dictCtx copied / detached; histories that stay inside the hash-chain strategy) == lib/lz4hc.c: return value, consumed, bytes, md5 of the whole hashTable and of the chainTable, nextToUpdate, end/prefixStart/dictStart (arena addresses), dictLimit/lowLimit, level, dirty, dictCtx null/non-null after EVERY mirrored call; a change of strategy inside a history, levels >= 10 and the dictionary-context search LZ4HC_searchExtDict are outside the model (state re-imported afterwards)",
                  "Model.HcMidStream (HC levels 1-2: initStreamHC, resetStreamHC(_fast), setCompressionLevel, loadDictHC/LZ4MID_fillHTable, attach_HC_dictionary with the dictionary context copied / detached / searched in place (LZ4MID_searchExtDict = Model.HcMidDict), setExternalDict, overlap trimming, 2 GB reload, compress_HC_continue(_destSize), saveDictHC (fixes F17, F18), extStateHC(_fastReset)) == lib/lz4hc.c: return value, consumed, bytes, both LZ4MID hash tables, end/prefixStart/dictStart (arena addresses), dictLimit/lowLimit/nextToUpdate, level, dirty, dictCtx null/non-null after EVERY mirrored call; calls at levels >= 3 or searching a dictionary context whose stream is at a level >= 3 (LZ4MID_searchHCDict) are outside the model (state re-imported afterwards)",
                  "Model.FastStream (initStream, resetStream_fast, loadDict/loadDictSlow, attach_dictionary, renormDictT, compress_fast_continue, "
                  "compress_forceExtDict, saveDict, one-shot entry points) == lib/lz4.c: return value, output bytes, currentOffset, tableType, dictSize, "
                  "dictionary address, dictCtx null/non-null, md5 of the hash table, after EVERY operation; saveDict: saved bytes"]
RULE = ("op scripts (write bytes / compress block / saveDict / loadDict / reset / level or acceleration change / failed call then reset) over geometries "
        "{contiguous, ring 2M+{0,1,r}, ring with the documented wrap rule, double buffer, saveDict after every block (also saved right in front of the source), "
        "scattered placements incl. overlap of the front of the dictionary, ring started in its middle (first block not at offset 0, also across a reset) "
        "with a later block that starts below the first one and overwrites its oldest, tag-sharing bytes} x max block {16,100,1000,4096,5000,20000,65536,70000} x block sizes incl. 0 x family {fast, HC levels 1..12}; "
        "state injection moves currentOffset (fast) / dictLimit (HC) next to 0x80000000, 0x40000000, 2^32; "
        "non-trivial = an emitted block with at least one match reaching into the history before the block; distinct = distinct (source, block, history length)")
TRUSTED = ["hand-written model Model/FastStream.v of the streaming API of lib/lz4.c on top of Model/Fast.v, tied by exact state comparison after every operation",
           "HC streaming (lz4hc.c) at across a change lz4mid <-> other strategy and in the dictionary-context search of levels >= 3 is not modelled in Coq (levels 1-2: Model/HcMidStream.v, 3-9: Model/HcChainStream.v, 3-12 incl. chain <-> opt: Model/HcOptStream.v): for it the check is the direct oracle only (independent decoder extracted from the Coq block specification + real decoders)",
           "indices beyond 1 GB / 2 GB are reached by state injection into the public LZ4_stream_t / LZ4_streamHC_t (justified for the model by the shift lemma)"]
ASSUMPTIONS = ["64-bit little-endian target; real addresses >= 2^32 so that NULL + dictSize never aliases a buffer",
               "the caller respects the documented preconditions: the <=64 KB a stream designates as dictionary are unmodified when the next call starts "
               "(a new block may overwrite the FRONT of it; fast API: it must end strictly inside it), a failed call is followed by a reset"]

GEOS = ["contig", "ring", "ringdoc", "double", "save", "saveprefix", "scatter"]
MS = [16, 100, 1000, 4096, 5000, 20000, 65536, 70000]

def build(tier):
    return {"lib": build_lib("default"), "model": True}

def gen_cases(tier, seed):
    rng = random.Random(seed)
    # corpus: regression of fixed finding F17 (LZ4_saveDictHC on a stream that has not started), code alone then with the model
    cases = [{"bseed": 17, "kind": "corpus_F17", "arena": 1 << 18, "model": False}, {"bseed": 17, "kind": "corpus_F17", "arena": 1 << 18}]
    reps = {"quick": 1, "search": 3, "thorough": 4}[tier]
    for rep in range(reps):
        for fam in ("f", "h", "m", "c", "o"):     # m / c = HC restricted to the LZ4MID levels 1-2 / the hash-chain levels 3-9 (mirrored on Model.HcMidStream / Model.HcChainStream throughout)
            for geo in GEOS:
                for M in MS:
                    if fam == "o" and M > 1000:
                        continue      # o = levels 10-12 mixed with hash-chain levels, blocks small enough to be mirrored on Model.HcOptStream
                    if tier == "quick" and fam in ("h", "m", "c") and rng.random() < 0.6:
                        continue
                    big = M >= 20000
                    nb = rng.choice([6, 10]) if big else rng.choice([12, 25, 40])
                    if fam != "f" and big: nb = min(nb, 6)
                    c = {"bseed": rng.randrange(1 << 48), "kind": "stream_%s_%s" % (fam, geo), "fam": "f" if fam == "f" else "h", "geo": geo, "M": M, "nblocks": nb,
                         "p": {"pinject": 0.5 if M <= 5000 else 0.25, "pdict": 0.25, "pfail": 0.06,
                               "levels": [1, 2, 2] if fam == "m" else [10, 11, 12, 12, 4, 9] if fam == "o" else ([3, 4, 6, 9] if not big else [3, 4, 6]) if fam == "c" else sl.HC_LEVELS if not big else sl.HC_LEVELS_CHEAP}}
                    c["arena"] = sl.arena_need(geo, M, nb) + 2 * sl.K64 + 72000 + 4096
                    cases.append(c)
    for i in range({"quick": 6, "search": 10, "thorough": 30}[tier]):
        cases.append({"bseed": rng.randrange(1 << 48), "kind": "renorm_big", "fam": "f", "arena": 1 << 20})
    # ring buffers whose first block is not at ring offset 0: a later block starts below it and overwrites its oldest bytes
    for i in range({"quick": 18, "search": 60, "thorough": 120}[tier]):
        fam = "h" if i % 6 else "f"
        M = [256, 1024, 1024, 4096][i % 4]
        cases.append({"bseed": rng.randrange(1 << 48), "kind": "ring_midstart_" + fam, "fam": fam, "M": M,
                      "levels": [[2], [3], [6], [9], [10], [12], sl.HC_LEVELS][i % 7], "arena": 6 * M + 3 * sl.K64 + 8192})
    if tier == "thorough" :
        cases.append({"bseed": rng.randrange(1 << 48), "kind": "long_f", "fam": "f", "geo": "ring", "M": 4096, "nblocks": 3000,
                      "p": {"pinject": 1.0, "pdict": 0, "pfail": 0.0}, "arena": 400000, "p_realdec": 0.02})
    if tier == "thorough":
        for fam in ("f", "h"):
            cases.append({"bseed": rng.randrange(1 << 48), "kind": "real2g_" + fam, "fam": fam, "arena": (2 << 20) + 4096, "model": False,
                          "ring": False, "mirror": False})
    if tier == "search":
        # failing-input search: the real code alone, judged by the property oracles (a model mismatch would stop a script early)
        for c in cases:
            c["model"] = False
    return cases

worker_init = sl.worker_init

def run_case(st, case):
    if case["kind"] == "corpus_F17":
        return sl.run_scenario(st, case, lambda S, rng: sl.corpus_savedict_fresh(S, rng))
    if case["kind"].startswith("ring_midstart"):
        return sl.run_scenario(st, case, lambda S, rng: sl.scen_ring_midstart(S, rng, case["fam"], {"M": case["M"], "levels": case["levels"]}))
    if case["kind"] == "renorm_big":
        return sl.run_scenario(st, case, lambda S, rng: sl.scen_renorm_big(S, rng))
    if case["kind"].startswith("real2g"):
        return sl.run_scenario(st, case, lambda S, rng: sl.scen_real2g(S, rng, case["fam"]))
    def fn(S, rng):
        sl.scen_stream(S, rng, case["fam"], case["geo"], case["M"], case["nblocks"], case.get("p", {}))
    return sl.run_scenario(st, case, fn)
