"""C08 - frame decoding is memory-safe, chunking-independent and never falsely succeeds.
Theorem side: Properties_C08.v over Model.FrameD (stage machine of LZ4F_decompress).
Tie: per call (consumed, produced bytes, return value incl. exact error code / hint) of the extracted model
== the real LZ4F_decompress / _usingDict / getFrameInfo / headerSize, ASan build, exact-size buffers.
Direct oracles on the real code: same verdict and content under every chunking/capacity; complete => content ==
Spec.frame_decode (extracted) and consumed == the frame; header accepted <=> Spec.parse_desc accepts; progress."""
import random, hashlib, struct, collections, itertools, ctypes
import framedlib as F
import declib, gens
from capi import Buf, Prefs
from vlib import Oracle, build_lib, hx, md5

ORACLES = ["framed"]
THEOREMS = ["C08_header_iff", "C08_headerSize_spec", "C08_wf_invariant", "C08_staging_in_bounds", "C08_no_fuel_out",
            "C08_progress", "C08_reports_within_given", "C08_complete_sound_oneshot", "C08_complete_sound_oneshot_usingDict",
            "C08_chunking_sound", "C08_chunking_complete", "C08_chunking_reaches", "C08_chunking_independent",
            "C08_chunking_sound_usingDict", "C08_chunking_complete_usingDict", "C08_chunking_reaches_usingDict",
            "C08_ddict_rides_along", "C08_tmpOut_in_bounds", "C08_tmpOut_in_bounds_partial", "C08_op_okb_sound", "C08_dict_is_history_refuted"]
CORRESPONDENCE = ["FrameD.decompress / decompress_usingDict model == LZ4F_decompress(_usingDict): per call (consumed, produced, dst bytes, return value / error code)",
                  "FrameDDict (dd_decompress / dd_decompress_usingDict / dd_getFrameInfo) == the real dctx after every call: dict (NULL / tmpOutBuffer+offset / caller address), dictSize, tmpOut-tmpOutBuffer, tmpOutSize, tmpOutStart; plus the model's memory operations of the call satisfy ops_okb",
                  "FrameD.getFrameInfo / headerSize model == LZ4F_getFrameInfo / LZ4F_headerSize (consumed, return value, reported fields)"]
RULE = ("frames built from parts in Python (header fields x raw/compressed/empty blocks from an independent sequence encoder x block/content "
        "checksums x content size x dictID x dictionaries), liblz4-made frames for volume, mutations, ALL single-bit flips and ALL truncations of "
        "small frames, FLG/BD pairs (all 65536 in thorough, stratified in quick) with right and wrong header checksum, random bytes over small "
        "alphabets, skippable frames (16 magics, sizes 0..), multi-frame buffers with trailing bytes, linked blocks over >64KB; directed families: "
        "'recycle' (linked, > maxBlockSize+128KB of uncompressed blocks through small dst buffers, then far matches), 'maxblock' (stored block size == "
        "maxBlockSize staged through tmpIn, internal allocation sizes compared with the model), 'skipleak' (skipChecksums on frame k, checksum-only "
        "damage on frame k+1), 'infodict' (getFrameInfo then decompress_usingDict), 'infoskip' (getFrameInfo on a skippable frame, the rest through LZ4F_decompress in small pieces), 'ddstale' (replay of the witness of C08_dict_is_history_refuted: the real tmpOutBuffer bytes are read back); each byte string under "
        "chunkings {whole, 1-byte, header-splitting, random, hint-following} x capacities {1,7,bs-1,bs,large,random incl. 0/NULL} x skipChecksums x "
        "stableDst x {fresh exact dst per call, advancing window}. non-trivial = a session that got past the frame header (block or skippable stage); "
        "distinct = distinct (bytes, chunking, capacity policy, options)")
TRUSTED = ["hand-written model Model/FrameD.v of LZ4F_decompress & co, tied by the per-call comparison only",
           "block decoding inside the model is Spec.spec_decode (LZ4_decompress_safe_usingDict vs the spec is property C05); differences that stem only from it are classified (endcond: benign, offset 0: known finding F5)",
           "dictionary relocation inside tmpOutBuffer (LZ4F_updateDict, lz4frame.c:1530-1595, decode destination 1889-1962, flushOut, 'preserve history' 2084-2114): Model/FrameD.v abstracts it to 'history = last 64KB of dictionary ++ output'; Model/FrameDDict.v keeps the concrete fields (dict as NULL / tmpOutBuffer+offset / caller address, dictSize, tmpOut offset, tmpOutSize, tmpOutStart) and is tied to the real dctx after EVERY LZ4F_decompress call (fields read through harness/c/framed_peek.c; real dst / dictionary addresses given to the model); the oracle also evaluates the bounds check ops_okb (C08_op_okb_sound) on the memory operations of every call. Proved: function-level bounds (C08_tmpOut_in_bounds_partial) and their lift to every call of every API-conforming session (C08_tmpOut_in_bounds). NOT proved: that the last min(dictSize,64KB) bytes at dict are the history when a block is decoded (the literal statement about all dictSize bytes is refuted: C08_dict_is_history_refuted, replayed by the 'ddstale' cases); this remains covered by the correspondence runs only",
           "Model/FrameDDict.v: a tmpOutBuffer pointer never equals a caller pointer (the allocation is not adjacent to caller memory); on a decoding error the C code may already have moved tmpOut / trimmed the dictionary (the model leaves the bookkeeping untouched; contexts are not resumable after an error)",
           "XXH32 in the model is Spec.XXH32 (written from the xxHash specification)"]
ASSUMPTIONS = ["malloc succeeds", "callers do not continue on a context after an error without LZ4F_resetDecompressionContext (documented contract)",
               "content sizes below 2^64 bytes"]

def classify(r):
    if r.get("finding") == "F5":
        return "F5"
    return None

def build(tier):
    return {"lib": build_lib("framedpeek", wrappers=["framed_peek.c"]), "case_timeout": 600}

def gen_cases(tier, seed):
    rng = random.Random(seed)
    cases = []
    def add(kind, n, **kw):
        for _ in range(n):
            c = {"kind": kind, "bseed": rng.randrange(1 << 48)}
            c.update(kw)
            cases.append(c)
    if tier == "quick":
        add("valid", 40, frames=3, sessions=6)
        add("mutated", 30, frames=4, sessions=4)
        add("flips", 4)
        add("trunc", 4)
        add("random", 10, count=30)
        add("skip", 12)
        add("multi", 12)
        add("big", 6)
        add("lz4f", 10, frames=2, sessions=4)
        for i in range(8):
            cases.append({"kind": "flgbd", "bseed": rng.randrange(1 << 48), "pairs": "sample", "count": 160})
        add("corpus", 1)
        add("recycle", 2, bsid=4, ccrc=False, sessions=3)
        add("recycle", 1, bsid=4, ccrc=True, sessions=3)
        add("recycle", 1, bsid=4, small_blocks=True, sessions=3)
        add("maxblock", 1, bsid=4, raw=False, bcrc=True, sessions=3)
        add("ddstale", 1); add("ddstale", 2, rand=True)
        add("maxblock", 1, bsid=5, raw=False, bcrc=True, sessions=2)
        add("maxblock", 1, bsid=4, raw=True, bcrc=True, sessions=2)
        add("skipleak", 8)
        add("infodict", 6)
        add("infoskip", 4)
    elif tier == "search":
        add("valid", 60, frames=3, sessions=8)
        add("mutated", 60, frames=4, sessions=4)
        add("flips", 8)
        add("trunc", 6)
        add("random", 20, count=30)
        add("skip", 16)
        add("multi", 16)
        add("big", 10)
        add("lz4f", 16, frames=2, sessions=4)
        for i in range(16):
            cases.append({"kind": "flgbd", "bseed": rng.randrange(1 << 48), "pairs": "sample", "count": 200})
        add("corpus", 1)
        add("recycle", 6, bsid=4, sessions=4)
        add("recycle", 2, bsid=4, small_blocks=True, sessions=4)
        add("recycle", 1, bsid=5, sessions=3)
        for b in (4, 5):
            add("maxblock", 2, bsid=b, raw=False, bcrc=True, sessions=3)
            add("maxblock", 1, bsid=b, raw=True, bcrc=True, sessions=2)
        add("ddstale", 1); add("ddstale", 4, rand=True)
        add("skipleak", 30)
        add("infodict", 20)
        add("infoskip", 10)
    else:
        add("valid", 300, frames=3, sessions=10)
        add("mutated", 300, frames=4, sessions=5)
        add("flips", 40)
        add("trunc", 30)
        add("random", 80, count=40)
        add("skip", 60)
        add("multi", 80)
        add("big", 40)
        add("lz4f", 80, frames=2, sessions=5)
        for lo in range(0, 256, 4):
            cases.append({"kind": "flgbd", "bseed": rng.randrange(1 << 48), "pairs": "range", "flg_lo": lo, "flg_hi": lo + 4})
        add("corpus", 1)
        add("recycle", 24, bsid=4, sessions=4)
        add("recycle", 8, bsid=4, small_blocks=True, sessions=4)
        add("recycle", 6, bsid=5, sessions=4)
        add("recycle", 1, bsid=4, sessions=5, one=True)
        for b in (4, 5, 6, 7):
            for raw in (False, True):
                for bc in (True, False):
                    add("maxblock", 2 if b <= 5 else 1, bsid=b, raw=raw, bcrc=bc, sessions=4 if b <= 5 else 3, nomodel=(b >= 6))
        add("maxblock", 1, bsid=4, raw=False, bcrc=True, sessions=1, one=True)
        add("ddstale", 1); add("ddstale", 8, rand=True)
        add("skipleak", 100)
        add("infodict", 80)
        add("infoskip", 40)
    return cases

def worker_init(ctx):
    return {"lib": F.FLib(ctx["lib"]), "oracle": Oracle(name="framed")}

CAPS = ["1", "7", "bs-1", "bs", "large", "rand"]

class Acc:
    def __init__(self, kind):
        self.kind = kind; self.evals = 0; self.fails = []; self.keys = set(); self.stats = collections.Counter()
    def fail(self, status, what, detail, finding=None):
        d = {"status": status, "what": what, "detail": detail, "nontrivial": True, "kind": self.kind}
        if finding: d["finding"] = finding
        self.fails.append(d)
    def results(self):
        self.fails.sort(key=lambda f: 0 if f["status"] == "prop_fail" else 1)
        out = self.fails[:3]
        out.append({"status": "ok", "evals": self.evals, "keys": sorted(self.keys)[:3000], "kind": self.kind,
                    "stats": dict(self.stats), "nontrivial": False})
        return out

def session_params(rng, i, bs, big=False):
    """the session matrix, sampled: session 0 is always whole input / large capacity"""
    if i == 0:
        return {"chunking": "whole", "cap": "large", "skip": False, "stable": False, "contig": False, "dstnull": 0.0}
    caps = CAPS if not big else ["mid", "mid", "large", "bs", "bs-1"]
    if bs > 65536 and not big:
        ch = rng.choice(F.CHUNKINGS)
        return {"chunking": ch, "cap": rng.choice(caps if ch in ("whole", "hdr") else ["1", "7", "small"]), "skip": rng.random() < 0.3,
                "stable": rng.random() < 0.3, "contig": rng.random() < 0.25, "dstnull": rng.choice([0.0, 0.0, 0.0, 0.15])}
    return {"chunking": rng.choice(F.CHUNKINGS), "cap": rng.choice(caps), "skip": rng.random() < 0.3,
            "stable": rng.random() < 0.3, "contig": rng.random() < 0.25, "dstnull": rng.choice([0.0, 0.0, 0.0, 0.15])}

def one_session(st, acc, rng, data, p, bs=65536, hlen=7, dict_=None, multi=False, total_out=0):
    s = F.Session(st)
    if p["contig"]:
        s.cd.set_contig(total_out + 2 * bs + 70000 + 64 if p["cap"] in ("bs", "bs-1", "large") else total_out + 70000)
    cap = p["cap"]
    if p["chunking"] == "one" and len(data) > 3000:
        p = dict(p); p["chunking"] = "rand"      # keep long inputs cheap
    try:
        r = F.drive(s, rng, data, p["chunking"], cap, skip=p["skip"], stable=p["stable"], dict_=dict_, bs=bs, hlen=hlen,
                    multi=multi, dstnull_prob=p["dstnull"])
    finally:
        acc.evals += s.calls
        stage = None
        try:
            stage = s.md.state().split()[0]
        except Exception:
            pass
        s.free()
    acc.stats["sessions"] += 1
    for k, v in s.stages.items(): acc.stats["rest_" + k] += v
    acc.stats["calls"] += s.calls
    acc.stats["verdict_" + r["verdict"] + ("_%s" % F.ERR.get(r.get("code"), r.get("code")) if r["verdict"] == "error" else "")] += 1
    acc.stats["chunking_" + p["chunking"]] += 1
    acc.stats["cap_" + p["cap"]] += 1
    if stage: acc.stats["final_" + stage] += 1
    r["params"] = dict(p)
    return r

def detail(data, p, r, dict_=None, extra=None):
    d = {"data": data.hex() if len(data) <= 4000 else "len=%d md5=%s" % (len(data), md5(data)), "params": p,
         "verdict": r.get("verdict"), "what": r.get("what"), "code": r.get("code"), "pos": r.get("pos")}
    if dict_ is not None:
        d["dict"] = dict_.hex() if len(dict_) <= 2000 else "len=%d" % len(dict_)
    if extra: d.update(extra)
    return d

def check_sessions(st, acc, rng, data, nsess, bs=65536, hlen=7, dict_=None, expect=None, multi=False, total_out=0, mutated=False):
    """Run [data] through nsess sessions; all verdicts must agree; complete => equals the specification."""
    orc = st["oracle"]
    ref = None
    results = []
    big = total_out > 3000 or len(data) > 3000
    for i in range(nsess):
        p = session_params(rng, i, bs, big)
        r = one_session(st, acc, rng, data, p, bs, hlen, dict_, multi, total_out)
        v = r["verdict"]
        if v == "toolong":
            continue
        if r.get("corr") and not any(f["status"] == "corr_fail" for f in acc.fails):
            acc.fail("corr_fail", "model/code disagree: " + str(r["corr"]), detail(data, p, r, dict_))
        if v == "blockdec":
            acc.stats["blockdec_" + r["what"]] += 1
            if r["what"] == "F5":
                acc.fail("prop_fail", "frame with an offset-0 match accepted by the block decoder (known finding F5)", detail(data, p, r, dict_), finding="F5")
            return None
        if v in ("prop", "noprogress"):
            acc.fail("prop_fail", str(r["what"]), detail(data, p, r, dict_))
            return None
        # only the first frame's verdict is compared when not multi
        sig = (v, r.get("code"), r.get("pos") if v == "complete" else None, md5(r.get("out", b"")) if v == "complete" else None,
               tuple((a, md5(b)) for a, b in r["frames"]) if multi else None)
        if p["skip"]:
            # checksum errors may legitimately disappear with skipChecksums: compare only when both complete, or both fail otherwise
            results.append((p, r, sig))
        else:
            if ref is None:
                ref = (p, r, sig)
            elif sig != ref[2]:
                acc.fail("prop_fail", "verdict depends on chunking/capacity: %s vs %s" % (str(ref[2])[:120], str(sig)[:120]),
                         detail(data, p, r, dict_, {"ref_params": ref[0]}))
                return None
            results.append((p, r, sig))
        key = hashlib.sha1(data + repr(sorted(p.items())).encode() + (dict_ or b"")).hexdigest()
        if r.get("pos", 0) > hlen or len(r.get("frames", [])) > 0:
            acc.keys.add(key)
        # complete => specification
        if v == "complete" and not multi and len(data) >= 4 and (struct.unpack("<I", data[:4])[0] & 0xFFFFFFF0) == F.SKIP0:
            # skippable frame: magic, 4-byte size, that many bytes; no content
            if len(data) < 8 or r["pos"] != 8 + struct.unpack("<I", data[4:8])[0] or r["out"] != b"":
                acc.fail("prop_fail", "skippable frame not skipped exactly", detail(data, p, r, dict_))
                return None
        elif v == "complete" and not multi:
            sp = F.spec_frame(orc, data, dict_ or b"", skip=p["skip"])
            if sp is None:
                acc.fail("prop_fail", "frame reported complete but the specification rejects it", detail(data, p, r, dict_))
                return None
            ln, h, rest = sp
            if ln != len(r["out"]) or h != md5(r["out"]):
                acc.fail("prop_fail", "frame complete but content differs from the specification's decoding", detail(data, p, r, dict_))
                return None
            if len(data) - rest != r["pos"]:
                acc.fail("prop_fail", "frame complete but consumed %d bytes, the frame is %d bytes" % (r["pos"], len(data) - rest), detail(data, p, r, dict_))
                return None
            if expect is not None and r["out"] != expect:
                acc.fail("harness_error", "generator's content differs from decoded content", detail(data, p, r, dict_))
                return None
    # skip sessions vs reference: a complete reference must be complete with the same content under skipChecksums
    if ref is not None and ref[1]["verdict"] == "complete":
        for p, r, sig in results:
            if p["skip"] and sig != ref[2]:
                acc.fail("prop_fail", "skipChecksums changes the result of a valid frame: %s vs %s" % (str(ref[2])[:100], str(sig)[:100]), detail(data, p, r, dict_))
                return None
    if ref is not None and expect is not None and not mutated:
        if ref[1]["verdict"] != "complete":
            acc.fail("corr_fail", "valid frame (by construction) not decoded: %s %s" % (ref[1]["verdict"], ref[1].get("code")), detail(data, ref[0], ref[1], dict_))
    return ref

# ------------------------------------------------------------------ case kinds
def k_valid(st, acc, rng, case, mutated=False):
    for j in range(case["frames"]):
        dict_ = None
        if rng.random() < 0.3:
            dict_ = gens.data(rng, rng.choice(["random", "text", "runs"]), rng.choice([1, 7, 64, 300, 5000, 65536, 70000]))
        fr, content, meta = F.gen_frame(rng, dict_ or b"")
        data = fr
        if mutated:
            for _ in range(rng.choice([1, 1, 2])):
                data = F.mutate_frame(rng, data)
        else:
            if rng.random() < 0.3:
                data = fr + rng.randbytes(rng.choice([1, 4, 20]))      # trailing bytes are not consumed
        acc.stats["frame_" + ("indep" if meta["indep"] else "linked") + ("_bcrc" if meta["bcrc"] else "") + ("_ccrc" if meta["ccrc"] else "")] += 1
        for k in meta["kinds"]: acc.stats["block_" + k] += 1
        check_sessions(st, acc, rng, data, case["sessions"], F.BSIZE[meta["bsid"]], meta["hlen"], dict_,
                       expect=None if mutated else content, total_out=len(content), mutated=mutated)

def small_frame(rng):
    """a frame of a few dozen bytes with every optional field in play"""
    while True:
        fr, content, meta = F.gen_frame(rng, b"", bsid=4, nblocks=rng.choice([1, 2]), csize_mode=rng.choice(["none", "right"]),
                                        dictid=rng.choice([None, 7]))
        if len(fr) <= 70:
            return fr, content, meta

def k_flips(st, acc, rng, case):
    fr, content, meta = small_frame(rng)
    acc.stats["flip_frame_len_%d" % (len(fr) // 10 * 10)] += 1
    for i in range(len(fr) * 8):
        b = bytearray(fr); b[i // 8] ^= 1 << (i % 8)
        check_sessions(st, acc, rng, bytes(b), 2, 65536, meta["hlen"], None, mutated=True)
        if len(acc.fails) >= 3: return

def k_trunc(st, acc, rng, case):
    fr, content, meta = small_frame(rng)
    for n in range(len(fr)):
        ref = check_sessions(st, acc, rng, fr[:n], 2, 65536, meta["hlen"], None, mutated=True)
        if ref is not None and ref[1]["verdict"] == "complete":
            acc.fail("prop_fail", "a proper prefix (%d of %d bytes) of a frame is reported complete" % (n, len(fr)), {"data": fr.hex(), "n": n})
        if len(acc.fails) >= 3: return

ALPHA = [0x00, 0x01, 0x04, 0x22, 0x4D, 0x18, 0x40, 0x60, 0x64, 0x70, 0x80, 0xFF, 0x50, 0x2A]
def k_random(st, acc, rng, case):
    for j in range(case["count"]):
        n = rng.choice([0, 1, 3, 4, 5, 6, 7, 8, 11, 15, 19, 20, 30, 64])
        mode = rng.randrange(4)
        if mode == 0:
            data = rng.randbytes(n)
        elif mode == 1:
            data = bytes(rng.choice(ALPHA) for _ in range(n))
        elif mode == 2:
            data = struct.pack("<I", F.MAGIC) + bytes(rng.choice(ALPHA + [rng.randrange(256)]) for _ in range(n))
        else:
            data = F.header(indep=rng.random() < 0.5, bcrc=rng.random() < 0.5, ccrc=rng.random() < 0.5) + bytes(rng.choice(ALPHA + [rng.randrange(256)]) for _ in range(n))
        check_sessions(st, acc, rng, data, 3, 65536, 7, None, mutated=True)

def k_skip(st, acc, rng, case):
    """skippable frames: all 16 magics, sizes 0.., alone / leading / trailing"""
    k = rng.randrange(16)
    for size in [0, 1, 3, 4, 5, 17, rng.randrange(0, 400), rng.choice([5000, 70000])]:
        sk = F.skippable(k, rng.randbytes(size))
        k = (k + 1) % 16
        ref = check_sessions(st, acc, rng, sk + rng.randbytes(rng.choice([0, 3])), 4, 65536, 8, None, mutated=True)
        if ref is not None and (ref[1]["verdict"] != "complete" or ref[1]["pos"] != len(sk) or ref[1]["out"] != b""):
            acc.fail("prop_fail", "skippable frame of %d bytes not skipped exactly: %s pos=%s" % (len(sk), ref[1]["verdict"], ref[1].get("pos")), {"data": sk.hex()[:400]})
        # declared size larger than what is available: must ask for more, never complete
        cut = sk[:rng.randrange(0, len(sk))] if len(sk) else b""
        ref = check_sessions(st, acc, rng, cut, 2, 65536, 8, None, mutated=True)
        if ref is not None and ref[1]["verdict"] == "complete":
            acc.fail("prop_fail", "truncated skippable frame reported complete", {"data": cut.hex()[:400]})

def k_multi(st, acc, rng, case):
    """several frames (LZ4 and skippable) in one buffer: one frame per ret==0, boundaries exact"""
    parts = []; bounds = []; outs = []
    pos = 0
    dict_ = None
    for j in range(rng.choice([2, 3, 4])):
        if rng.random() < 0.35:
            p = F.skippable(rng.randrange(16), rng.randbytes(rng.choice([0, 1, 9, 100]))); c = b""
        else:
            p, c, meta = F.gen_frame(rng, b"")
        parts.append(p); pos += len(p); bounds.append(pos); outs.append(c)
    data = b"".join(parts)
    for i in range(4):
        p = session_params(rng, i, 65536)
        r = one_session(st, acc, rng, data, p, 65536, 7, None, multi=True, total_out=sum(map(len, outs)))
        v = r["verdict"]
        if v == "toolong": continue
        if r.get("corr") and not any(f["status"] == "corr_fail" for f in acc.fails):
            acc.fail("corr_fail", "model/code disagree: " + str(r["corr"]), detail(data, p, r))
        if v in ("prop", "noprogress"):
            acc.fail("prop_fail", str(r["what"]), detail(data, p, r)); return
        got = [(a, b) for a, b in r["frames"]]
        if v != "complete" or [a for a, b in got] != bounds or [b for a, b in got] != outs:
            acc.fail("prop_fail", "frames in one buffer not consumed one by one at their exact ends: got ends %s expected %s (verdict %s)" % (
                [a for a, b in got], bounds, v), detail(data, p, r)); return
        acc.keys.add(hashlib.sha1(data + repr(sorted(p.items())).encode()).hexdigest())

def k_big(st, acc, rng, case):
    """linked blocks whose total exceeds 64 KB (history must travel through tmpOutBuffer / dst), optional dictionary"""
    dict_ = None
    if rng.random() < 0.5:
        dict_ = gens.data(rng, rng.choice(["text", "random", "runs"]), rng.choice([100, 65536, 100000]))
    bsid = rng.choice([4, 4, 4, 5])
    fr, content, meta = F.gen_frame(rng, dict_ or b"", small=False, bsid=bsid, indep=rng.random() < 0.2, nblocks=rng.choice([3, 4, 6]))
    acc.stats["big_content_%dk" % (len(content) // 65536 * 64)] += 1
    for k in meta["kinds"]: acc.stats["block_" + k] += 1
    bs = F.BSIZE[bsid]
    ref = None
    for i in range(4):
        p = {"chunking": rng.choice(["whole", "rand", "hint", "hdr"]), "cap": rng.choice(["bs-1", "bs", "large", "mid", "mid"] if i else ["large"]),
             "skip": rng.random() < 0.2, "stable": rng.random() < 0.5, "contig": rng.random() < 0.5, "dstnull": 0.0}
        r = one_session(st, acc, rng, fr, p, bs, meta["hlen"], dict_, False, len(content))
        v = r["verdict"]
        if v == "toolong": continue
        if r.get("corr") and not any(f["status"] == "corr_fail" for f in acc.fails):
            acc.fail("corr_fail", "model/code disagree: " + str(r["corr"]), detail(fr, p, r, dict_))
        if v in ("prop", "noprogress"):
            acc.fail("prop_fail", str(r["what"]), detail(fr, p, r, dict_)); return
        if v != "complete" or r["out"] != content or r["pos"] != len(fr):
            acc.fail("prop_fail", "valid frame with linked blocks over 64KB decoded wrongly (%s, %d of %d bytes equal-length=%s)" % (
                v, len(r.get("out", b"")), len(content), len(r.get("out", b"")) == len(content)), detail(fr, p, r, dict_)); return
        acc.keys.add(hashlib.sha1(fr + repr(sorted(p.items())).encode()).hexdigest())

def k_recycle(st, acc, rng, case):
    """Directed: linked blocks, > maxBlockSize+128KB of output from uncompressed blocks received through SMALL
    destination buffers (the decoder's history lives in tmpOutBuffer and has to be recycled: LZ4F_updateDict,
    branch 'copy dst into tmp to complete dict'), then compressed blocks with far matches.  The content must not
    depend on the output capacity."""
    bsid = case.get("bsid", 4)
    bs = F.BSIZE[bsid]
    dict_ = None
    if rng.random() < 0.2:
        dict_ = gens.data(rng, "random", rng.choice([1000, 70000]))
    fr, content, meta = F.gen_recycle_frame(rng, bsid=bsid, ccrc=case.get("ccrc"), dict_=dict_ or b"",
                                            small_blocks=case.get("small_blocks", False))
    acc.stats["recycle_bsid%d_%s" % (bsid, "ccrc" if meta["ccrc"] else "noccrc")] += 1
    plans = [{"chunking": "whole", "cap": "large", "contig": False},
             {"chunking": "kb", "cap": rng.choice(["fix3000", "fix4096", "fix1000"]), "contig": False},
             {"chunking": "kb", "cap": "kb", "contig": rng.random() < 0.5},
             {"chunking": "hint", "cap": rng.choice(["fix4096", "kb", "fix20000"]), "contig": True}]
    if case.get("one"):
        plans.append({"chunking": "kb", "cap": "fix1", "contig": False})
    for p0 in plans[:case.get("sessions", 4)]:
        p = dict(p0); p.update({"skip": False, "stable": False, "dstnull": 0.0})
        s = F.Session(st, no_model=(p["cap"] == "fix1"))      # 1-byte destination: ~270k calls, real code only
        if p["contig"]:
            s.cd.set_contig(len(content) + 70000)
        try:
            r = F.drive(s, rng, fr, p["chunking"], p["cap"], skip=False, stable=False, dict_=dict_, bs=bs, hlen=meta["hlen"],
                        max_calls=400000 if p["cap"] == "fix1" else 8000)
        finally:
            acc.evals += s.calls
            s.free()
        acc.stats["sessions"] += 1; acc.stats["calls"] += s.calls
        acc.stats["cap_" + p["cap"]] += 1
        for k, v in s.stages.items(): acc.stats["rest_" + k] += v
        v = r["verdict"]
        if v == "toolong": continue
        det = detail(fr, p, r, dict_, {"meta": meta, "bseed": case["bseed"]})
        if v in ("prop", "noprogress"):
            acc.fail("prop_fail", str(r["what"]), det); return
        if v != "complete" or r["out"] != content or r["pos"] != len(fr):
            k = next((i for i, (a, b) in enumerate(zip(r.get("out", b""), content)) if a != b), None)
            acc.fail("prop_fail", "valid frame (linked, long run of uncompressed blocks, far matches) decoded wrongly with capacity policy %s: %s %s; "
                     "first wrong byte at %s of %d (a one-shot decode with a large buffer is correct: the result depends on the output capacity)" % (
                         p["cap"], v, F.ERR.get(r.get("code"), r.get("code")), k, len(content)), det); return
        if r.get("corr") and not any(f["status"] == "corr_fail" for f in acc.fails):
            acc.fail("corr_fail", "model/code disagree: " + str(r["corr"]), det)
        acc.keys.add(hashlib.sha1(fr + repr(sorted(p.items())).encode()).hexdigest())

def k_ddstale(st, acc, rng, case):
    """Directed replay of Proofs.FrameDDictProofs.wit_run (theorem C08_dict_is_history_refuted) on the real library:
    linked frame, bsid 4, a stored block of 61440 bytes then a block decoding to 10241 bytes; first call with the whole
    input and capacity 61441 (stableDst = 0).  Afterwards dict = tmpOutBuffer and dictSize = 61441 on both sides (the
    Session compares the bookkeeping), the bytes tmpOutBuffer[6145, 61441) are the history, tmpOutBuffer[0, 6145) are
    not (never written: stat ddstale_prefix_is_not_history), and the rest of the frame still decodes to the right content
    (the decoder only reaches back < 64 KB)."""
    blk2 = bytes([31, 97, 1, 0]) + b"\xff" * 40 + bytes([16, 80, 98, 98, 98, 98, 98])
    first = bytes([7]) * 61440 if not case.get("rand") else rng.randbytes(61440)
    tail = rng.randbytes(rng.choice([0, 5, 300]))
    content = first + b"a" * 10236 + b"bbbbb" + tail
    fr = F.header(4, False, False, None, False, None) + F.block(first, True, False) + F.block(blk2, False, False) \
         + (F.block(tail, True, False) if tail else b"") + struct.pack("<I", 0)
    s = F.Session(st)
    det = {"data": "len=%d md5=%s" % (len(fr), md5(fr)), "bseed": case["bseed"]}
    try:
        kind, info = s.call(fr, 61441)
        acc.evals += 1
        if kind != "ok":
            acc.fail("prop_fail", "ddstale first call: %s %s" % (kind, info), det); return
        cons, out, ret = info
        lib = st["lib"]
        if getattr(lib, "ddpeek", False) and hasattr(lib.L, "verif_dctx_tmpOutBuffer"):
            lib.L.verif_dctx_tmpOutBuffer.restype = ctypes.c_ulonglong; lib.L.verif_dctx_tmpOutBuffer.argtypes = [ctypes.c_void_p]
            dd = lib.ddstate(s.cd.ctx)
            acc.stats["ddstale_state_" + dd.replace(",", "_")] += 1
            if dd != "1,0,61441,61440,10241,1":
                acc.fail("corr_fail", "ddstale: bookkeeping after the witness call is %s, the model (wit_facts) has 1,0,61441,61440,10241,1" % dd, det); return
            tb = lib.L.verif_dctx_tmpOutBuffer(s.cd.ctx)
            got = ctypes.string_at(tb, 61441)
            if got[6145:] != content[6145:61441]:
                acc.fail("prop_fail", "ddstale: tmpOutBuffer[6145,61441) is not the history", det); return
            acc.stats["ddstale_prefix_is_history" if got[:6145] == content[:6145] else "ddstale_prefix_is_not_history"] += 1
        pos = cons; outb = bytes(out)
        for _ in range(50):
            if ret == 0 and pos >= len(fr): break
            kind, info = s.call(fr[pos:], rng.choice([100, 4096, 70000]))
            acc.evals += 1
            if kind != "ok":
                acc.fail("prop_fail", "ddstale later call: %s %s" % (kind, info), det); return
            cons, out, ret = info
            pos += cons; outb += bytes(out)
            if ret < 0: break
        if ret != 0 or outb != content:
            acc.fail("prop_fail", "ddstale: frame not decoded to its content (ret %d, %d bytes)" % (ret, len(outb)), det); return
        if s.corr:
            acc.fail("corr_fail", "model/code disagree: " + str(s.corr), det)
        acc.keys.add(hashlib.sha1(fr).hexdigest())
    finally:
        for k, v in s.stages.items(): acc.stats["rest_" + k] += v
        s.free()

def k_maxblock(st, acc, rng, case):
    """Directed: a block whose stored size equals the frame's maximum block size EXACTLY (the header check is
    `>`), compressed (hand-built: all literals) or uncompressed, with/without block checksum, fed in pieces so
    that block body + checksum are accumulated in the staging buffer tmpIn[maxBlockSize + 4]
    (theorem C08_staging_in_bounds is about this array; the library's allocation is exact under ASan)."""
    bsid = case.get("bsid", 4)
    maxb = F.BSIZE[bsid]
    raw = case.get("raw", False)
    bcrc = case.get("bcrc", True)
    ccrc = rng.random() < 0.5
    indep = rng.random() < 0.5
    if raw:
        data = rng.randbytes(maxb); content = data
    else:
        data, content = F.stored_max_block(rng, maxb)
    lead = b""; leadc = b""
    if rng.random() < 0.4:                      # a small block first
        leadc = rng.randbytes(rng.choice([1, 50, 3000])); lead = F.block(leadc, True, bcrc)
    hdr = F.header(bsid, indep, bcrc, None, ccrc, None)
    body = lead + F.block(data, raw, bcrc)
    fr = hdr + body + struct.pack("<I", 0) + (struct.pack("<I", F.xxh32(leadc + content)) if ccrc else b"")
    content = leadc + content
    bstart = len(hdr) + len(lead) + 4          # first byte of the block body
    bend = bstart + maxb                        # first byte after the body (block checksum, if any)
    acc.stats["maxblock_bsid%d_%s_%s" % (bsid, "raw" if raw else "comp", "bcrc" if bcrc else "nobcrc")] += 1
    step = max(3000, maxb // rng.choice([3, 5, 9]))
    plans = [("cuts", [bstart + rng.randrange(1, 200)] + list(range(bstart + step, bend, step)) + [bend + (2 if bcrc else 0)], "large", False),
             ("crc_cut", [len(hdr) + 2, bend + (rng.randrange(1, 4) if bcrc else -1)], rng.choice(["large", "bs", "kb"]), False),
             ("block_minus_1", [bstart, bend + (4 if bcrc else 0) - 1], "large", False),
             ("whole", "whole", "large", False)]
    if case.get("one"):
        plans.append(("one", "one", "large", True))          # 1-byte pieces: real code only (ASan, content)
    for name, chunking, cap, nomodel in plans[:case.get("sessions", 3)] + (plans[4:] if case.get("one") else []):
        nomodel = nomodel or case.get("nomodel", False)      # 1 MB / 4 MB blocks: real code only (ASan, content, progress)
        s = F.Session(st, no_model=nomodel)
        try:
            r = F.drive(s, rng, fr, chunking, cap, bs=maxb, hlen=len(hdr), max_calls=5000000 if nomodel else 8000)
        finally:
            acc.evals += s.calls
            s.free()
        acc.stats["sessions"] += 1; acc.stats["calls"] += s.calls; acc.stats["chunking_" + name] += 1
        for k, v in s.stages.items(): acc.stats["rest_" + k] += v
        det = {"data": "len=%d md5=%s" % (len(fr), md5(fr)), "bseed": case["bseed"], "bsid": bsid, "raw": raw, "bcrc": bcrc,
               "chunking": name, "cuts": chunking if isinstance(chunking, list) else None, "cap": cap, "verdict": r["verdict"], "code": r.get("code")}
        v = r["verdict"]
        if v in ("prop", "noprogress"):
            acc.fail("prop_fail", str(r["what"]), det); return
        if v != "complete" or r["out"] != content or r["pos"] != len(fr):
            acc.fail("prop_fail", "valid frame with a block of stored size == maxBlockSize (%s, chunking %s) not decoded: %s %s" % (
                "raw" if raw else "compressed", name, v, F.ERR.get(r.get("code"), r.get("code"))), det); return
        if r.get("corr") and not any(f["status"] == "corr_fail" for f in acc.fails):
            acc.fail("corr_fail", "model/code disagree: " + str(r["corr"]), det)
        acc.keys.add(hashlib.sha1(fr + name.encode()).hexdigest())

def lz4f_frame(st, rng, data, dict_id=0):
    lib = st["lib"]
    pr = Prefs()
    pr.blockSizeID = rng.choice([0, 4, 5, 6, 7]); pr.blockMode = rng.choice([0, 1]); pr.contentChecksumFlag = rng.choice([0, 1])
    pr.blockChecksumFlag = rng.choice([0, 1]); pr.contentSize = rng.choice([0, len(data)]); pr.dictID = rng.choice([0, 0, 77])
    pr.compressionLevel = rng.choice([0, 1, 3, 9, -3]); pr.autoFlush = rng.choice([0, 1])
    import ctypes
    bound = lib.F_compressFrameBound(len(data), ctypes.byref(pr))
    sb = Buf(len(data), data=data); db = Buf(bound)
    n = lib.F_compressFrame(db.p, bound, sb.p, len(data), ctypes.byref(pr))
    if lib.F_isError(n):
        sb.free(); db.free()
        raise RuntimeError("compressFrame failed")
    fr = db.bytes(n); sb.free(); db.free()
    bs = F.BSIZE[pr.blockSizeID or 4]
    return fr, bs

def k_lz4f(st, acc, rng, case):
    for j in range(case["frames"]):
        n = gens.size(rng, 200000)
        data = gens.data(rng, rng.choice(gens.KINDS), n)
        fr, bs = lz4f_frame(st, rng, data)
        mut = rng.random() < 0.3
        x = F.mutate_frame(rng, fr) if mut else fr
        ref = check_sessions(st, acc, rng, x, case["sessions"], bs, 7, None, expect=None if mut else data, total_out=len(data), mutated=mut)

def flgbd_pairs(rng, case):
    if case["pairs"] == "range":
        return [(f, b) for f in range(case["flg_lo"], case["flg_hi"]) for b in range(256)]
    ps = []
    for _ in range(case["count"]):
        r = rng.random()
        if r < 0.4:   # around the valid region
            f = 0x40 | rng.randrange(64); b = rng.choice([0x40, 0x50, 0x60, 0x70, 0x00, 0x10, 0x30, 0x80, 0xC0, 0x41, 0x4F, 0x78])
        elif r < 0.7:
            f = rng.randrange(256); b = rng.choice([0x40, 0x50, 0x60, 0x70])
        else:
            f = rng.randrange(256); b = rng.randrange(256)
        ps.append((f, b))
    return ps

def k_flgbd(st, acc, rng, case):
    """header acceptance: every (FLG, BD) with right and wrong header checksum, through LZ4F_getFrameInfo,
    LZ4F_headerSize and LZ4F_decompress, against the model and against Spec.parse_desc"""
    orc = st["oracle"]
    cd = F.CDctx(st["lib"]); md = F.MDctx(orc)
    for flg, bd in flgbd_pairs(rng, case):
        for wrong in (False, True):
            csize = rng.choice([0, 1, 5, 1 << 40])
            h = F.header(flg=flg, bd=bd, csize=csize, dictid=rng.randrange(1 << 32))
            if wrong:
                h = h[:-1] + bytes([(h[-1] + rng.randrange(1, 256)) & 255])
            tail = struct.pack("<I", 0) + (struct.pack("<I", F.xxh32(b"")) if flg & 4 else b"")
            pd = orc.ask("pdesc", hx(h[4:]))
            spec_ok = pd.startswith("ok")
            acc.evals += 3
            # the real code against the specification first, then against the model
            hs_c = cd.header_size(h)
            cd.reset(); md.reset()
            ci = cd.frame_info(h + tail); mi = md.frame_info(h + tail)     # same call sequence on both sides
            acc_c = ci[1] >= 0
            if spec_ok and hs_c != len(h):
                acc.fail("prop_fail", "LZ4F_headerSize = %d but the descriptor accepted by the specification is %d bytes" % (hs_c, len(h)), {"header": h.hex()}); break
            if acc_c != spec_ok:
                acc.fail("prop_fail", "header %s by LZ4F_getFrameInfo but %s by the specification (FLG=%02x BD=%02x, checksum %s)" % (
                    "accepted" if acc_c else "rejected", "accepted" if spec_ok else "rejected", flg, bd, "wrong" if wrong else "right"), {"header": h.hex()}); break
            if acc_c:
                if ci[0] != len(h):
                    acc.fail("prop_fail", "LZ4F_getFrameInfo consumed %d, header is %d bytes" % (ci[0], len(h)), {"header": h.hex()}); break
                want = "bsid=%d bmode=%d cc=%d ftype=0 csize=%d dictid=%d bc=%d" % ((bd >> 4) & 7, (flg >> 5) & 1, (flg >> 2) & 1,
                        csize if flg & 8 else 0, struct.unpack("<I", h[-5:-1])[0] if flg & 1 else 0, (flg >> 4) & 1)
                if ci[2] != want:
                    acc.fail("prop_fail", "LZ4F_getFrameInfo reports %s, header says %s" % (ci[2], want), {"header": h.hex()}); break
            cd.reset(); md.reset()
            s = F.Session(st, cd, md)
            r = F.drive(s, rng, h + tail, rng.choice(["whole", "one", "hdr"]), "7")
            ok_c = r["verdict"] == "complete"
            want_ok = spec_ok and not (flg & 8 and csize != 0)
            if ok_c != want_ok:
                acc.fail("prop_fail", "empty frame with FLG=%02x BD=%02x (checksum %s): decoder says %s %s, specification says %s" % (
                    flg, bd, "wrong" if wrong else "right", r["verdict"], r.get("code"), "valid" if want_ok else "invalid"), {"data": (h + tail).hex()}); break
            if r.get("corr"):
                acc.fail("corr_fail", "model/code disagree: " + str(r["corr"]), {"header": h.hex()}); break
            hs_m = int(orc.ask("hsize", "0", hx(h)))
            if hs_c != hs_m:
                acc.fail("corr_fail", "LZ4F_headerSize: code %d model %d" % (hs_c, hs_m), {"header": h.hex()}); break
            if ci != mi[:3]:
                acc.fail("corr_fail", "LZ4F_getFrameInfo: code %s model %s" % (ci, mi[:3]), {"header": h.hex()}); break
            acc.stats["hdr_" + ("accepted" if acc_c else "rejected_%s" % F.ERR.get(-ci[1], -ci[1]))] += 1
            if acc_c or wrong:
                acc.keys.add("flgbd_%02x_%02x_%d" % (flg, bd, wrong))
        if len(acc.fails) >= 3:
            break
    cd.free(); md.free()

def corpus():
    e = struct.pack("<I", 0)
    H = F.header
    big = F.block(b"x" * 5, True, False)
    return [
        ("empty_frame", H() + e, "complete"),
        ("empty_frame_ccrc", H(ccrc=True) + e + struct.pack("<I", F.xxh32(b"")), "complete"),
        ("empty_frame_ccrc_bad", H(ccrc=True) + e + struct.pack("<I", F.xxh32(b"") ^ 1), "error"),
        ("raw_block_size0", H() + struct.pack("<I", 0x80000000) + e, "complete"),
        ("raw_block_size0_bcrc", H(bcrc=True) + F.block(b"", True, True) + e, "complete"),
        ("block_one_over_max", H() + struct.pack("<I", 0x80010001) + b"\0" * 70000, "error"),
        ("block_exactly_max_raw", H() + F.block(b"q" * 65536, True, False) + e, "complete"),
        ("endmark_truncated", H() + e[:3], "incomplete"),
        ("csize_right", H(csize=5) + big + e, "complete"),
        ("csize_too_small", H(csize=4) + big + e, "error"),
        ("csize_too_large", H(csize=6) + big + e, "error"),
        ("csize_zero_declared", H(csize=0) + big + e, "complete"),
        ("bcrc_bad_raw", H(bcrc=True) + F.block(b"abcde", True, True, bad_crc=True) + e, "error"),
        ("bcrc_bad_comp", H(bcrc=True) + F.block(declib.enc_last(b"abcde"), False, True, bad_crc=True) + e, "error"),
        ("comp_block_decodes_over_max", H() + F.block(declib.enc_seq(b"a", 1, 70000) + declib.enc_last(b"bcdef"), False, False) + e, "error"),
        ("version_0", H(version=0) + e, "error"), ("version_2", H(version=2) + e, "error"),
        ("reserved_flg", H(resv=1) + e, "error"), ("reserved_bd_hi", H(bd_hi=1) + e, "error"), ("reserved_bd_low", H(bd_low=1) + e, "error"),
        ("bsid_3", H(bsid=3) + e, "error"), ("bsid_0", H(bsid=0) + e, "error"),
        ("legacy_magic", struct.pack("<I", 0x184C2102) + e * 3, "error"),
        ("skippable_then_garbage", F.skippable(3, b"abc") + b"zzz", "complete"),
    ]

def skip_asymmetry(st, acc, rng):
    """skipChecksums=1 skips the block checksum of uncompressed blocks but NOT of compressed blocks
    (lz4frame.c:1874-1886): pinned here against the model (Example C08_example_skip_asymmetry)"""
    e = struct.pack("<I", 0)
    for name, fr, want in [("compressed block, damaged block checksum, skipChecksums", F.header(bcrc=True) + F.block(declib.enc_last(b"abcde"), False, True, bad_crc=True) + e, "error"),
                           ("uncompressed block, damaged block checksum, skipChecksums", F.header(bcrc=True) + F.block(b"abcde", True, True, bad_crc=True) + e, "complete")]:
        for ch in ("whole", "one"):
            s = F.Session(st)
            r = F.drive(s, rng, fr, ch, "large", skip=True)
            acc.evals += s.calls
            s.free()
            if r.get("corr"):
                acc.fail("corr_fail", "model/code disagree on %s: %s" % (name, r["corr"]), {"data": fr.hex()}); return
            if r["verdict"] != want:
                acc.fail("corr_fail", "%s: the code now says %s (the model and the recorded behaviour: %s)" % (name, r["verdict"], want), {"data": fr.hex()}); return
def k_corpus(st, acc, rng, case):
    skip_asymmetry(st, acc, rng)
    for name, data, expect in corpus():
        ref = check_sessions(st, acc, rng, data, 6, 65536, 7, None, mutated=True)
        if ref is not None and ref[1]["verdict"] != expect:
            acc.fail("prop_fail", "corpus frame %s: verdict %s %s, expected %s" % (name, ref[1]["verdict"], ref[1].get("code"), expect), {"data": data.hex()[:600]})

def run_case(st, case):
    rng = random.Random(case["bseed"])
    kind = case["kind"]
    acc = Acc(kind)
    if kind == "valid": k_valid(st, acc, rng, case)
    elif kind == "mutated": k_valid(st, acc, rng, case, mutated=True)
    elif kind == "flips": k_flips(st, acc, rng, case)
    elif kind == "trunc": k_trunc(st, acc, rng, case)
    elif kind == "random": k_random(st, acc, rng, case)
    elif kind == "skip": k_skip(st, acc, rng, case)
    elif kind == "multi": k_multi(st, acc, rng, case)
    elif kind == "big": k_big(st, acc, rng, case)
    elif kind == "lz4f": k_lz4f(st, acc, rng, case)
    elif kind == "flgbd": k_flgbd(st, acc, rng, case)
    elif kind == "corpus": k_corpus(st, acc, rng, case)
    elif kind == "recycle": k_recycle(st, acc, rng, case)
    elif kind == "maxblock": k_maxblock(st, acc, rng, case)
    elif kind == "ddstale": k_ddstale(st, acc, rng, case)
    elif kind == "infodict":
        for j in range(5):
            ev, f = F.run_info_then_dict(st, rng)
            acc.evals += ev; acc.stats["infodict_runs"] += 1
            if f:
                acc.fail(f[0], f[1], f[2]); break
        else:
            acc.keys.add("infodict_%d" % case["bseed"])
    elif kind == "infoskip":
        for j in range(6):
            ev, f = F.run_info_then_skippable(st, rng)
            acc.evals += ev; acc.stats["infoskip_runs"] += 1
            if f:
                acc.fail(f[0], f[1], f[2]); break
        else:
            acc.keys.add("infoskip_%d" % case["bseed"])
    elif kind == "skipleak":
        for j in range(4):
            ev, f = F.run_skipleak(st, rng)
            acc.evals += ev; acc.stats["skipleak_runs"] += 1
            if f:
                acc.fail(f[0], f[1], f[2]); break
        else:
            acc.keys.add("skipleak_%d" % case["bseed"])
    else: raise ValueError(kind)
    return acc.results()
