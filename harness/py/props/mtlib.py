"""C13 shared machinery: builds of the real CLI (MT / ST / TSan / scheduler-shim variants),
the write-register driver, input files spanning many jobs, and small helpers."""
import os, random, hashlib, subprocess, tempfile, shutil, glob
import vlib
from vlib import REPO, ROOT, BUILD, build_exe

HC = os.path.join(ROOT, "harness", "c")
LIBS = ["lz4.c", "lz4hc.c", "lz4frame.c", "xxhash.c", "lz4file.c"]
PROGS = ["lz4cli.c", "lz4io.c", "bench.c", "lorem.c", "util.c", "timefn.c", "threadpool.c"]
XXH = "-DXXH_NAMESPACE=LZ4_"

def lib_srcs():
    return [os.path.join(REPO, "lib", f) for f in LIBS]

def cli_srcs():
    return [os.path.join(REPO, "programs", f) for f in PROGS] + lib_srcs()

def build_cli(mt=True, tsan=False):
    name = "lz4_mt" if mt else "lz4_st"
    flags = [XXH, "-DLZ4IO_MULTITHREAD=%d" % (1 if mt else 0)]
    libs = ["-lpthread"]
    if tsan:
        name += "_tsan"
        flags += ["-fsanitize=thread", "-fno-omit-frame-pointer"]
        libs = ["-fsanitize=thread", "-lpthread"]
    return build_exe(name, cli_srcs(), flags=flags, opt="-O2", libs=libs)

def build_wr_drv():
    srcs = [os.path.join(HC, "wr_drv.c")] + [os.path.join(REPO, "programs", f) for f in ("util.c", "timefn.c", "threadpool.c")] + lib_srcs()
    return build_exe("wr_drv", srcs, flags=[XXH, "-DLZ4IO_MULTITHREAD=1"], asan=True)

def run(cmd, timeout=120, inp=None, env=None):
    """returns (rc, stdout bytes, stderr text); rc = 'timeout' when the process had to be killed"""
    try:
        p = subprocess.run(cmd, input=inp, stdout=subprocess.PIPE, stderr=subprocess.PIPE, timeout=timeout, env=env)
        return p.returncode, p.stdout, p.stderr.decode("utf-8", "replace")
    except subprocess.TimeoutExpired as e:
        return "timeout", e.stdout or b"", (e.stderr or b"").decode("utf-8", "replace")

def sha(b):
    return hashlib.sha1(b).hexdigest()

def file_sha(path):
    h = hashlib.sha1()
    with open(path, "rb") as f:
        while True:
            b = f.read(1 << 22)
            if not b:
                break
            h.update(b)
    return h.hexdigest()

def gen_payload(rng, size, kind):
    """size bytes; 'random' is incompressible, 'text' compresses ~3x, 'mixed' alternates MB-sized regions,
    'zeros' exercises the sparse writer"""
    if kind == "random":
        return rng.randbytes(size)
    if kind == "zeros":
        return bytes(size)
    if kind == "text":
        words = [rng.randbytes(rng.randrange(2, 9)) for _ in range(500)]
        unit = b" ".join(rng.choice(words) for _ in range(40000))
        reps = size // len(unit) + 1
        out = bytearray()
        for i in range(reps):
            out += unit
            out += b"%d" % rng.randrange(1 << 30)
        return bytes(out[:size])
    out = bytearray()
    while len(out) < size:
        n = min(size - len(out), rng.randrange(1 << 19, 3 << 20))
        out += gen_payload(rng, n, rng.choice(["random", "text", "zeros", "text"]))
    return bytes(out)

class TmpDir:
    def __init__(self, tag="c13"):
        base = os.path.join(BUILD, "tmp")
        os.makedirs(base, exist_ok=True)
        self.d = tempfile.mkdtemp(prefix=tag + "_", dir=base)
    def __enter__(self):
        return self.d
    def __exit__(self, *a):
        shutil.rmtree(self.d, ignore_errors=True)

def build_shim():
    """the real CLI with threadpool.c's pthread operations routed to the scheduler shim and lz4io.c observed by the event hooks"""
    srcs = [os.path.join(REPO, "programs", f) for f in ("lz4cli.c", "bench.c", "lorem.c", "util.c", "timefn.c")] + \
           [os.path.join(HC, f) for f in ("threadpool_shim.c", "mt_hooks.c", "sched_shim.c")] + lib_srcs()
    # the header is not a compiled source: its hash goes into a flag so that a change rebuilds the cached binary
    return build_exe("lz4_shim", srcs, flags=[XXH, "-DLZ4IO_MULTITHREAD=1", "-I" + HC, "-DSHIM_H_HASH=\"%s\"" % vlib.file_hash([os.path.join(HC, "sched_shim.h")])], opt="-O2")

SHIM_RC = {97: "deadlock: no runnable thread (scheduler shim)", 95: "buffer ownership violated (event hooks)",
           96: "replayed schedule not enabled on the real code", 93: "step limit exceeded", 94: "scheduler shim internal error"}

def shim_env(mode="coop", seed=0, trace=None, picks=None, sched=None, weights=None, sticky=None, wake=None, perturb=None):
    env = dict(os.environ)
    for k in list(env):
        if k.startswith("SCHED_"):
            del env[k]
    env.pop("LD_PRELOAD", None)
    env["SCHED_MODE"] = mode
    env["SCHED_SEED"] = str(seed)
    env["SCHED_MAXSTEPS"] = "2000000"
    if trace: env["SCHED_TRACE"] = trace
    if picks: env["SCHED_PICKS"] = picks
    if sched: env["SCHED_FILE"] = sched
    if weights: env["SCHED_WEIGHTS"] = weights
    if sticky is not None: env["SCHED_STICKY"] = str(sticky)
    if wake: env["SCHED_WAKE"] = wake
    if perturb is not None: env["SCHED_PERTURB"] = str(perturb)
    return env
