"""Worker process: runs a shard of cases for one property (LD_PRELOAD=libasan)."""
import sys, os, json, importlib, traceback, signal, time
def main():
    job = json.load(open(sys.argv[1]))
    mod = importlib.import_module(job["pid"].lower())
    st = mod.worker_init(job["ctx"])
    out = open(job["out"], "w")
    per_case_timeout = job["ctx"].get("case_timeout", 300)
    ncpu = os.cpu_count() or 1
    t0 = [0.0]
    def on_alarm(sig, frm):
        # the limit is a wall-clock one; on an overloaded machine (load average above the number of CPUs) it is
        # stretched in proportion, up to 8x, so that a slow machine is not taken for a hang
        try:
            f = min(8.0, max(1.0, 2.0 * os.getloadavg()[0] / ncpu))
        except OSError:
            f = 1.0
        left = per_case_timeout * f - (time.time() - t0[0])
        if left > 1:
            signal.alarm(int(min(left, per_case_timeout)) + 1)
            return
        raise TimeoutError("case timeout")
    signal.signal(signal.SIGALRM, on_alarm)
    for case in job["cases"]:
        with open(job["cur"], "w") as f:
            json.dump(case, f)
        t0[0] = time.time()
        signal.alarm(per_case_timeout)
        try:
            rs = mod.run_case(st, case)
        except TimeoutError:
            signal.alarm(0)
            rs = {"status": "prop_fail", "what": "case did not terminate within %ds (wall clock %ds)" % (per_case_timeout, time.time() - t0[0]), "nontrivial": True, "kind": "timeout"}
            # the interrupted case may have left an oracle mid-answer: start from fresh oracles and libraries
            try:
                st = mod.worker_init(job["ctx"])
            except Exception:
                pass
        except Exception as e:
            rs = {"status": "harness_error", "what": traceback.format_exc()[-1500:], "kind": "harness_error"}
        signal.alarm(0)
        if isinstance(rs, dict):
            rs = [rs]
        for r in rs:
            r.setdefault("case", case)
            out.write(json.dumps(r) + "\n")
        out.flush()
    out.close()
    try:
        os.remove(job["cur"])
    except OSError:
        pass
    os._exit(0)
main()
