"""Worker process: runs a shard of cases for one property (LD_PRELOAD=libasan)."""
import sys, os, json, importlib, traceback, signal
def main():
    job = json.load(open(sys.argv[1]))
    mod = importlib.import_module(job["pid"].lower())
    st = mod.worker_init(job["ctx"])
    out = open(job["out"], "w")
    per_case_timeout = job["ctx"].get("case_timeout", 300)
    def on_alarm(sig, frm):
        raise TimeoutError("case timeout")
    signal.signal(signal.SIGALRM, on_alarm)
    for case in job["cases"]:
        with open(job["cur"], "w") as f:
            json.dump(case, f)
        signal.alarm(per_case_timeout)
        try:
            rs = mod.run_case(st, case)
        except TimeoutError:
            rs = {"status": "prop_fail", "what": "case did not terminate within %ds" % per_case_timeout, "nontrivial": True, "kind": "timeout"}
        except Exception as e:
            rs = {"status": "harness_error", "what": traceback.format_exc()[-1500:], "kind": "harness_error"}
        signal.alarm(0)
        if isinstance(rs, dict):
            rs = [rs]
        for r in rs:
            r.setdefault("case", case)
            out.write(json.dumps(r) + "\n")
        out.flush()
    out.close()
    try:
        os.remove(job["cur"])
    except OSError:
        pass
    os._exit(0)
main()
