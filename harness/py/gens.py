"""Seeded data and size generators shared by all checks (structured, mostly-valid inputs;
boundary sizes aimed at the case splits of the code and of the proofs)."""
import random

KINDS = ["random", "runs", "period", "text", "incompressible_tail", "barely", "twosym", "longmatch", "zerorich", "mixed", "lit255", "selfdict", "endgame"]
# kinds that need > 64 KB to make sense (used where the caller allows large inputs)
FAR_KINDS = ["distbound", "runsfar"]

def data(rng, kind, n):
    if n <= 0:
        return b""
    if kind == "random":
        return rng.randbytes(n)
    if kind == "runs":
        out = bytearray()
        while len(out) < n:
            out += bytes([rng.randrange(256)]) * rng.choice([1, 2, 3, 4, 5, 7, 8, 15, 16, 19, 20, 33, 270, 271, 274, 1000, 5000])
        return bytes(out[:n])
    if kind == "period":
        p = rng.choice([1, 2, 3, 4, 5, 6, 7, 8, 9, 15, 16, 17, 31, 32, 33, 255, 256, 4095, 4096, 4097, 65534, 65535, 65536, 65537])
        pat = rng.randbytes(p)
        return (pat * (n // p + 1))[:n]
    if kind == "text":
        words = [rng.randbytes(rng.randrange(2, 9)) for _ in range(rng.choice([8, 40, 200]))]
        out = bytearray()
        while len(out) < n:
            out += rng.choice(words) + b" "
        return bytes(out[:n])
    if kind == "incompressible_tail":
        k = rng.randrange(0, n + 1)
        return (b"ab" * n)[:k] + rng.randbytes(n - k)
    if kind == "barely":
        # random data with rare short repeats: matches of 4..6 bytes
        out = bytearray(rng.randbytes(n))
        for _ in range(n // 200 + 1):
            if n > 40:
                s = rng.randrange(0, n - 20); d = rng.randrange(s + 4, min(n - 6, s + 70000)) if s + 4 < n - 6 else None
                if d is not None:
                    l = rng.choice([4, 4, 5, 6, 8, 12])
                    out[d:d + l] = out[s:s + l]
        return bytes(out[:n])
    if kind == "twosym":
        return bytes(rng.choice(b"ab") for _ in range(n))
    if kind == "longmatch":
        # long literal runs / long matches whose length encodings straddle 255-multiples
        out = bytearray()
        while len(out) < n:
            ll = rng.choice([0, 1, 14, 15, 16, 269, 270, 271, 255 * 2 + 14, 255 * 2 + 15, 255 * 2 + 16])
            out += rng.randbytes(ll)
            ml = rng.choice([4, 18, 19, 20, 273, 274, 275, 255 * 3 + 18, 255 * 3 + 19, 255 * 3 + 20, 4096, 70000])
            if len(out) > 0:
                off = rng.choice([1, 2, 3, 4, 7, 8, 15, 16, 17, len(out)])
                off = min(off, len(out))
                for i in range(ml):
                    out.append(out[len(out) - off])
                    if len(out) >= n:
                        break
        return bytes(out[:n])
    if kind == "zerorich":
        out = bytearray(n)
        for _ in range(n // 5000 + 1):
            s = rng.randrange(0, n)
            l = rng.randrange(1, 300)
            out[s:s + l] = rng.randbytes(min(l, n - s))
        return bytes(out)
    if kind == "lit255":
        # literal runs whose length sits where x/255 and x>>8 (or x/256) differ, or on a length-byte boundary,
        # each followed by a match (so that the run is a sequence's literals, not the last run)
        crit = [255, 256, 257, 509, 510, 511, 512, 764, 765, 766, 767, 768, 1020, 1023, 1024, 1275, 2550, 5624, 5625, 5626, 5881]
        out = bytearray(rng.randbytes(rng.choice([0, 4, 12, 40])))
        while len(out) < n:
            ll = rng.choice(crit) if rng.random() < 0.8 else rng.choice([1, 14, 15, 16, 269, 270, 271])
            out += rng.randbytes(ll)
            ml = rng.choice([4, 5, 8, 18, 19, 20, 273, 274, 4096])
            off = max(1, min(len(out), rng.choice([1, 2, 4, 8, 16, 300])))
            for i in range(ml):
                out.append(out[len(out) - off])
        out += rng.randbytes(rng.choice([5, 12, 13, 40]))
        return bytes(out)
    if kind == "selfdict":
        # copies from every region of what came before (far and near offsets)
        out = bytearray(rng.randbytes(min(n, 64)))
        while len(out) < n:
            if rng.random() < 0.3:
                out += rng.randbytes(rng.randrange(1, 20))
            else:
                l = rng.randrange(4, 200)
                s = rng.randrange(0, len(out))
                out += out[s:s + l]
        return bytes(out[:n])
    if kind == "mixed":
        out = bytearray()
        while len(out) < n:
            k = rng.choice(["random", "runs", "period", "text", "twosym", "longmatch", "selfdict"])
            out += data(rng, k, min(n - len(out), rng.choice([10, 100, 1000, 10000, 70000])))
        return bytes(out[:n])
    if kind == "endgame":
        return _endgame(rng, n)
    if kind == "distbound":
        return _distbound(rng, n)
    if kind == "runsfar":
        return _runsfar(rng, n)
    raise ValueError(kind)


# ---- generator aimed at the end-of-block restrictions (MFLIMIT = 12, LASTLITERALS = 5) of every parser ----
def _endgame(rng, n):
    """incompressible body, then a tail of d in 10..14 bytes that starts with a key K: the first l1 in {4,5} bytes of K
    occur earlier followed by a different byte (short match at the tail start) and K[1:1+l2] occurs earlier preceded by a
    different byte (longer match one byte later) - the 'better match at ip+1' decisions then sit exactly on the last
    position a match may start at (seeded C06_4: LZ4MID's ip+1 re-test with `<=` instead of `<`)"""
    if n < 48:
        return rng.randbytes(n)
    d = rng.choice([10, 11, 12, 12, 12, 13, 14])
    l1 = rng.choice([4, 4, 5]); l2 = rng.choice([5, 6, 7, 8, 8, 10])
    K = bytearray(rng.randbytes(12))
    def other(b): return (b + 1 + rng.randrange(255)) % 256
    s1 = bytes(K[:l1]) + bytes([other(K[l1])])
    s2 = bytes([other(K[0])]) + bytes(K[1:1 + l2]) + bytes([other(K[(1 + l2) % 12])])
    tail = (bytes(K[:1 + l2]) + rng.randbytes(16))[:d]
    room = n - d - len(s1) - len(s2)
    if room < 3:
        return rng.randbytes(n)
    a = rng.randrange(0, room - 1); b = rng.randrange(0, room - a); c = room - a - b
    if rng.random() < 0.5:
        body = rng.randbytes(a) + s1 + rng.randbytes(b) + s2 + rng.randbytes(c)
    else:
        body = rng.randbytes(a) + s2 + rng.randbytes(b) + s1 + rng.randbytes(c)
    return body + tail


# ---- generators aimed at the LZ4_DISTANCE_MAX boundary (window edge of the match finders) ----
def _filler(rng, kind, n):
    if n <= 0: return b""
    if kind == "zero": return bytes(n)
    if kind == "period":
        per = rng.randbytes(rng.choice([1, 2, 3, 4, 7, 16, 100])); return (per * (n // len(per) + 1))[:n]
    if kind == "text":
        words = [rng.randbytes(rng.randrange(2, 9)) for _ in range(30)]
        out = bytearray()
        while len(out) < n: out += rng.choice(words) + b" "
        return bytes(out[:n])
    return rng.randbytes(n)

def distbound_at_start(rng, D=None):
    """the far segment W on the very first byte of the input, repeated at distance D (default: around LZ4_DISTANCE_MAX)"""
    return _distbound(rng, 0, at_start=True, dist=D)

def _distbound(rng, n, at_start=None, dist=None):
    """a segment W repeated at a distance exactly around LZ4_DISTANCE_MAX (65533..65540, 2^17), with little or much
    hash-table traffic in between (zero/periodic/text/random filler), optionally preceded by a short (4..6 byte)
    NEARER match that starts 1..2 bytes earlier, so that 'a better match at ip+1' paths see the far candidate"""
    # W at the very first byte of the input in a third of the cases: the candidate then sits exactly on the lowest index
    # of the window (the "withinStartDistance" decisions of the HC match finders, seeded C01_5)
    if at_start is None:
        at_start = rng.random() >= 0.65
    out = bytearray() if at_start else bytearray(rng.randbytes(rng.randrange(16, 3000)))
    for _ in range(rng.choice([1, 1, 2]) if dist is None else 1):
        D = dist if dist is not None else rng.choice([65533, 65534, 65535, 65535, 65536, 65536, 65536, 65537, 65538, 65540, 131071, 131072])
        L = rng.choice([8, 9, 12, 16, 20, 40, 72, 100, 1000])
        W = rng.randbytes(L)
        k = rng.choice([0, 1, 1, 1, 2]); sl = rng.choice([4, 4, 5, 6])
        lead = rng.randbytes(k)
        flen = D - L - k
        fill = bytearray(_filler(rng, rng.choice(["zero", "zero", "period", "text", "random"]), flen))
        if k and flen > 40:
            near = lead + W[:max(0, sl - k)]
            g = min(flen - len(near) - 1, rng.choice([12, 20, 300, 5000, 30000]))
            fill[flen - g:flen - g + len(near)] = near
        out += W + bytes(fill) + lead + W + rng.randbytes(rng.randrange(13, 400))
    return bytes(out)

def _runsfar(rng, n):
    """runs of one byte value whose starts are about one window (64 KB) apart, the later run longer:
    the window's lower edge cuts the earlier run (pattern-analysis paths of the HC match finder)"""
    n = max(n, 70000 + rng.randrange(0, 70000))
    out = bytearray(rng.randbytes(n))
    b = rng.randrange(256)
    l1 = rng.choice([8, 20, 100, 1000, 3000, 8000])
    p1 = rng.randrange(4, 2000)
    out[p1:p1 + l1] = bytes([b]) * l1
    gap = 65535 + rng.choice([-3, -1, 0, 1, 2, 4, l1 // 2, max(0, l1 - 5), l1 - 1, l1, l1 + 1])
    l2 = l1 + rng.choice([1, 4, 20, 500, 5000])
    p2 = p1 + gap
    if p2 + l2 + 20 < n:
        out[p2:p2 + l2] = bytes([b]) * l2
    if rng.random() < 0.5:
        # pattern of period 2 or 4 instead of a single byte
        per = bytes([rng.randrange(256) for _ in range(rng.choice([2, 4]))])
        out[p1:p1 + l1] = (per * (l1 // len(per) + 1))[:l1]
        if p2 + l2 + 20 < n:
            out[p2:p2 + l2] = (per * (l2 // len(per) + 2))[(gap % len(per)):][:l2]
    return bytes(out[:n])

BOUNDARY_SIZES = list(range(0, 21)) + [63, 64, 65, 255, 256, 270, 271, 4095, 4096, 4097,
    65535 - 12, 65535, 65536, 65536 + 11, 65536 + 12, 65547, 65548, 70000]

def size(rng, maxn):
    r = rng.random()
    if r < 0.35:
        return min(maxn, rng.choice(BOUNDARY_SIZES))
    if r < 0.6:
        return rng.randrange(0, min(maxn, 300) + 1)
    if r < 0.85:
        return rng.randrange(0, min(maxn, 5000) + 1)
    return rng.randrange(0, maxn + 1)

def small_alphabet_strings(alpha, maxlen):
    """all strings over alpha up to maxlen (exhaustive enumeration)"""
    import itertools
    for l in range(maxlen + 1):
        for t in itertools.product(alpha, repeat=l):
            yield bytes(t)
