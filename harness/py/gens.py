"""Seeded data and size generators shared by all checks (structured, mostly-valid inputs;
boundary sizes aimed at the case splits of the code and of the proofs)."""
import random

KINDS = ["random", "runs", "period", "text", "incompressible_tail", "barely", "twosym", "longmatch", "zerorich", "mixed", "lit255", "selfdict"]

def data(rng, kind, n):
    if n <= 0:
        return b""
    if kind == "random":
        return rng.randbytes(n)
    if kind == "runs":
        out = bytearray()
        while len(out) < n:
            out += bytes([rng.randrange(256)]) * rng.choice([1, 2, 3, 4, 5, 7, 8, 15, 16, 19, 20, 33, 270, 271, 274, 1000, 5000])
        return bytes(out[:n])
    if kind == "period":
        p = rng.choice([1, 2, 3, 4, 5, 6, 7, 8, 9, 15, 16, 17, 31, 32, 33, 255, 256, 4095, 4096, 4097, 65534, 65535, 65536, 65537])
        pat = rng.randbytes(p)
        return (pat * (n // p + 1))[:n]
    if kind == "text":
        words = [rng.randbytes(rng.randrange(2, 9)) for _ in range(rng.choice([8, 40, 200]))]
        out = bytearray()
        while len(out) < n:
            out += rng.choice(words) + b" "
        return bytes(out[:n])
    if kind == "incompressible_tail":
        k = rng.randrange(0, n + 1)
        return (b"ab" * n)[:k] + rng.randbytes(n - k)
    if kind == "barely":
        # random data with rare short repeats: matches of 4..6 bytes
        out = bytearray(rng.randbytes(n))
        for _ in range(n // 200 + 1):
            if n > 40:
                s = rng.randrange(0, n - 20); d = rng.randrange(s + 4, min(n - 6, s + 70000)) if s + 4 < n - 6 else None
                if d is not None:
                    l = rng.choice([4, 4, 5, 6, 8, 12])
                    out[d:d + l] = out[s:s + l]
        return bytes(out[:n])
    if kind == "twosym":
        return bytes(rng.choice(b"ab") for _ in range(n))
    if kind == "longmatch":
        # long literal runs / long matches whose length encodings straddle 255-multiples
        out = bytearray()
        while len(out) < n:
            ll = rng.choice([0, 1, 14, 15, 16, 269, 270, 271, 255 * 2 + 14, 255 * 2 + 15, 255 * 2 + 16])
            out += rng.randbytes(ll)
            ml = rng.choice([4, 18, 19, 20, 273, 274, 275, 255 * 3 + 18, 255 * 3 + 19, 255 * 3 + 20, 4096, 70000])
            if len(out) > 0:
                off = rng.choice([1, 2, 3, 4, 7, 8, 15, 16, 17, len(out)])
                off = min(off, len(out))
                for i in range(ml):
                    out.append(out[len(out) - off])
                    if len(out) >= n:
                        break
        return bytes(out[:n])
    if kind == "zerorich":
        out = bytearray(n)
        for _ in range(n // 5000 + 1):
            s = rng.randrange(0, n)
            l = rng.randrange(1, 300)
            out[s:s + l] = rng.randbytes(min(l, n - s))
        return bytes(out)
    if kind == "lit255":
        # incompressible with exact sizes around 255 multiples handled by caller; random here
        return rng.randbytes(n)
    if kind == "selfdict":
        # copies from every region of what came before (far and near offsets)
        out = bytearray(rng.randbytes(min(n, 64)))
        while len(out) < n:
            if rng.random() < 0.3:
                out += rng.randbytes(rng.randrange(1, 20))
            else:
                l = rng.randrange(4, 200)
                s = rng.randrange(0, len(out))
                out += out[s:s + l]
        return bytes(out[:n])
    if kind == "mixed":
        out = bytearray()
        while len(out) < n:
            k = rng.choice(["random", "runs", "period", "text", "twosym", "longmatch", "selfdict"])
            out += data(rng, k, min(n - len(out), rng.choice([10, 100, 1000, 10000, 70000])))
        return bytes(out[:n])
    raise ValueError(kind)

BOUNDARY_SIZES = list(range(0, 21)) + [63, 64, 65, 255, 256, 270, 271, 4095, 4096, 4097,
    65535 - 12, 65535, 65536, 65536 + 11, 65536 + 12, 65547, 65548, 70000]

def size(rng, maxn):
    r = rng.random()
    if r < 0.35:
        return min(maxn, rng.choice(BOUNDARY_SIZES))
    if r < 0.6:
        return rng.randrange(0, min(maxn, 300) + 1)
    if r < 0.85:
        return rng.randrange(0, min(maxn, 5000) + 1)
    return rng.randrange(0, maxn + 1)

def small_alphabet_strings(alpha, maxlen):
    """all strings over alpha up to maxlen (exhaustive enumeration)"""
    import itertools
    for l in range(maxlen + 1):
        for t in itertools.product(alpha, repeat=l):
            yield bytes(t)
