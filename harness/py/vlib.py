"""Shared machinery of the lz4 verification checks (build, oracle, workers, evidence)."""
import os, sys, json, hashlib, subprocess, time, fcntl, glob, shutil, random, re

ROOT = os.path.dirname(os.path.dirname(os.path.dirname(os.path.abspath(__file__))))
REPO = os.environ.get("VERIF_REPO", "/repo")
BUILD = os.path.join(ROOT, "_build")
COQ = os.path.join(ROOT, "coq")
NCPU = int(os.environ.get("VERIF_NCPU", "0")) or min(16, os.cpu_count() or 4)
ASAN_LIB = None

def log(*a):
    print(*a, file=sys.stderr, flush=True)

def sh(cmd, timeout=None, cwd=None, env=None, check=False, inp=None):
    p = subprocess.run(cmd, shell=isinstance(cmd, str), cwd=cwd, env=env, input=inp,
                       stdout=subprocess.PIPE, stderr=subprocess.STDOUT, timeout=timeout)
    out = p.stdout.decode("utf-8", "replace")
    if check and p.returncode != 0:
        raise RuntimeError("command failed (%d): %s\n%s" % (p.returncode, cmd, out[-4000:]))
    return p.returncode, out

class Lock:
    def __init__(self, name):
        os.makedirs(BUILD, exist_ok=True)
        self.path = os.path.join(BUILD, ".lock_" + name)
    def __enter__(self):
        self.f = open(self.path, "w")
        fcntl.flock(self.f, fcntl.LOCK_EX)
        return self
    def __exit__(self, *a):
        fcntl.flock(self.f, fcntl.LOCK_UN)
        self.f.close()

def file_hash(paths, extra=""):
    h = hashlib.sha1()
    h.update(extra.encode())
    for p in sorted(paths):
        h.update(p.encode())
        try:
            with open(p, "rb") as f:
                h.update(f.read())
        except OSError:
            h.update(b"<missing>")
    return h.hexdigest()[:16]

def repo_sources():
    return sorted(glob.glob(REPO + "/lib/*.[ch]") + glob.glob(REPO + "/programs/*.[ch]"))

# ---------------------------------------------------------------- C builds
def asan_lib():
    global ASAN_LIB
    if ASAN_LIB is None:
        ASAN_LIB = subprocess.check_output(["gcc", "-print-file-name=libasan.so"]).decode().strip()
    return ASAN_LIB

LIB_TUS = ["lz4.c", "lz4hc.c", "lz4frame.c", "xxhash.c", "lz4file.c"]

def build_lib(name="default", flags=(), asan=True, wrappers=(), opt="-O1"):
    """Compile /repo/lib (current working tree) + wrapper TUs into a shared object.
    Cached by content hash of all repo sources, wrappers and flags."""
    wr = [os.path.join(ROOT, "harness", "c", w) for w in wrappers]
    base = ["-g", opt, "-fPIC", "-DLZ4_VERIF", "-DXXH_NAMESPACE=LZ4_", "-I" + REPO + "/lib", "-I" + REPO + "/programs"]
    if asan:
        base += ["-fsanitize=address", "-fno-omit-frame-pointer"]
    base += list(flags)
    key = file_hash(repo_sources() + wr, " ".join(base) + name)
    d = os.path.join(BUILD, "c", name + "_" + key)
    so = os.path.join(d, "lib.so")
    with Lock("c_" + name):
        if os.path.exists(so):
            return so
        os.makedirs(d, exist_ok=True)
        # wrappers #include the .c they wrap; do not compile that TU twice
        wrapped = set()
        for w in wr:
            for m in re.finditer(r'#include "((?:lz4|lz4hc|lz4frame|lz4file|xxhash)\.c)"', open(w).read()):
                wrapped.add(m.group(1))
        tus = [os.path.join(REPO, "lib", t) for t in LIB_TUS if t not in wrapped] + wr
        procs = []
        objs = []
        for t in tus:
            o = os.path.join(d, os.path.basename(t) + ".o")
            objs.append(o)
            procs.append((t, subprocess.Popen(["gcc"] + base + ["-c", t, "-o", o],
                                              stdout=subprocess.PIPE, stderr=subprocess.STDOUT)))
        for t, p in procs:
            out, _ = p.communicate(timeout=600)
            if p.returncode != 0:
                raise RuntimeError("C build failed for %s:\n%s" % (t, out.decode()[-3000:]))
        rc, out = sh(["gcc", "-shared"] + (["-fsanitize=address"] if asan else []) + objs + ["-o", so + ".tmp", "-lpthread"])
        if rc != 0:
            raise RuntimeError("link failed:\n" + out[-3000:])
        os.rename(so + ".tmp", so)
        # keep the cache small: drop older builds of the same name
        for old in glob.glob(os.path.join(BUILD, "c", name + "_*")):
            if old != d:
                shutil.rmtree(old, ignore_errors=True)
    return so

def build_exe(name, sources, flags=(), asan=False, opt="-O1", libs=("-lpthread",)):
    base = ["-g", opt, "-DLZ4_VERIF", "-I" + REPO + "/lib", "-I" + REPO + "/programs"] + list(flags)
    if asan:
        base += ["-fsanitize=address", "-fno-omit-frame-pointer"]
    key = file_hash(repo_sources() + [s for s in sources], " ".join(base) + name)
    d = os.path.join(BUILD, "c", name + "_" + key)
    exe = os.path.join(d, name)
    with Lock("c_" + name):
        if os.path.exists(exe):
            return exe
        os.makedirs(d, exist_ok=True)
        procs, objs = [], []
        for i, t in enumerate(sources):
            o = os.path.join(d, "%d_%s.o" % (i, os.path.basename(t)))
            objs.append(o)
            procs.append((t, subprocess.Popen(["gcc"] + base + ["-c", t, "-o", o],
                                              stdout=subprocess.PIPE, stderr=subprocess.STDOUT)))
        for t, p in procs:
            out, _ = p.communicate(timeout=600)
            if p.returncode != 0:
                raise RuntimeError("C build failed for %s:\n%s" % (t, out.decode()[-3000:]))
        rc, out = sh(["gcc"] + (["-fsanitize=address"] if asan else []) + objs + ["-o", exe + ".tmp"] + list(libs))
        if rc != 0:
            raise RuntimeError("link failed:\n" + out[-3000:])
        os.rename(exe + ".tmp", exe)
        for old in glob.glob(os.path.join(BUILD, "c", name + "_*")):
            if old != d:
                shutil.rmtree(old, ignore_errors=True)
    return exe

# ---------------------------------------------------------------- Coq side
FORBIDDEN = re.compile(r"\b(Admitted|admit|Axiom|Axioms|Parameter|Parameters|Conjecture|Hypothesis|Variable)\b|Unset\s+Guard|bypass_check|type-in-type|impredicative-set|Admit Obligations")
ALLOWED_AXIOMS = {
    "functional_extensionality_dep", "proof_irrelevance", "JMeq_eq", "eq_rect_eq", "classic",
    "Eqdep.Eq_rect_eq.eq_rect_eq", "FunctionalExtensionality.functional_extensionality_dep",
}

def coq_audit():
    """No Admitted/admit/Axiom/... anywhere; Variable/Hypothesis only inside a Section."""
    bad = []
    for p in sorted(glob.glob(COQ + "/**/*.v", recursive=True)):
        depth = 0
        txt = open(p).read()
        txt = re.sub(r"\(\*.*?\*\)", lambda m: " " * 0 + "\n" * m.group(0).count("\n"), txt, flags=re.S)
        for ln, line in enumerate(txt.split("\n"), 1):
            if re.match(r"\s*Section\b", line):
                depth += 1
            elif re.match(r"\s*End\b", line) and depth > 0:
                depth -= 1
            m = FORBIDDEN.search(line)
            if m:
                w = m.group(0)
                if w in ("Variable", "Hypothesis") and depth > 0:
                    continue
                bad.append("%s:%d: %s" % (os.path.relpath(p, ROOT), ln, line.strip()[:100]))
    return bad

def gen_layer():
    """Regenerate coq/Gen/*.v from /repo's working tree (only rewrites on change)."""
    rc, out = sh([sys.executable, os.path.join(ROOT, "tools", "gen_consts.py")], timeout=600)
    return rc, out

def ensure_coq(targets=None, clean=False):
    """make the Coq development (full .vo build).  Returns (ok, log)."""
    with Lock("coq"):
        rc, out = gen_layer()
        if rc != 0:
            return False, "translator failed:\n" + out
        if clean:
            sh("make -f Makefile clean >/dev/null 2>&1; rm -f Makefile Makefile.conf .Makefile.d", cwd=COQ)
        # _CoqProject is generated: every .v under Spec/ Gen/ Model/ Proofs/ Properties/ (Extract/ is compiled by ensure_oracle)
        files = sorted(os.path.relpath(p, COQ) for d in ("Spec", "Gen", "Model", "Proofs", "Properties")
                       for p in glob.glob(os.path.join(COQ, d, "**", "*.v"), recursive=True))
        proj = "-Q . LZ4V\n" + "\n".join(files) + "\n"
        pj = os.path.join(COQ, "_CoqProject")
        if not os.path.exists(pj) or open(pj).read() != proj:
            open(pj, "w").write(proj)
        if not os.path.exists(os.path.join(COQ, "Makefile")) or \
           os.path.getmtime(os.path.join(COQ, "Makefile")) < os.path.getmtime(pj):
            sh("coq_makefile -f _CoqProject -o Makefile", cwd=COQ, check=True)
        tg = " ".join(targets) if targets else ""
        rc, out = sh("timeout 3000 make -k -j%d %s 2>&1" % (NCPU, tg), cwd=COQ)
        return rc == 0, out

def oracle_names():
    return sorted(os.path.basename(p)[len("Extract_"):-2] for p in glob.glob(COQ + "/Extract/Extract_*.v"))

def ensure_oracle(name="block"):
    """Extract coq/Extract/Extract_<name>.v and build it with harness/ml/common.ml + harness/ml/<name>.ml
    into _build/extract/<name>/oracle; cached on the hash of all .v files and the two .ml files."""
    with Lock("oracle_" + name):
        mls = [ROOT + "/harness/ml/common.ml", ROOT + "/harness/ml/%s.ml" % name]
        vs = sorted(p for p in glob.glob(COQ + "/**/*.v", recursive=True)
                    if "/Properties/" not in p and "/Proofs/" not in p and ("/Extract/" not in p or p.endswith("Extract_%s.v" % name)))
        key = file_hash(vs + mls)
        d = os.path.join(BUILD, "extract", name)
        exe = os.path.join(d, "oracle")
        stamp = os.path.join(d, "stamp")
        if os.path.exists(exe) and os.path.exists(stamp) and open(stamp).read() == key:
            return exe
        shutil.rmtree(d, ignore_errors=True)
        os.makedirs(d, exist_ok=True)
        sh("coqc -Q %s LZ4V %s/Extract/Extract_%s.v" % (COQ, COQ, name), cwd=d, check=True, timeout=900)
        for f in mls:
            shutil.copy(f, d)
        sh("ocamlfind ocamlopt -O3 -package zarith,unix -linkpkg -w -a lz4v.mli lz4v.ml common.ml %s.ml -o oracle" % name,
           cwd=d, check=True, timeout=900)
        open(stamp, "w").write(key)
        return exe

def print_assumptions(pid):
    """Re-compile Properties_<pid>.v and parse every Print Assumptions block.
    Returns (ok, {theorem: [axioms]}, log)."""
    src = os.path.join(COQ, "Properties", "Properties_%s.v" % pid)
    if not os.path.exists(src):
        return False, {}, "missing " + src
    rc, out = sh("timeout 900 coqc -Q %s LZ4V %s" % (COQ, src), cwd=COQ)
    if rc != 0:
        return False, {}, out
    thms = re.findall(r"^\s*(?:Theorem|Lemma|Corollary)\s+([A-Za-z0-9_']+)", open(src).read(), flags=re.M)
    blocks = re.split(r"(?=Closed under the global context|Axioms:)", out)
    res = {}
    blocks = [b for b in blocks if b.startswith("Closed under") or b.startswith("Axioms:")]
    for i, t in enumerate(thms):
        if i < len(blocks):
            b = blocks[i]
            if b.startswith("Closed under"):
                res[t] = []
            else:
                res[t] = re.findall(r"^([A-Za-z0-9_.']+)\s*:", b, flags=re.M)
        else:
            res[t] = ["<no Print Assumptions output>"]
    return True, res, out

class Oracle:
    def __init__(self, full=False, name="block"):
        exe = ensure_oracle(name)
        env = dict(os.environ)
        if full:
            env["ORACLE_FULL"] = "1"
        self.p = subprocess.Popen(["bash", "-c", "ulimit -s unlimited 2>/dev/null || ulimit -s 4000000; exec " + exe],
                                  stdin=subprocess.PIPE, stdout=subprocess.PIPE, env=env)
        self.full = full
    def ask(self, *toks):
        line = " ".join(toks) + "\n"
        self.p.stdin.write(line.encode())
        self.p.stdin.flush()
        r = self.p.stdout.readline()
        if not r:
            raise RuntimeError("oracle died on: " + line[:200])
        return r.decode().strip()
    def close(self):
        try:
            self.p.stdin.close()
            self.p.wait(timeout=5)
        except Exception:
            self.p.kill()

def gen_const(name):
    """value of a generated constant (coq/Gen/Consts.v, written by tools/gen_consts.py from $VERIF_REPO)"""
    import re
    m = re.search(r"^Definition %s : Z := (-?\d+)\.$" % re.escape(name), open(os.path.join(COQ, "Gen", "Consts.v")).read(), re.M)
    if not m:
        raise RuntimeError("generated constant %s not found" % name)
    return int(m.group(1))

def hx(b):
    return b.hex() if b else "-"
def md5(b):
    return hashlib.md5(b).hexdigest()

# ---------------------------------------------------------------- evidence / verdicts
def write_evidence(pid, tier, seed, coverage, wall, violations, assumptions):
    # evidence/<id>.json describes runs against /repo itself; a run pointed at another copy of lz4 (VERIF_REPO, used to
    # try seeded breaking changes) or restricted to some case kinds (VERIF_KINDS, development aid) must not overwrite it
    scratch = os.path.realpath(REPO) != "/repo" or bool(os.environ.get("VERIF_KINDS")) or "--replay" in sys.argv
    evdir = os.path.join(BUILD, "evidence_scratch") if scratch else os.path.join(ROOT, "evidence")
    os.makedirs(evdir, exist_ok=True)
    ev = {"property_id": pid, "tier": tier, "seed": seed, "level": "proof",
          "coverage": coverage, "assumptions": assumptions, "wall_s": round(wall, 2),
          "violations": violations}
    tmp = os.path.join(evdir, pid + ".json.tmp")
    with open(tmp, "w") as f:
        json.dump(ev, f, indent=1, sort_keys=True)
    os.rename(tmp, os.path.join(evdir, pid + ".json"))

def write_replay(pid, obj):
    os.makedirs(os.path.join(ROOT, "replays"), exist_ok=True)
    s = json.dumps(obj, sort_keys=True)
    name = "%s_%s.json" % (pid, hashlib.sha1(s.encode()).hexdigest()[:10])
    path = os.path.join(ROOT, "replays", name)
    with open(path, "w") as f:
        json.dump(obj, f, indent=1, sort_keys=True)
    return path

def known_findings(pid):
    p = os.path.join(ROOT, "known_findings.json")
    if not os.path.exists(p):
        return []
    return [k for k in json.load(open(p)).get("findings", []) if k.get("property") == pid and k.get("status") == "known"]
