"""MANIFEST.setup_cmd: regenerate the Gen layer, build all proofs from clean, extract, build the oracle."""
import sys, time
from vlib import *
t = time.time()
ok, out = ensure_coq(clean=True)
print(out[-3000:])
if not ok:
    print("SETUP: Coq build reported errors (individual checks will report which obligations are broken)")
for n in oracle_names():
    try:
        ensure_oracle(n)
    except Exception as e:
        print('SETUP: oracle %s failed to build: %s' % (n, str(e)[-2000:]))
print("setup done in %.1fs" % (time.time() - t))
sys.exit(0)
