"""MANIFEST.setup_cmd: regenerate the Gen layer, build all proofs from clean, extract, build the oracle."""
import sys, time
from vlib import *
t = time.time()
ok, out = ensure_coq(clean=True)
print(out[-3000:])
if not ok:
    print("SETUP: Coq build reported errors (individual checks will report which obligations are broken)")
ensure_oracle()
print("setup done in %.1fs" % (time.time() - t))
sys.exit(0)
