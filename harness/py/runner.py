"""Generic driver of one property check: proofs -> audit -> build C -> cases in
crash-isolated workers -> verdict -> evidence.  See DESIGN.md section 2."""
import os, sys, json, time, subprocess, importlib, hashlib, glob, re, collections
from vlib import *

def load(pid):
    sys.path.insert(0, os.path.join(ROOT, "harness", "py", "props"))
    return importlib.import_module(pid.lower())

def run_workers(pid, ctx, cases, tag, nworkers=None, timeout=3000):
    """Run cases in parallel worker processes (ASan preloaded).  A worker that dies
    is a result: its current case is reported with the tail of stderr."""
    nworkers = nworkers or NCPU
    nworkers = max(1, min(nworkers, len(cases)))
    rd = os.path.join(BUILD, "run", "%s_%s_%d" % (pid, tag, os.getpid()))
    os.makedirs(rd, exist_ok=True)
    procs = []
    env = dict(os.environ)
    if ctx.get("asan", True):
        env["LD_PRELOAD"] = asan_lib()
        env["ASAN_OPTIONS"] = "detect_leaks=0:abort_on_error=0:exitcode=77:allocator_may_return_null=1:" + env.get("ASAN_OPTIONS", "")
    env["PYTHONPATH"] = os.path.join(ROOT, "harness", "py") + ":" + os.path.join(ROOT, "harness", "py", "props")
    for w in range(nworkers):
        job = {"pid": pid, "ctx": ctx, "cases": cases[w::nworkers],
               "out": os.path.join(rd, "out_%d.jsonl" % w), "cur": os.path.join(rd, "cur_%d.json" % w)}
        jf = os.path.join(rd, "job_%d.json" % w)
        json.dump(job, open(jf, "w"))
        errf = open(os.path.join(rd, "err_%d.txt" % w), "w")
        p = subprocess.Popen([sys.executable, os.path.join(ROOT, "harness", "py", "worker.py"), jf],
                             env=env, stdout=errf, stderr=errf)
        procs.append((w, p, job, errf))
    results = []
    deadline = time.time() + timeout
    for w, p, job, errf in procs:
        try:
            p.wait(timeout=max(1, deadline - time.time()))
        except subprocess.TimeoutExpired:
            p.kill()
            p.wait()
        errf.close()
        if os.path.exists(job["out"]):
            for line in open(job["out"]):
                try:
                    results.append(json.loads(line))
                except Exception:
                    pass
        if p.returncode != 0:
            cur = None
            if os.path.exists(job["cur"]):
                try:
                    cur = json.load(open(job["cur"]))
                except Exception:
                    cur = None
            err = open(os.path.join(rd, "err_%d.txt" % w)).read()[-3000:]
            results.append({"case": cur, "status": "prop_fail", "what": "worker died (rc=%s): crash, sanitizer report or timeout" % p.returncode,
                            "stderr": err, "nontrivial": True, "kind": "crash"})
    import shutil
    shutil.rmtree(rd, ignore_errors=True)
    return results

def main(argv):
    pid = argv[1]
    tier = argv[2] if len(argv) > 2 and not argv[2].startswith("--") else os.environ.get("VERIF_TIER", "quick")
    seed = int(os.environ.get("VERIF_SEED", "1"))
    replay = None
    if "--replay" in argv:
        replay = argv[argv.index("--replay") + 1]
    t0 = time.time()
    mod = load(pid)
    violations = []      # (replay_obj, suffix)
    notes = []

    # 1. proofs (regenerated Gen layer, full .vo build of this property's cone)
    thm_file = os.path.join(COQ, "Properties", "Properties_%s.v" % pid)
    ok_build, blog = ensure_coq(clean=(tier == "thorough" and os.environ.get("VERIF_NO_CLEAN") != "1"))
    vo = os.path.join(COQ, "Properties", "Properties_%s.vo" % pid)
    proof_ok = os.path.exists(vo) and os.path.getmtime(vo) >= os.path.getmtime(thm_file)
    broken = []
    thms = {}
    if proof_ok:
        ok, thms, plog = print_assumptions(pid)
        if not ok:
            proof_ok = False
            broken.append("Properties_%s.v does not compile: %s" % (pid, plog[-1500:]))
        for t, ax in thms.items():
            for a in ax:
                if a.split(".")[-1] not in ALLOWED_AXIOMS and a not in ALLOWED_AXIOMS:
                    proof_ok = False
                    broken.append("theorem %s depends on non-allowed axiom %s" % (t, a))
    else:
        m = re.findall(r"File \"\./([^\"]+)\", line (\d+).*?\n(?:Error:.*?\n.*?\n)?", blog)
        broken.append("Coq build failed: Properties_%s.vo not produced; %s" % (pid, blog[-1500:]))
    bad = coq_audit()
    if bad:
        proof_ok = False
        broken.append("audit: forbidden vernacular: " + "; ".join(bad[:5]))
    expected = getattr(mod, "THEOREMS", None)
    if expected is not None and proof_ok:
        missing = [t for t in expected if t not in thms]
        if missing:
            proof_ok = False
            broken.append("expected theorems missing from Properties_%s.v: %s" % (pid, ", ".join(missing)))

    # 2. C builds from the working tree
    try:
        ctx = mod.build(tier)
    except RuntimeError as e:
        print("BUILD-ERROR: %s" % str(e)[-2000:])
        rp = write_replay(pid, {"property": pid, "what": "the implementation does not build", "log": str(e)[-3000:]})
        print("VIOLATION property=%s replay=%s no-failing-input-found" % (pid, rp))
        write_evidence(pid, tier, seed, {"obligations": 1, "discharged": 0, "checker_cmd": "coqc", "trusted_base": [],
                                         "explanation": "implementation did not build"}, time.time() - t0, 1, [])
        return 1
    for n in getattr(mod, 'ORACLES', ['block']):
        ensure_oracle(n)

    # 3. cases
    if replay:
        obj = json.load(open(replay))
        cases = [obj["case"]] if "case" in obj and obj["case"] else []
    else:
        cases = mod.gen_cases(tier, seed)
        if os.environ.get("VERIF_KINDS"):          # development aid: restrict a run to some case kinds
            kk = os.environ["VERIF_KINDS"].split(",")
            cases = [c for c in cases if c.get("kind") in kk or c.get("mode") in kk]
    results = run_workers(pid, ctx, cases, tier) if cases else []

    def classify(r):
        f = getattr(mod, "classify", None)
        return f(r) if f else None

    prop_fail = [r for r in results if r.get("status") == "prop_fail"]
    corr_fail = [r for r in results if r.get("status") in ("corr_fail", "harness_error")]
    known_hit = collections.OrderedDict()
    new_fail = []
    for r in prop_fail:
        k = classify(r)
        if k:
            known_hit.setdefault(k, r)
        else:
            new_fail.append(r)

    # 4. failing-input search when an obligation or the correspondence broke
    searched = 0
    if (not proof_ok or corr_fail) and not new_fail and not replay:
        extra = mod.gen_cases("search", seed + 7919)
        searched = len(extra)
        sres = run_workers(pid, ctx, extra, "search")
        for r in sres:
            if r.get("status") == "prop_fail":
                k = classify(r)
                if k:
                    known_hit.setdefault(k, r)
                else:
                    new_fail.append(r)
        results += sres

    rc = 0
    kf = {k["id"]: k for k in known_findings(pid)}
    for k, r in known_hit.items():
        print("KNOWN-FINDING: property=%s %s" % (pid, kf.get(k, {}).get("what", k)))
    if new_fail:
        r = new_fail[0]
        rp = write_replay(pid, {"property": pid, "what": r.get("what"), "case": r.get("case"), "detail": r.get("detail"),
                                "stderr": r.get("stderr"), "broken_obligations": broken})
        print("VIOLATION property=%s replay=%s" % (pid, rp))
        rc = 1
    elif not proof_ok or corr_fail:
        r = corr_fail[0] if corr_fail else {}
        rp = write_replay(pid, {"property": pid, "what": "obligation no longer checks; no failing input found in %d search cases" % searched,
                                "broken_obligations": broken + (["correspondence model<->code: " + str(r.get("what"))] if corr_fail else []),
                                "case": r.get("case"), "detail": r.get("detail")})
        print("VIOLATION property=%s replay=%s no-failing-input-found" % (pid, rp))
        rc = 1

    # 5. evidence
    corr_obl = getattr(mod, "CORRESPONDENCE", [])
    n_thm = len(thms) if thms else (len(expected) if expected else 1)
    obligations = n_thm + len(corr_obl)
    discharged = (n_thm if proof_ok else 0) + (len(corr_obl) if not corr_fail and results else 0)
    distinct = set()
    kinds = collections.Counter()
    for r in results:
        kinds[r.get("kind", "?")] += 1
        for k in r.get("keys") or []:
            distinct.add(k)
        if r.get("nontrivial"):
            distinct.add(r.get("key") or hashlib.sha1(json.dumps(r.get("case"), sort_keys=True).encode()).hexdigest())
    samples = []
    for r in results[:: max(1, len(results) // 3)][:3]:
        c = json.dumps(r.get("case"))
        samples.append({"case": c if len(c) < 600 else c[:600] + "...", "status": r.get("status"), "kind": r.get("kind")})
    for t, ax in list(thms.items())[:40]:
        samples.append({"theorem": t, "axioms": ax})
    cov = {
        "obligations": obligations, "discharged": discharged,
        "checker_cmd": "make -C /verif/coq (coqc 8.16.1, full .vo) ; coqc Properties/Properties_%s.v (Print Assumptions)" % pid,
        "trusted_base": getattr(mod, "TRUSTED", []) + [
            "Coq 8.16.1 kernel; vm_compute used, native_compute not used",
            "axioms per theorem as printed by Print Assumptions: " + json.dumps({t: a for t, a in thms.items() if a}) ,
            "extraction: ExtrOcamlBasic, ExtrOcamlZBigInt, ExtrOcamlNatBigInt; OCaml 4.13.1 + Zarith 1.12",
            "translator tools/gen_consts.py (constants printed by the C compiler from the real translation units; leaf functions from clang's JSON AST)",
            "correspondence harness (ctypes + ASan build of /repo's working tree)"],
        "theorems": sorted(thms.keys()),
        "correspondence_obligations": corr_obl,
        "broken": broken,
        "evaluations": sum(int(r.get("evals", 1)) for r in results),
        "distinct_nontrivial": len(distinct),
        "rule": getattr(mod, "RULE", ""),
        "kinds": dict(kinds),
        "samples": samples,
        "search_cases": searched,
        "known_findings_reproduced": list(known_hit.keys()),
    }
    stats = collections.Counter()
    for r in results:
        for k, v in (r.get("stats") or {}).items():
            stats[k] += v
    if stats:
        cov["input_distribution"] = dict(stats)
    write_evidence(pid, tier, seed, cov, time.time() - t0, len(new_fail) + (1 if rc and not new_fail else 0),
                   getattr(mod, "ASSUMPTIONS", []))
    log("%s %s: %d cases, %d distinct nontrivial, proofs %s, corr_fail %d, prop_fail %d (known %d), %.1fs" %
        (pid, tier, len(results), len(distinct), "ok" if proof_ok else "BROKEN", len(corr_fail), len(prop_fail), len(known_hit), time.time() - t0))
    return rc

if __name__ == "__main__":
    sys.exit(main(sys.argv))
