"""ctypes access to a shared object built from /repo's working tree.  All buffers handed
to the library are malloc'd with their exact size (ASan red zones on both sides)."""
import ctypes, os
from ctypes import c_int, c_void_p, c_size_t, c_char_p, c_uint, c_ulonglong, POINTER, byref

libc = ctypes.CDLL(None)
libc.malloc.restype = c_void_p; libc.malloc.argtypes = [c_size_t]
libc.free.restype = None; libc.free.argtypes = [c_void_p]
libc.memset.argtypes = [c_void_p, c_int, c_size_t]; libc.memset.restype = c_void_p

class Buf:
    """exact-size heap buffer; size 0 gets a 1-byte allocation whose only byte is never valid to touch
    (we allocate 0 -> ASan returns a pointer with zero accessible bytes)."""
    def __init__(self, n, fill=None, data=None):
        if data is not None:
            n = len(data)
        self.n = n
        self.p = libc.malloc(n)
        if self.p is None and n > 0:
            raise MemoryError()
        if data is not None and n:
            ctypes.memmove(self.p, data, n)
        elif fill is not None and n:
            if isinstance(fill, int):
                libc.memset(self.p, fill, n)
            else:
                ctypes.memmove(self.p, (fill * (n // len(fill) + 1))[:n], n)
    def bytes(self, n=None, off=0):
        n = self.n - off if n is None else n
        return ctypes.string_at(self.p + off, n) if n > 0 else b""
    def write(self, off, data):
        if data:
            ctypes.memmove(self.p + off, data, len(data))
    def free(self):
        if self.p is not None:
            libc.free(self.p); self.p = None
    def __del__(self):
        try:
            self.free()
        except Exception:
            pass

def pattern(n, salt=0):
    """address-dependent fill pattern (so that stale-byte leaks are visible)"""
    return bytes(((i * 131 + salt * 17 + (i >> 8) * 7 + 0x5a) & 0xff) for i in range(n))

class Lib:
    def __init__(self, path):
        self.L = ctypes.CDLL(path)
        L = self.L
        def sig(name, res, *args):
            f = getattr(L, name)
            f.restype = res; f.argtypes = list(args)
            return f
        I, P, S = c_int, c_void_p, c_size_t
        self.compressBound = sig("LZ4_compressBound", I, I)
        self.compress_default = sig("LZ4_compress_default", I, P, P, I, I)
        self.compress_fast = sig("LZ4_compress_fast", I, P, P, I, I, I)
        self.sizeofState = sig("LZ4_sizeofState", I)
        self.compress_fast_extState = sig("LZ4_compress_fast_extState", I, P, P, P, I, I, I)
        self.compress_fast_extState_fastReset = sig("LZ4_compress_fast_extState_fastReset", I, P, P, P, I, I, I)
        self.compress_destSize = sig("LZ4_compress_destSize", I, P, P, POINTER(c_int), I)
        self.compress_destSize_extState = sig("LZ4_compress_destSize_extState", I, P, P, P, POINTER(c_int), I, I)
        self.decompress_safe = sig("LZ4_decompress_safe", I, P, P, I, I)
        self.decompress_safe_partial = sig("LZ4_decompress_safe_partial", I, P, P, I, I, I)
        self.decompress_safe_usingDict = sig("LZ4_decompress_safe_usingDict", I, P, P, I, I, P, I)
        self.decompress_safe_partial_usingDict = sig("LZ4_decompress_safe_partial_usingDict", I, P, P, I, I, I, P, I)
        self.decompress_fast = sig("LZ4_decompress_fast", I, P, P, I)
        self.decompress_fast_usingDict = sig("LZ4_decompress_fast_usingDict", I, P, P, I, P, I)
        self.initStream = sig("LZ4_initStream", P, P, S)
        self.resetStream_fast = sig("LZ4_resetStream_fast", None, P)
        self.loadDict = sig("LZ4_loadDict", I, P, P, I)
        self.loadDictSlow = sig("LZ4_loadDictSlow", I, P, P, I)
        self.attach_dictionary = sig("LZ4_attach_dictionary", None, P, P)
        self.compress_fast_continue = sig("LZ4_compress_fast_continue", I, P, P, P, I, I, I)
        self.saveDict = sig("LZ4_saveDict", I, P, P, I)
        self.setStreamDecode = sig("LZ4_setStreamDecode", I, P, P, I)
        self.decompress_safe_continue = sig("LZ4_decompress_safe_continue", I, P, P, P, I, I)
        self.decompress_fast_continue = sig("LZ4_decompress_fast_continue", I, P, P, P, I)
        self.decoderRingBufferSize = sig("LZ4_decoderRingBufferSize", I, I)
        # HC
        self.sizeofStateHC = sig("LZ4_sizeofStateHC", I)
        self.compress_HC = sig("LZ4_compress_HC", I, P, P, I, I, I)
        self.compress_HC_extStateHC = sig("LZ4_compress_HC_extStateHC", I, P, P, P, I, I, I)
        self.compress_HC_extStateHC_fastReset = sig("LZ4_compress_HC_extStateHC_fastReset", I, P, P, P, I, I, I)
        self.compress_HC_destSize = sig("LZ4_compress_HC_destSize", I, P, P, P, POINTER(c_int), I, I)
        self.initStreamHC = sig("LZ4_initStreamHC", P, P, S)
        self.resetStreamHC_fast = sig("LZ4_resetStreamHC_fast", None, P, I)
        self.setCompressionLevel = sig("LZ4_setCompressionLevel", None, P, I)
        self.favorDecompressionSpeed = sig("LZ4_favorDecompressionSpeed", None, P, I)
        self.loadDictHC = sig("LZ4_loadDictHC", I, P, P, I)
        self.attach_HC_dictionary = sig("LZ4_attach_HC_dictionary", None, P, P)
        self.compress_HC_continue = sig("LZ4_compress_HC_continue", I, P, P, P, I, I)
        self.compress_HC_continue_destSize = sig("LZ4_compress_HC_continue_destSize", I, P, P, P, POINTER(c_int), I)
        self.saveDictHC = sig("LZ4_saveDictHC", I, P, P, I)
        # frame
        self.F_isError = sig("LZ4F_isError", c_uint, S)
        self.F_getErrorName = sig("LZ4F_getErrorName", c_char_p, S)
        self.F_compressFrameBound = sig("LZ4F_compressFrameBound", S, S, P)
        self.F_compressFrame = sig("LZ4F_compressFrame", S, P, S, P, S, P)
        self.F_compressBound = sig("LZ4F_compressBound", S, S, P)
        self.F_createCompressionContext = sig("LZ4F_createCompressionContext", S, POINTER(c_void_p), c_uint)
        self.F_freeCompressionContext = sig("LZ4F_freeCompressionContext", S, P)
        self.F_compressBegin = sig("LZ4F_compressBegin", S, P, P, S, P)
        self.F_compressBegin_usingDict = sig("LZ4F_compressBegin_usingDict", S, P, P, S, P, S, P)
        self.F_compressBegin_usingCDict = sig("LZ4F_compressBegin_usingCDict", S, P, P, S, P, P)
        self.F_compressUpdate = sig("LZ4F_compressUpdate", S, P, P, S, P, S, P)
        self.F_uncompressedUpdate = sig("LZ4F_uncompressedUpdate", S, P, P, S, P, S, P)
        self.F_flush = sig("LZ4F_flush", S, P, P, S, P)
        self.F_compressEnd = sig("LZ4F_compressEnd", S, P, P, S, P)
        self.F_createCDict = sig("LZ4F_createCDict", P, P, S)
        self.F_freeCDict = sig("LZ4F_freeCDict", None, P)
        self.F_compressFrame_usingCDict = sig("LZ4F_compressFrame_usingCDict", S, P, P, S, P, S, P, P)
        self.F_createDecompressionContext = sig("LZ4F_createDecompressionContext", S, POINTER(c_void_p), c_uint)
        self.F_freeDecompressionContext = sig("LZ4F_freeDecompressionContext", S, P)
        self.F_decompress = sig("LZ4F_decompress", S, P, P, POINTER(c_size_t), P, POINTER(c_size_t), P)
        self.F_decompress_usingDict = sig("LZ4F_decompress_usingDict", S, P, P, POINTER(c_size_t), P, POINTER(c_size_t), P, S, P)
        self.F_resetDecompressionContext = sig("LZ4F_resetDecompressionContext", None, P)
        self.F_getFrameInfo = sig("LZ4F_getFrameInfo", S, P, P, P, POINTER(c_size_t))
        self.F_headerSize = sig("LZ4F_headerSize", S, P, S)
        self.XXH32 = sig("LZ4_XXH32", c_uint, P, S, c_uint)

class Prefs(ctypes.Structure):
    """LZ4F_preferences_t (lz4frame.h)"""
    _fields_ = [("blockSizeID", c_int), ("blockMode", c_int), ("contentChecksumFlag", c_int),
                ("frameType", c_int), ("contentSize", c_ulonglong), ("dictID", c_uint),
                ("blockChecksumFlag", c_int),
                ("compressionLevel", c_int), ("autoFlush", c_uint), ("favorDecSpeed", c_uint),
                ("reserved", c_uint * 3)]

class COpts(ctypes.Structure):
    _fields_ = [("stableSrc", c_uint), ("reserved", c_uint * 3)]
class DOpts(ctypes.Structure):
    _fields_ = [("stableDst", c_uint), ("skipChecksums", c_uint), ("reserved1", c_uint), ("reserved0", c_uint)]
