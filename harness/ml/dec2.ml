(* oracle "dec2": LZ4_setStreamDecode / LZ4_decompress_safe_continue model over one arena memory.
   Session state (arena, stream state) is kept between commands. *)
open Lz4v
open Common

let arena = ref (mem_of_list (z 0) [])
let st = ref (setStreamDecode (z 0) (z 0))

let show_st (s : sdstate) =
  Printf.sprintf "%s %s %s %s" (zstr s.sd_externalDict) (zstr s.sd_prefixEnd) (zstr s.sd_extDictSize) (zstr s.sd_prefixSize)

let () =
  reg "sdnew" (function _ -> arena := mem_of_list (z 0) []; st := setStreamDecode (z 0) (z 0); "ok");
  (* poke <addr> <hex> *)
  reg "poke" (function [a; h] -> arena := store_list !arena (zs a) (bytes_of_hex h); "ok" | _ -> "badargs");
  (* peek <addr> <n> *)
  reg "peek" (function [a; n] -> show_bytes (load_list !arena (zs a) (zs n)) | _ -> "badargs");
  (* setsd <dict addr> <dictSize> *)
  reg "setsd" (function [a; n] -> st := setStreamDecode (zs a) (zs n); show_st !st | _ -> "badargs");
  (* cont <fast> <src> <srcSize> <dest> <cap>  ->  ret ok|OOB extDict prefixEnd extDictSize prefixSize  len md5 of [dest,dest+cap) *)
  reg "cont" (function [fast; src; srcsize; dest; cap] ->
      let src = bytes_of_hex src in
      let srcm = mem_of_list (z 0) src in
      let (((r, am), s), ok) = decompress_safe_continue (fast = "1") !arena !st srcm (zs srcsize) (zs dest) (zs cap) in
      arena := am; st := s;
      let capn = if Big_int_Z.sign_big_int (zs cap) < 0 then z 0 else zs cap in
      Printf.sprintf "%s %s %s %s" (zstr r) (if ok then "ok" else "OOB") (show_st s) (show_bytes (load_list am (zs dest) capn))
    | _ -> "badargs")

let () = Common.main ()
