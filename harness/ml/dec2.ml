(* oracle "dec2": LZ4_setStreamDecode / LZ4_decompress_safe_continue model over one arena memory.
   Session state (arena, stream state) is kept between commands. *)
open Lz4v
open Common

let arena = ref (mem_of_list (z 0) [])
let st = ref (setStreamDecode (z 0) (z 0))

let show_st (s : sdstate) =
  Printf.sprintf "%s %s %s %s" (zstr s.sd_externalDict) (zstr s.sd_prefixEnd) (zstr s.sd_extDictSize) (zstr s.sd_prefixSize)

let () =
  reg "sdnew" (function _ -> arena := mem_of_list (z 0) []; st := setStreamDecode (z 0) (z 0); "ok");
  (* poke <addr> <hex> *)
  reg "poke" (function [a; h] -> arena := store_list !arena (zs a) (bytes_of_hex h); "ok" | _ -> "badargs");
  (* peek <addr> <n> *)
  reg "peek" (function [a; n] -> show_bytes (load_list !arena (zs a) (zs n)) | _ -> "badargs");
  (* setsd <dict addr> <dictSize> *)
  reg "setsd" (function [a; n] -> st := setStreamDecode (zs a) (zs n); show_st !st | _ -> "badargs");
  (* cont <fast> <src> <srcSize> <dest> <cap>  ->  ret ok|OOB extDict prefixEnd extDictSize prefixSize  len md5 of [dest,dest+cap) *)
  reg "cont" (function [fast; src; srcsize; dest; cap] ->
      let src = bytes_of_hex src in
      let srcm = mem_of_list (z 0) src in
      let (((r, am), s), ok) = decompress_safe_continue (fast = "1") !arena !st srcm (zs srcsize) (zs dest) (zs cap) in
      arena := am; st := s;
      let capn = if Big_int_Z.sign_big_int (zs cap) < 0 then z 0 else zs cap in
      Printf.sprintf "%s %s %s %s" (zstr r) (if ok then "ok" else "OOB") (show_st s) (show_bytes (load_list am (zs dest) capn))
    | _ -> "badargs")

let () =
  (* fastapi <src> <srcSize> <originalSize> <placement p|x> <dict> <fill>: LZ4_decompress_fast(_usingDict) model
     -> ret ok|OOB len md5 of [0,originalSize) *)
  reg "fastapi" (function [src; srcsize; osize; pl; dict; fill] ->
      let src = bytes_of_hex src and dict = bytes_of_hex dict and fill = bytes_of_hex fill in
      let srcm = mem_of_list (z 0) src in
      let isp = (pl = "p") in
      let m0 = if isp then store_list (mem_of_list (z 0) fill) (Big_int_Z.minus_big_int (len dict)) dict
               else mem_of_list (z 0) fill in
      let dictm = if isp then mem_of_list (z 0) [] else mem_of_list (z 0) dict in
      let ((r, m), ok) = decompress_fast_usingDict srcm (zs srcsize) (zs osize) (if isp then PPrefix else PExt) dictm (len dict) m0 in
      Printf.sprintf "%s %s %s" (zstr r) (if ok then "ok" else "OOB") (show_bytes (load_list m (z 0) (len fill)))
    | _ -> "badargs");
  (* fcont <src> <srcSize> <dest> <originalSize>: LZ4_decompress_fast_continue model on the session arena/state *)
  reg "fcont" (function [src; srcsize; dest; osize] ->
      let src = bytes_of_hex src in
      let srcm = mem_of_list (z 0) src in
      let (((r, am), s), ok) = decompress_fast_continue !arena !st srcm (zs srcsize) (zs dest) (zs osize) in
      arena := am; st := s;
      Printf.sprintf "%s %s %s %s" (zstr r) (if ok then "ok" else "OOB") (show_st s) (show_bytes (load_list am (zs dest) (zs osize)))
    | _ -> "badargs")

let () =
  (* inplace <buffer> <pos> <srcSize> <cap> <fastloop 0|1>: Model/DecInplace.v, LZ4_decompress_safe(buf+pos, buf, srcSize, cap)
     inside the one buffer -> ret ok|OOB len md5 of the whole buffer afterwards *)
  reg "inplace" (function [buf; pos; srcsize; cap; fl] ->
      let buf = bytes_of_hex buf in
      let m0 = mem_of_list (z 0) buf in
      let ((r, m), ok) = decompress_safe_inplace (fl = "1") (zs pos) (zs srcsize) (zs cap) m0 in
      Printf.sprintf "%s %s %s" (zstr r) (if ok then "ok" else "OOB") (show_bytes (load_list m (z 0) (len buf)))
    | _ -> "badargs")

let () =
  (* ringwrap <ring contents> <lapSize> <src> <cap> <fastloop 0|1>: Model/DecRingWrap.v, the wrap call of a ring buffer
     (LZ4_decompress_safe_forceExtDict with the dictionary = the finished lap at the destination address, one memory)
     -> ret ok|OOB len md5 of the whole ring afterwards *)
  reg "ringwrap" (function [ring; lap; src; cap; fl] ->
      let ring = bytes_of_hex ring and src = bytes_of_hex src in
      let ((r, m), ok) = decompress_ring_wrap (fl = "1") (mem_of_list (z 0) src) (len src) (zs cap) (zs lap) (mem_of_list (z 0) ring) in
      Printf.sprintf "%s %s %s" (zstr r) (if ok then "ok" else "OOB") (show_bytes (load_list m (z 0) (len ring)))
    | _ -> "badargs")

let () =
  (* semout <hist> <blk> <r>: the specified output of Proofs/DecConversePartialTop.v (sequence semantics of an
     arbitrary input, truncated where the input ends) -> total length, md5 of its first r bytes *)
  reg "semout" (function [h; b; r] ->
      let out = specified_output (bytes_of_hex h) (bytes_of_hex b) in
      let s = string_of_bytes out in
      let n = String.length s in
      let k = min n (max 0 (int_of_string r)) in
      Printf.sprintf "%d %s" n (Digest.to_hex (Digest.string (String.sub s 0 k)))
    | _ -> "badargs")

let () = Common.main ()
