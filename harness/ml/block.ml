(* oracle "block": block specification, decoder model, fast compressor model *)
open Lz4v
open Common

let () =
  (* specdec / strict: the map-based implementation (n log n whatever the offsets); *_list: the list-based one *)
  reg "specdec" (function [h; b] -> show_opt (spec_decode_mem (bytes_of_hex h) (bytes_of_hex b)) | _ -> "badargs");
  reg "strict" (function [h; b] -> show_opt (strict_valid_mem (bytes_of_hex h) (bytes_of_hex b)) | _ -> "badargs");
  reg "specdec_list" (function [h; b] -> show_opt (spec_decode_fast (bytes_of_hex h) (bytes_of_hex b)) | _ -> "badargs");
  reg "strict_list" (function [h; b] -> show_opt (strict_valid_fast (bytes_of_hex h) (bytes_of_hex b)) | _ -> "badargs");
  reg "specdec_ref" (function [h; b] -> show_opt (spec_decode (bytes_of_hex h) (bytes_of_hex b)) | _ -> "badargs");
  reg "strict_ref" (function [h; b] -> show_opt (strict_valid (bytes_of_hex h) (bytes_of_hex b)) | _ -> "badargs");
  reg "xxh32" (function [seed; b] -> Big_int_Z.string_of_big_int (xxh32 (Big_int_Z.big_int_of_string seed) (bytes_of_hex b)) | _ -> "badargs");
  reg "frame" (function [strict; skip; d; b] ->
      let bdec = if strict = "1" then strict_valid_mem else spec_decode_mem in
      (match frame_decode bdec (skip = "1") (bytes_of_hex d) (bytes_of_hex b) with
       | None -> "none"
       | Some (c, rest) -> Printf.sprintf "ok %s rest=%d" (show_bytes c) (List.length rest))
    | _ -> "badargs");
  reg "stream" (function [strict; d; b] ->
      let bdec = if strict = "1" then strict_valid_mem else spec_decode_mem in
      let bs = bytes_of_hex b in
      show_opt (stream_decode bdec false (Big_int_Z.big_int_of_int (List.length bs + 1)) (bytes_of_hex d) [] bs)
    | _ -> "badargs")


let () =
  (* dec <fast> <partial> <mode n|p|x> <src> <srcSize> <cap> <prefix> <dict> <fill> *)
  reg "dec" (function [fast; part; mode; src; srcsize; cap; prefix; dict; fill] ->
      let src = bytes_of_hex src and prefix = bytes_of_hex prefix and dict = bytes_of_hex dict and fill = bytes_of_hex fill in
      let srcm = mem_of_list (z 0) src in
      let m0 = store_list (mem_of_list (z 0) fill) (Big_int_Z.minus_big_int (len prefix)) prefix in
      let dictm = mem_of_list (z 0) dict in
      let d, low = (match mode with
        | "n" -> NoDict, Big_int_Z.minus_big_int (len prefix)
        | "p" -> WithPrefix64k, z (-65536)
        | _ -> UsingExtDict, Big_int_Z.minus_big_int (len prefix)) in
      let ((r, m), ok) = dec_generic (fast = "1") (part = "1") d srcm (zs srcsize) (zs cap) low (Big_int_Z.minus_big_int (len prefix)) dictm (len dict) m0 in
      Printf.sprintf "%s %s %s" (zstr r) (if ok then "ok" else "OOB") (show_bytes (load_list m (z 0) (len fill)))
    | _ -> "badargs");
  (* decapi <fast> <partial> <src> <srcSize> <target> <cap> <placement p|x> <dict> <fill> *)
  reg "decapi" (function [fast; part; src; srcsize; target; cap; pl; dict; fill] ->
      let src = bytes_of_hex src and dict = bytes_of_hex dict and fill = bytes_of_hex fill in
      let srcm = mem_of_list (z 0) src in
      let isp = (pl = "p") in
      let m0 = if isp then store_list (mem_of_list (z 0) fill) (Big_int_Z.minus_big_int (len dict)) dict
               else mem_of_list (z 0) fill in
      let dictm = if isp then mem_of_list (z 0) [] else mem_of_list (z 0) dict in
      let ((r, m), ok) = decompress_usingDict (fast = "1") (part = "1") srcm (zs srcsize) (zs target) (zs cap)
                           (if isp then PPrefix else PExt) dictm (len dict) m0 in
      Printf.sprintf "%s %s %s" (zstr r) (if ok then "ok" else "OOB") (show_bytes (load_list m (z 0) (len fill)))
    | _ -> "badargs");
  (* ---- fast compressor ---- *)
  let show_ares (a : ares) =
    Printf.sprintf "%s %s %s %s" (zstr a.a_ret) (zstr a.a_consumed) (zstr a.a_hw) (show_bytes a.a_out) in
  let table_md5 (c : fctx) =
    let b = Buffer.create 16384 in
    let tt = zi c.f_tt in
    if tt = 3 then
      for h = 0 to 8191 do
        let v = zi (get c.f_tab (z h)) in
        Buffer.add_char b (Char.chr (v land 255)); Buffer.add_char b (Char.chr ((v lsr 8) land 255))
      done
    else
      for h = 0 to 4095 do
        let v = zi (get c.f_tab (z h)) in
        Buffer.add_char b (Char.chr (v land 255)); Buffer.add_char b (Char.chr ((v lsr 8) land 255));
        Buffer.add_char b (Char.chr ((v lsr 16) land 255)); Buffer.add_char b (Char.chr ((v lsr 24) land 255))
      done;
    Digest.to_hex (Digest.string (Buffer.contents b)) in
  let show_ctx (c : fctx) = Printf.sprintf "cur=%s tt=%s dictSize=%s tab=%s" (zstr c.f_cur) (zstr c.f_tt) (zstr c.f_dictSize) (table_md5 c) in
  let cur_ctx = ref ctx_init in
  (* comp ext|dest <src> <cap|target> <accel> *)
  reg "comp" (function [variant; src; cap; accel] ->
      let src = bytes_of_hex src in
      let srcm = mem_of_list (z 0) src in
      let a = (match variant with
        | "ext" -> compress_fast_extState srcm (len src) (zs cap) (zs accel)
        | "dest" -> compress_destSize srcm (len src) (zs cap)
        | _ -> failwith "variant") in
      show_ares a ^ " " ^ show_ctx a.a_ctx
    | _ -> "badargs");
  (* destx <src> <target> <accel> : LZ4_compress_destSize_extState *)
  reg "destx" (function [src; target; accel] ->
      let src = bytes_of_hex src in
      let srcm = mem_of_list (z 0) src in
      let a = compress_destSize_internal srcm (len src) (zs target) (zs accel) in
      show_ares a ^ " " ^ show_ctx a.a_ctx
    | _ -> "badargs");
  (* hcemit <src> <ip> <anchor> <op> <matchLength> <offset> <limit 0|1> <oend> : LZ4HC_encodeSequence *)
  reg "hcemit" (function [src; ip; anchor; op; ml; off; limit; oend] ->
      let srcl = Array.of_list (bytes_of_hex src) in
      let rd a = let i = zi a in if i >= 0 && i < Array.length srcl then srcl.(i) else z 0 in
      let e = encodeSequence rd (zs ip) (zs anchor) (zs op) (zs ml) (zs off) (limit = "1") (zs oend) in
      Printf.sprintf "%s %s %s %s" (zstr e.e_ret) (zstr e.e_op) (zstr e.e_hw) (show_bytes e.e_bytes)
    | _ -> "badargs");
  reg "ctxinit" (function _ -> cur_ctx := ctx_init; "ok");
  (* fr <src> <cap> <accel> : LZ4_compress_fast_extState_fastReset on the session context *)
  reg "fr" (function [src; cap; accel] ->
      let src = bytes_of_hex src in
      let srcm = mem_of_list (z 0) src in
      let a = compress_fast_extState_fastReset !cur_ctx srcm (len src) (zs cap) (zs accel) in
      cur_ctx := a.a_ctx;
      show_ares a ^ " " ^ show_ctx a.a_ctx
    | _ -> "badargs")


let () = Common.main ()
