(* Driver of the extracted LZ4F size model (Model/FrameCSizes.v): oracle "framesz".
   prefs  : "N" (NULL) | bsid,linked,cchk,csize,dictid,bchk,af
   state  : prefs fields,stage,maxBlockSize,tmpInSize,totalIn,unc   (12 comma separated integers)
   tape   : comma separated stored sizes | "-"
   op     : B:prefs:cap | U:n:cap | X:n:cap | F:cap | E:cap        (prefs with ',' inside)
   result : ok:<w>|err:<code>|oom  <ext>  <len:size,...|->  <state>  <rest of tape> *)
open Lz4v
open Common

let ints s = if s = "-" || s = "" then [] else List.map zs (String.split_on_char ',' s)
let b x = Big_int_Z.sign_big_int x <> 0
let zb x = if x then z 1 else z 0

let prefs_of_list = function
  | [bsid; linked; cchk; csize; dictid; bchk; af] ->
    { p_bsid = bsid; p_linked = b linked; p_cchk = b cchk; p_csize = csize; p_dictid = dictid;
      p_bchk = b bchk; p_af = b af }
  | _ -> failwith "prefs"
let prefs_opt s = if s = "N" then None else Some (prefs_of_list (ints s))
let prefs_str p =
  String.concat "," [zstr p.p_bsid; zstr (zb p.p_linked); zstr (zb p.p_cchk); zstr p.p_csize;
                     zstr p.p_dictid; zstr (zb p.p_bchk); zstr (zb p.p_af)]

let state_of s = match ints s with
  | [a1; a2; a3; a4; a5; a6; a7; stage; mbs; tmpin; total; unc] ->
    { c_prefs = prefs_of_list [a1; a2; a3; a4; a5; a6; a7]; c_stage = stage; c_maxBlockSize = mbs;
      c_tmpInSize = tmpin; c_totalIn = total; c_unc = b unc }
  | _ -> failwith "state"
let state_str c =
  String.concat "," [prefs_str c.c_prefs; zstr c.c_stage; zstr c.c_maxBlockSize; zstr c.c_tmpInSize;
                     zstr c.c_totalIn; zstr (zb c.c_unc)]

let tape_str t = if t = [] then "-" else String.concat "," (List.map zstr t)
let ret_str = function Ok w -> "ok:" ^ zstr w | Err e -> "err:" ^ zstr e | OutOfModel -> "oom"
let blocks_str l =
  if l = [] then "-" else String.concat "," (List.map (fun (a, s) -> zstr a ^ ":" ^ zstr s) l)
let out_str o = Printf.sprintf "%s %s %s" (ret_str o.o_ret) (zstr o.o_ext) (blocks_str o.o_blocks)

let op_of s = match String.split_on_char ':' s with
  | ["B"; p; cap] -> OpBegin (prefs_opt p, zs cap)
  | ["U"; n; cap] -> OpUpdate (zs n, zs cap)
  | ["X"; n; cap] -> OpUncompressed (zs n, zs cap)
  | ["F"; cap] -> OpFlush (zs cap)
  | ["E"; cap] -> OpEnd (zs cap)
  | _ -> failwith "op"

let () =
  reg "cbi" (function [n; p; ab] -> zstr (compressBound_internal (zs n) (prefs_opt p) (zs ab)) | _ -> "badargs");
  reg "cb" (function [n; p] -> zstr (compressBound (zs n) (prefs_opt p)) | _ -> "badargs");
  reg "cfb" (function [n; p] -> zstr (compressFrameBound (zs n) (prefs_opt p)) | _ -> "badargs");
  reg "gbs" (function [id] -> zstr (getBlockSize (zs id)) | _ -> "badargs");
  reg "hsize" (function [p] -> zstr (header_size (prefs_of_list (ints p))) | _ -> "badargs");
  reg "init" (function _ -> state_str cctx0);
  (* step <fixed 0|1> <state> <op> <tape> *)
  reg "step" (function [fixed; st; op; tape] ->
      let ((o, c), t) = step (fixed <> "0") (state_of st) (ints tape) (op_of op) in
      Printf.sprintf "%s %s %s" (out_str o) (state_str c) (tape_str t)
    | _ -> "badargs");
  (* run <fixed> <tape> <op> <op> ... from a fresh context *)
  reg "run" (function fixed :: tape :: ops ->
      let ((os, c), t) = run (fixed <> "0") cctx0 (ints tape) (List.map op_of ops) in
      String.concat " | " (List.map out_str os) ^ " | " ^ state_str c
    | _ -> "badargs");
  (* frame <prefs> <n> <cap> <tape> *)
  reg "frame" (function [p; n; cap; tape] -> out_str (compressFrame (prefs_opt p) (zs n) (zs cap) (ints tape))
    | _ -> "badargs");
  reg "fprefs" (function [p; n] ->
      (match frame_prefs (prefs_opt p) (zs n) with None -> "none" | Some q -> prefs_str q)
    | _ -> "badargs")

let () = Common.main ()
