(* Shared by every extracted-model driver: hex transport and the command loop.
   One command per input line, one result line per command. *)
let z = Big_int_Z.big_int_of_int
let zi = Big_int_Z.int_of_big_int
let zs = Big_int_Z.big_int_of_string
let zstr = Big_int_Z.string_of_big_int
let hexval c = match c with
  | '0'..'9' -> Char.code c - 48 | 'a'..'f' -> Char.code c - 87 | 'A'..'F' -> Char.code c - 55
  | _ -> failwith "hex"
let bytes_of_hex (s : string) : Big_int_Z.big_int list =
  if s = "-" then [] else begin
    let n = String.length s / 2 in
    let r = ref [] in
    for i = n - 1 downto 0 do
      r := z (hexval s.[2*i] * 16 + hexval s.[2*i+1]) :: !r
    done; !r end
let string_of_bytes (l : Big_int_Z.big_int list) : string =
  let b = Buffer.create 1024 in
  List.iter (fun x -> Buffer.add_char b (Char.chr ((zi x) land 255))) l;
  Buffer.contents b
let hex_of_string (s : string) : string =
  if s = "" then "-" else begin
    let b = Buffer.create (2 * String.length s) in
    String.iter (fun c -> Buffer.add_string b (Printf.sprintf "%02x" (Char.code c))) s;
    Buffer.contents b end
let hex_of_bytes l = hex_of_string (string_of_bytes l)
let full = (try Sys.getenv "ORACLE_FULL" = "1" with Not_found -> false)
let show_bytes l =
  let s = string_of_bytes l in
  if full then Printf.sprintf "%d %s %s" (String.length s) (Digest.to_hex (Digest.string s)) (hex_of_string s)
  else Printf.sprintf "%d %s" (String.length s) (Digest.to_hex (Digest.string s))
let show_opt = function None -> "none" | Some l -> "ok " ^ show_bytes l
let len l = z (List.length l)

let handlers : (string, string list -> string) Hashtbl.t = Hashtbl.create 64
let reg name f = Hashtbl.replace handlers name f

let main () =
  try
    while true do
      let line = input_line stdin in
      let toks = String.split_on_char ' ' (String.trim line) in
      match toks with
      | [] | [""] -> print_endline ""
      | cmd :: args ->
        let out =
          try (match Hashtbl.find_opt handlers cmd with
               | Some f -> f args
               | None -> "unknown-command")
          with e -> "exception " ^ Printexc.to_string e in
        print_endline out
    done
  with End_of_file -> ()
