(* Driver of the extracted lz4file model (Model/File.v + Model/FileInst.v): oracle "lzfile".
   readsess <fixed 0|1> <junk hex> <file hex> <sizes, comma separated | ->
     -> open:ok r1 r2 ...   with r = ok:<len>:<md5> | err:<code> | oof
      | open:err:<code> | open:oof *)
open Lz4v
open Common

let ints s = if s = "-" || s = "" then [] else List.map zs (String.split_on_char ',' s)

let res_str = function
  | FOk l -> let s = string_of_bytes l in Printf.sprintf "ok:%d:%s" (String.length s) (Digest.to_hex (Digest.string s))
  | FErr e -> "err:" ^ zstr e
  | FOutOfFuel -> "oof"

let () =
  reg "readsess" (function [fixed; junk; file; sizes] ->
      (match read_session_ideal strict_valid_fast (fixed <> "0") (bytes_of_hex junk) (bytes_of_hex file) (ints sizes) with
       | FOk rs -> String.concat " " ("open:ok" :: List.map res_str rs)
       | FErr e -> "open:err:" ^ zstr e
       | FOutOfFuel -> "open:oof")
    | _ -> "badargs");
  (* readsessc <fixed> <junk hex> <file hex> <content hex> <sizes> : content supplied by the caller *)
  reg "readsessc" (function [fixed; junk; file; content; sizes] ->
      (match read_session_given (bytes_of_hex content) (fixed <> "0") (bytes_of_hex junk) (bytes_of_hex file) (ints sizes) with
       | FOk rs -> String.concat " " ("open:ok" :: List.map res_str rs)
       | FErr e -> "open:err:" ^ zstr e
       | FOutOfFuel -> "open:oof")
    | _ -> "badargs");
  reg "bufsize" (function [id] -> (match bufsize_of_bsid (zs id) with None -> "none" | Some n -> zstr n) | _ -> "badargs")

let () = Common.main ()
