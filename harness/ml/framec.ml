(* oracle "framec": LZ4F compressor model (Model/FrameC.v) driven call by call with a block
   tape, frame audit (Model/FrameAudit.v), frame/block spec decoders. *)
open Lz4v
open Common

let prefs_of_string (s : string) : prefs option =
  if s = "null" then None else
  match List.map zs (String.split_on_char ',' s) with
  | [a; b; c; d; e; f; g; h; i] ->
    Some { p_bsid = a; p_blockMode = b; p_ccrc = c; p_contentSize = d; p_dictID = e; p_bcrc = f;
           p_level = g; p_autoFlush = h; p_favorDec = i }
  | _ -> failwith "prefs"

(* block tape: answers of the block compressor, indexed by the makeBlock call number *)
type item = Raw | Comp of Big_int_Z.big_int list
let tape : (int, item) Hashtbl.t = Hashtbl.create 64
let tape_len = ref 0
let ctx = ref cctx_zero
(* per-call validation log of the contract blk_ok / blk_strict on the model's history *)
let calls = ref 0
let bad_spec = ref []
let bad_strict = ref []
let hist_lens = ref []

let blk (n : Big_int_Z.big_int) (h : Big_int_Z.big_int list) (x : Big_int_Z.big_int list) =
  let i = zi n in
  incr calls;
  match Hashtbl.find_opt tape i with
  | None -> failwith (Printf.sprintf "tape exhausted at block %d" i)
  | Some Raw -> None
  | Some (Comp c) ->
    hist_lens := List.length h :: !hist_lens;
    (* spec_decode_fast and strict_valid_fast in one pass: strict_valid_fast = end_ok && spec_decode_fast *)
    (match parse_block c with
     | Some (ss, last) ->
       (match run_seqs_fast h ss last with
        | Some y when y = x -> if not (end_ok ss last) then bad_strict := i :: !bad_strict
        | _ -> bad_spec := i :: !bad_spec; bad_strict := i :: !bad_strict)
     | None -> bad_spec := i :: !bad_spec; bad_strict := i :: !bad_strict);
    Some c

let push_tape (items : string list) =
  List.iter (fun s ->
      Hashtbl.replace tape !tape_len (if s = "r" then Raw else Comp (bytes_of_hex s));
      incr tape_len) items

let ints l = if l = [] then "-" else String.concat "," (List.rev_map string_of_int l)

let do_op (o : op) (items : string list) : string =
  push_tape items;
  calls := 0; bad_spec := []; bad_strict := []; hist_lens := [];
  let (r, c) = step blk !ctx o in
  ctx := c;
  let head = (match r with
      | Out b -> "ok " ^ show_bytes b
      | Err code -> "err " ^ zstr code
      | OutOfFuel -> "fuel") in
  Printf.sprintf "%s nblk=%s tape=%d calls=%d badspec=%s badstrict=%s hist=%s stage=%s tmp=%d"
    head (zstr c.c_nblk) !tape_len !calls (ints !bad_spec) (ints !bad_strict) (ints !hist_lens)
    (zstr c.c_stage) (List.length c.c_tmp)

let dk_of kind d =
  match kind with
  | "n" -> NoDict
  | "d" -> UsingDict (bytes_of_hex d)
  | "c" -> UsingCDict (bytes_of_hex d)
  | _ -> failwith "dictkind"

let () =
  reg "fc_reset" (function _ -> ctx := cctx_zero; Hashtbl.reset tape; tape_len := 0; "ok");
  reg "fc_begin" (function [p; k; d] -> do_op (OBegin (prefs_of_string p, dk_of k d)) [] | _ -> "badargs");
  reg "fc_update" (function s :: items -> do_op (OUpdate (bytes_of_hex s)) items | _ -> "badargs");
  reg "fc_unc" (function s :: items -> do_op (OUncompressed (bytes_of_hex s)) items | _ -> "badargs");
  reg "fc_flush" (function items -> do_op OFlush items);
  reg "fc_end" (function items -> do_op OEnd items);
  reg "fc_frame" (function p :: cd :: s :: items ->
      do_op (OFrame (prefs_of_string p, (if cd = "none" then None else Some (bytes_of_hex cd)), bytes_of_hex s)) items
    | _ -> "badargs");
  (* LZ4F_compressFrame: fresh context, own tape *)
  reg "fc_oneshot" (function p :: s :: items ->
      ctx := cctx_zero; Hashtbl.reset tape; tape_len := 0;
      do_op (OFrame (prefs_of_string p, None, bytes_of_hex s)) items
    | _ -> "badargs");
  reg "fc_header" (function [p] ->
      (match prefs_of_string p with Some p -> show_bytes (frame_header p) | None -> show_bytes (frame_header prefs_null))
    | _ -> "badargs");
  reg "getBlockSize" (function [b] -> zstr (getBlockSize (zs b)) | _ -> "badargs");
  reg "optimalBSID" (function [b; n] -> zstr (optimalBSID (zs b) (zs n)) | _ -> "badargs")

let show_desc (d : fdesc) =
  let o = function None -> "none" | Some v -> zstr v in
  Printf.sprintf "indep=%b bcrc=%b csize=%s ccrc=%b dictid=%s bsid=%s"
    d.f_indep d.f_bcrc (o d.f_csize) d.f_ccrc (o d.f_dictid) (zstr d.f_bsid)

let () =
  reg "specdec" (function [h; b] -> show_opt (spec_decode_fast (bytes_of_hex h) (bytes_of_hex b)) | _ -> "badargs");
  reg "strict" (function [h; b] -> show_opt (strict_valid_fast (bytes_of_hex h) (bytes_of_hex b)) | _ -> "badargs");
  reg "xxh32" (function [seed; b] -> zstr (xxh32 (zs seed) (bytes_of_hex b)) | _ -> "badargs");
  reg "frame" (function [strict; skip; d; b] ->
      let bdec = if strict = "1" then strict_valid_fast else spec_decode_fast in
      (match frame_decode bdec (skip = "1") (bytes_of_hex d) (bytes_of_hex b) with
       | None -> "none"
       | Some (c, rest) -> Printf.sprintf "ok %s rest=%d" (show_bytes c) (List.length rest))
    | _ -> "badargs");
  reg "audit" (function [strict; d; b] ->
      let bdec = if strict = "1" then strict_valid_fast else spec_decode_fast in
      (match frame_audit bdec (bytes_of_hex d) (bytes_of_hex b) with
       | None -> "none"
       | Some (((desc, c), rest), nb) ->
         Printf.sprintf "ok %s rest=%d nb=%s %s" (show_bytes c) (List.length rest) (zstr nb) (show_desc desc))
    | _ -> "badargs");
  reg "desc" (function [b] ->
      (match parse_desc (bytes_of_hex b) with
       | None -> "none"
       | Some (d, rest) -> Printf.sprintf "ok rest=%d %s" (List.length rest) (show_desc d))
    | _ -> "badargs")

let () = Common.main ()
