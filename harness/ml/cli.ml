(* oracle "cli": models of the lz4 CLI's sparse writer, option map and compression pipelines (C04) *)
open Lz4v
open Common

let md5_of_bytes l = Digest.to_hex (Digest.string (string_of_bytes l))
let show_op = function
  | Seek n -> "S" ^ zstr n
  | Write bs -> Printf.sprintf "W%d:%s" (List.length bs) (md5_of_bytes bs)
let show_ops ops = if ops = [] then "-" else String.concat "," (List.map show_op ops)

(* buffers: hex, or "z<N>" for N zero bytes, or "r<N>x<hex>" for the hex pattern repeated up to N bytes *)
let buffer_of (s : string) =
  if s = "-" then []
  else if s.[0] = 'z' then List.init (int_of_string (String.sub s 1 (String.length s - 1))) (fun _ -> z 0)
  else bytes_of_hex s

let () =
  (* fws <is_stdout 0|1> <sparseFileSupport> <storedSkips> <buffer> -> "<storedSkips'> <ops>" *)
  reg "fws" (function [so; sup; sk; b] ->
      (match fwrite_sparse (so = "1") (zs sup) (buffer_of b) (zs sk) with
       | None -> "fuel"
       | Some (s', ops) -> Printf.sprintf "%s %s" (zstr s') (show_ops ops))
    | _ -> "badargs");
  reg "fwend" (function [sk] -> show_ops (fwrite_sparse_end (zs sk)) | _ -> "badargs");
  (* image <is_stdout> <support> <buf>... : file image left by sparse_run on a fresh file (small cases) *)
  reg "image" (function so :: sup :: bufs ->
      (match sparse_run (so = "1") (zs sup) (List.map buffer_of bufs) (z 0) with
       | None -> "fuel"
       | Some ops -> let f = run_ops fresh_file ops in
         Printf.sprintf "%s %s" (zstr (f_pos f)) (show_bytes (f_data f)))
    | _ -> "badargs")


(* ---------------- option map and layouts ---------------- *)
let starts s p = String.length s >= String.length p && String.sub s 0 (String.length p) = p
let after s p = String.sub s (String.length p) (String.length s - String.length p)
let is_num s = s <> "" && String.for_all (fun c -> c >= '0' && c <= '9') s
let arg_of (t : string) : arg =
  if t = "--fast" then A_fast None
  else if starts t "--fast=" then A_fast (Some (zs (after t "--fast=")))
  else if t = "--best" then A_best
  else if t = "-BD" then A_BD else if t = "-BI" then A_BI else if t = "-BX" then A_BX
  else if starts t "-B" && is_num (after t "-B") then A_B (zs (after t "-B"))
  else if t = "--content-size" then A_content_size
  else if t = "--no-content-size" then A_no_content_size
  else if t = "--frame-crc" then A_frame_crc
  else if t = "--no-frame-crc" then A_no_frame_crc
  else if t = "--no-crc" then A_no_crc
  else if t = "--favor-decSpeed" then A_favor_decSpeed
  else if t = "-l" then A_legacy
  else if t = "-D" then A_dict
  else if starts t "-" && is_num (after t "-") then A_level (zs (after t "-"))
  else failwith ("unmodelled option " ^ t)

let rle (l : Big_int_Z.big_int list) : string =
  let rec go acc cur n = function
    | [] -> List.rev (match cur with None -> acc | Some c -> (c, n) :: acc)
    | x :: r -> (match cur with
        | Some c when Big_int_Z.eq_big_int c x -> go acc cur (n + 1) r
        | Some c -> go ((c, n) :: acc) (Some x) 1 r
        | None -> go acc (Some x) 1 r) in
  let runs = go [] None 0 l in
  if runs = [] then "-" else String.concat "," (List.map (fun (c, n) -> Printf.sprintf "%sx%d" (zstr c) n) runs)
let b01 b = if b then "1" else "0"
let show_layout (l : layout) =
  Printf.sprintf "indep=%s bcrc=%s csize=%s ccrc=%s bsid=%s blocks=%s" (b01 l.l_indep) (b01 l.l_bcrc)
    (match l.l_csize with None -> "-" | Some n -> zstr n) (b01 l.l_ccrc) (zstr l.l_bsid) (rle l.l_blocks)
let show_io (p : io_prefs) = Printf.sprintf "%s %s" (zstr p.io_blockSize) (zstr p.io_blockSizeId)

let () =
  (* setbs <n> -> "<ret> <blockSize> <blockSizeId>" on default preferences *)
  reg "setbs" (function [n] ->
      (match set_block_size default_io_prefs (zs n) with
       | None -> "fuel"
       | Some (r, p) -> Printf.sprintf "%s %s" (zstr r) (show_io p))
    | _ -> "badargs");
  reg "setbsid" (function [n] ->
      let (r, p) = set_block_size_id default_io_prefs (zs n) in Printf.sprintf "%s %s" (zstr r) (show_io p)
    | _ -> "badargs");
  (* layout <mt|st> <fileSize> <n> <arg>... *)
  reg "layout" (function build :: fsz :: n :: args ->
      (match parse_args cli_init (List.map arg_of args) with
       | None -> "badusage"
       | Some s ->
         if s.c_legacy then "legacy blocks=" ^ rle (legacy_layout (zs n))
         else show_layout ((if build = "mt" then mt_layout else st_layout) s (zs fsz) (zs n)))
    | _ -> "badargs");
  (* bytes <mt|st> <fileSize> <hex content> <arg>... : the file the model predicts when every block is stored raw *)
  reg "bytes" (function build :: fsz :: content :: args ->
      (match parse_args cli_init (List.map arg_of args) with
       | None -> "badusage"
       | Some s -> show_bytes (cli_bytes_raw (build = "mt") s (zs fsz) [] (buffer_of content)))
    | _ -> "badargs");
  (* state <arg>... : parsed options *)
  reg "state" (function args ->
      (match parse_args cli_init (List.map arg_of args) with
       | None -> "badusage"
       | Some s -> let p = s.c_prefs in
         Printf.sprintf "level=%s legacy=%s bsid=%s bs=%s bcrc=%s ccrc=%s indep=%s csize=%s dict=%s" (zstr s.c_level) (b01 s.c_legacy)
           (zstr p.io_blockSizeId) (zstr p.io_blockSize) (zstr p.io_blockChecksum) (zstr p.io_streamChecksum)
           (zstr p.io_blockIndependence) (zstr p.io_contentSizeFlag) (zstr p.io_useDictionary)))

let () = Common.main ()
