(* oracle "cli": models of the lz4 CLI's sparse writer, option map and compression pipelines (C04) *)
open Lz4v
open Common

let md5_of_bytes l = Digest.to_hex (Digest.string (string_of_bytes l))
let show_op = function
  | Seek n -> "S" ^ zstr n
  | Write bs -> Printf.sprintf "W%d:%s" (List.length bs) (md5_of_bytes bs)
let show_ops ops = if ops = [] then "-" else String.concat "," (List.map show_op ops)

(* buffers: hex, or "z<N>" for N zero bytes, or "r<N>x<hex>" for the hex pattern repeated up to N bytes *)
let buffer_of (s : string) =
  if s = "-" then []
  else if s.[0] = 'z' then List.init (int_of_string (String.sub s 1 (String.length s - 1))) (fun _ -> z 0)
  else bytes_of_hex s

let () =
  (* fws <is_stdout 0|1> <sparseFileSupport> <storedSkips> <buffer> -> "<storedSkips'> <ops>" *)
  reg "fws" (function [so; sup; sk; b] ->
      (match fwrite_sparse (so = "1") (zs sup) (buffer_of b) (zs sk) with
       | None -> "fuel"
       | Some (s', ops) -> Printf.sprintf "%s %s" (zstr s') (show_ops ops))
    | _ -> "badargs");
  reg "fwend" (function [sk] -> show_ops (fwrite_sparse_end (zs sk)) | _ -> "badargs");
  (* image <is_stdout> <support> <buf>... : file image left by sparse_run on a fresh file (small cases) *)
  reg "image" (function so :: sup :: bufs ->
      (match sparse_run (so = "1") (zs sup) (List.map buffer_of bufs) (z 0) with
       | None -> "fuel"
       | Some ops -> let f = run_ops fresh_file ops in
         Printf.sprintf "%s %s" (zstr (f_pos f)) (show_bytes (f_data f)))
    | _ -> "badargs")

let () = Common.main ()
