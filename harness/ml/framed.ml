(* oracle "framed": the extracted frame-decoder model, driven call by call.
   Contexts live in a table; every command returns one line. *)
open Lz4v
open Common

let ctxs : (int, dstate) Hashtbl.t = Hashtbl.create 16
let next = ref 0
(* block decoder = the specification's; every invocation of the current call is logged so that the
   harness can attribute a model/code difference to the block decoder (C05's domain) *)
let bdlog : (Big_int_Z.big_int list * Big_int_Z.big_int list * bool) list ref = ref []
let bdec h bk = let r = spec_decode_fast h bk in bdlog := (h, bk, r <> None) :: !bdlog; r
let stage_name = function
  | GetFrameHeader -> "getFrameHeader" | StoreFrameHeader -> "storeFrameHeader" | Init -> "init"
  | GetBlockHeader -> "getBlockHeader" | StoreBlockHeader -> "storeBlockHeader" | CopyDirect -> "copyDirect"
  | GetBlockChecksum -> "getBlockChecksum" | GetCBlock -> "getCBlock" | StoreCBlock -> "storeCBlock"
  | FlushOut -> "flushOut" | GetSuffix -> "getSuffix" | StoreSuffix -> "storeSuffix"
  | GetSFrameSize -> "getSFrameSize" | StoreSFrameSize -> "storeSFrameSize" | SkipSkippable -> "skipSkippable"
let show_fi (f : finfo) =
  Printf.sprintf "bsid=%s bmode=%s cc=%s ftype=%s csize=%s dictid=%s bc=%s"
    (zstr f.fi_blockSizeID) (zstr f.fi_blockMode) (zstr f.fi_ccFlag) (zstr f.fi_frameType)
    (zstr f.fi_contentSize) (zstr f.fi_dictID) (zstr f.fi_bcFlag)
let cur_dict : Big_int_Z.big_int list ref = ref []
let get id = Hashtbl.find ctxs (int_of_string id)
let put id s = Hashtbl.replace ctxs (int_of_string id) s
(* the concrete dictionary / tmpOut bookkeeping (Model.FrameDDict) of the same contexts *)
let dds : (int, ddict) Hashtbl.t = Hashtbl.create 16
let getd id = try Hashtbl.find dds (int_of_string id) with Not_found -> dd_init
let putd id d = Hashtbl.replace dds (int_of_string id) d
let fake = ref 0
let show_dd (d : ddict) =
  Printf.sprintf "%s,%s,%s,%s,%s"
    (match d.dd_dict with PNull -> "0,0" | PTmp o -> "1," ^ zstr o | PAbs a -> "2," ^ zstr a)
    (zstr d.dd_dictSize) (zstr d.dd_tmpOut) (zstr d.dd_tmpOutSize) (zstr d.dd_tmpOutStart)
let b s = (s = "1")

let () =
  reg "new" (function _ -> incr next; Hashtbl.replace ctxs !next dctx_init; Hashtbl.replace dds !next dd_init; string_of_int !next);
  reg "free" (function [id] -> Hashtbl.remove ctxs (int_of_string id); Hashtbl.remove dds (int_of_string id); "ok" | _ -> "badargs");
  reg "copy" (function [id] -> incr next; Hashtbl.replace ctxs !next (get id); Hashtbl.replace dds !next (getd id); string_of_int !next | _ -> "badargs");
  reg "reset" (function [id] -> put id (reset (get id)); putd id (dd_reset (getd id)); "ok" | _ -> "badargs");
  reg "setdict" (function [d] -> cur_dict := bytes_of_hex d; "ok" | _ -> "badargs");
  (* dec <id> <src> <cap> <dstnull> <skip> <usedict> [<stableDst> <dst address> <dictionary address>]
     (dictionary = the one given by setdict; without addresses: fresh fake ones, far apart)
     ->  consumed produced ret fuel oob stage outlen outmd5 [outhex] st=.. cap=.. dd=class,value,dictSize,tmpOut,tmpOutSize,tmpOutStart nops=.. *)
  let dec id src cap dstnull skip usedict stable dstaddr dictaddr =
      let s = get id in
      bdlog := [];
      let o = { o_stableDst = b stable; o_skip = b skip; o_dstnull = b dstnull } in
      let (((s', r), d'), ops) =
        if b usedict then dd_decompress_usingDict bdec s (getd id) (bytes_of_hex src) (zs cap) !cur_dict (zs dictaddr) o (zs dstaddr)
        else dd_decompress bdec s (getd id) (bytes_of_hex src) (zs cap) o (zs dstaddr) in
      put id s'; putd id d';
      Printf.sprintf "%s %s %s %s %s %s %s st=%s,%s,%s,%s,%s,%s,%b cap=%s dd=%s nops=%d" (zstr r.r_consumed) (zstr r.r_produced) (zstr r.r_ret)
        (if r.r_fuel then "FUEL" else "ok") (if s'.d_oob then "OOB" else "ok") (stage_name s'.d_stage) (show_bytes r.r_out)
        (zstr (stage_num s'.d_stage)) (zstr s'.d_remaining) (zstr s'.d_tmpInSize) (zstr s'.d_tmpInTarget)
        (zstr s'.d_maxBlock) (zstr s'.d_maxBuf) s'.d_skip (zstr s'.d_tmpInCap) (show_dd d') (List.length ops)
        ^ (if ops_okb s'.d_maxBuf (zs dstaddr) (Big_int_Z.add_big_int (zs dstaddr) (zs cap)) ops then " bounds=ok" else " bounds=BAD") in
  reg "dec" (function
    | [id; src; cap; dstnull; skip; usedict] ->
      incr fake;
      dec id src cap dstnull skip usedict "0" (if b dstnull then "0" else string_of_int (!fake * 1073741824)) "65536"
    | [id; src; cap; dstnull; skip; usedict; stable; dstaddr; dictaddr] -> dec id src cap dstnull skip usedict stable dstaddr dictaddr
    | _ -> "badargs");
  (* info <id> <src> -> consumed ret fuel stage none|<fields> *)
  reg "info" (function [id; src] ->
      let s = get id in
      let ((s', r), d') = dd_getFrameInfo bdec s (getd id) (bytes_of_hex src) in
      put id s'; putd id d';
      Printf.sprintf "%s %s %s %s %s" (zstr r.i_consumed) (zstr r.i_ret) (if r.i_fuel then "FUEL" else "ok")
        (stage_name s'.d_stage) (match r.i_info with None -> "none" | Some f -> show_fi f)
    | _ -> "badargs");
  (* bdlog -> n then n triples (hist block specresult) of the last dec command *)
  reg "bdlog" (function _ ->
      String.concat " " (string_of_int (List.length !bdlog) ::
        List.map (fun (h, bk, ok) -> Printf.sprintf "%s %s %s" (hex_of_bytes h) (hex_of_bytes bk) (if ok then "1" else "0")) (List.rev !bdlog)));
  reg "hsize" (function [null; src] -> zstr (headerSize (b null) (bytes_of_hex src)) | _ -> "badargs");
  reg "state" (function [id] ->
      let s = get id in
      Printf.sprintf "stage=%s remaining=%s maxBlock=%s maxBuf=%s tmpInCap=%s tmpInSize=%s tmpInTarget=%s hist=%d tmpOut=%d tmpOutStart=%s skip=%b oob=%b %s"
        (stage_name s.d_stage) (zstr s.d_remaining) (zstr s.d_maxBlock) (zstr s.d_maxBuf) (zstr s.d_tmpInCap) (zstr s.d_tmpInSize)
        (zstr s.d_tmpInTarget) (List.length s.d_hist) (List.length s.d_tmpOut) (zstr s.d_tmpOutStart) s.d_skip s.d_oob (show_fi s.d_fi)
    | _ -> "badargs");
  (* ---- specification side (judge) ---- *)
  reg "specframe" (function [skip; d; bs] ->
      (match frame_decode spec_decode_fast (b skip) (bytes_of_hex d) (bytes_of_hex bs) with
       | None -> "none"
       | Some (c, rest) -> Printf.sprintf "ok %s rest=%d" (show_bytes c) (List.length rest))
    | _ -> "badargs");
  reg "pdesc" (function [bs] ->
      (match parse_desc (bytes_of_hex bs) with
       | None -> "none"
       | Some (d, rest) ->
         Printf.sprintf "ok indep=%b bcrc=%b csize=%s ccrc=%b dictid=%s bsid=%s rest=%d" d.f_indep d.f_bcrc
           (match d.f_csize with None -> "none" | Some n -> zstr n) d.f_ccrc
           (match d.f_dictid with None -> "none" | Some n -> zstr n) (zstr d.f_bsid) (List.length rest))
    | _ -> "badargs");
  reg "xxh32" (function [seed; bs] -> zstr (xxh32 (zs seed) (bytes_of_hex bs)) | _ -> "badargs");
  reg "specdec" (function [h; bk] -> show_opt (spec_decode_fast (bytes_of_hex h) (bytes_of_hex bk)) | _ -> "badargs");
  (* ---- compression-context bookkeeping (C19, cctx half) ---- *)
  (* cbegin <alloc> <type> <stage> <level> <cap> -> ret alloc type stage *)
  reg "cbegin" (function [alloc; ty; st; level; cap] ->
      let c = { c_alloc = zs alloc; c_type = zs ty; c_stage = zs st } in
      let (c', r) = cbegin c (zs level) (zs cap) in
      Printf.sprintf "%s %s %s %s" (zstr r) (zstr c'.c_alloc) (zstr c'.c_type) (zstr c'.c_stage)
    | _ -> "badargs")

let () = Common.main ()
