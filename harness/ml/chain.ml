(* Driver for the extracted hash-chain parser models (oracle "chain"). *)
open Common
open Lz4v

let cur = ref cc_init

let le_digest (n : int) (w : int) (f : int -> int) : string =
  let b = Bytes.create (w * n) in
  for i = 0 to n - 1 do
    let v = f i in
    for k = 0 to w - 1 do Bytes.set b (w*i+k) (Char.chr ((v lsr (8*k)) land 255)) done
  done;
  Digest.to_hex (Digest.bytes b)
let hash_digest (m : mem) = le_digest 32768 4 (fun i -> zi (get m (z i)))
let chain_digest (c : ctab) = le_digest 65536 2 (fun i -> zi (ctget c (z i)))

let show (r : cres_api) : string =
  let c = r.cr_ctx in
  Printf.sprintf "%s %s %s hw=%s end=%s dirty=%d ntu=%s fav=%d ht=%s ct=%s" (zstr r.cr_ret) (zstr r.cr_consumed) (show_bytes r.cr_out)
    (zstr r.cr_hw) (zstr c.cc_endIdx) (if c.cc_dirty then 1 else 0) (zstr c.cc_ntu) (if c.cc_fav then 1 else 0)
    (hash_digest c.cc_hash) (chain_digest c.cc_chain)

(* search session *)
let ss_mem = ref (mem_of_list (z 0) [])
let ss_dict = ref (z 0)
let ss_tabs = ref (ss_init (fun _ -> z 0) (z 0))
let ss_vrd p = get !ss_mem (Big_int_Z.sub_big_int p (z 65536))

let () =
  reg "chaininit" (function _ -> cur := cc_init; "ok");
  reg "chainfav" (function [f] -> cur := cc_set_fav !cur (f = "1"); "ok" | _ -> "badargs");
  (* chainsetend <idx> : the context has already indexed idx bytes (dictLimit = idx, end = prefixStart) *)
  reg "chainsetend" (function [i] -> let c = !cur in cur := { c with cc_endIdx = zs i }; "ok" | _ -> "badargs");
  (* chainfr <src> <cap> <level> : LZ4_compress_HC_extStateHC_fastReset on the session context *)
  reg "chainfr" (function [src; cap; lvl] ->
      let src = bytes_of_hex src in
      let r = compress_HC_fastReset_all !cur (mem_of_list (z 0) src) (len src) (zs cap) (zs lvl) in
      cur := r.cr_ctx; show r
    | _ -> "badargs");
  (* chainds <src> <target> <level> : LZ4_compress_HC_destSize; the session context becomes the resulting one *)
  reg "chainds" (function [src; target; lvl] ->
      let src = bytes_of_hex src in
      let r = compress_HC_destSize_all (mem_of_list (z 0) src) (len src) (zs target) (zs lvl) in
      cur := r.cr_ctx; show r
    | _ -> "badargs");
  reg "chainone" (function [src; cap; lvl] ->
      let src = bytes_of_hex src in
      show (compress_HC_all (mem_of_list (z 0) src) (len src) (zs cap) (zs lvl))
    | _ -> "badargs");
  (* ssinit <dict> <prefix> *)
  reg "ssinit" (function [d; p] ->
      let d = bytes_of_hex d and p = bytes_of_hex p in
      ss_mem := mem_of_list (z 0) (d @ p); ss_dict := len d;
      ss_tabs := ss_init ss_vrd !ss_dict; "ok"
    | _ -> "badargs");
  (* sssearch ipOff lowOff highOff longest nb pa swap fav *)
  reg "sssearch" (function [ip; lo; hi; lg; nb; pa; sw; fv] ->
      (match ss_search ss_vrd !ss_dict !ss_tabs (zs ip) (zs lo) (zs hi) (zs lg) (zs nb) (pa = "1") (sw = "1") (fv = "1") with
       | None -> "undef"
       | Some (m, t) ->
         ss_tabs := t;
         Printf.sprintf "%s %s %s ntu=%s ht=%s ct=%s" (zstr m.hm_off) (zstr m.hm_len) (zstr m.hm_back) (zstr t.t_ntu)
           (hash_digest t.t_hash) (chain_digest t.t_chain))
    | _ -> "badargs")


(* ---- dictCtx search session: working stream freshly anchored at 64 KB, dictionary context tables given by the caller ---- *)
let ds_mem = ref (mem_of_list (z 0) [])
let ds_dn = ref 0
let ds_tabs = ref { t_hash = empty0; t_chain = { ct_m = empty0; ct_def = z 0 }; t_ntu = z 65536 }
let ds_dht = ref empty0
let ds_dct = ref { ct_m = empty0; ct_def = z 0 }
let ds_vrd p = get !ds_mem (Big_int_Z.sub_big_int p (z (65536 - !ds_dn)))
let le_at (s : string) (off : int) (w : int) : int =
  let v = ref 0 in
  for k = w - 1 downto 0 do v := (!v lsl 8) lor (hexval s.[2*(off+k)] * 16 + hexval s.[2*(off+k)+1]) done; !v

let () =
  (* dsinit <dict> <prefix> <dictCtx.hashTable hex> <dictCtx.chainTable hex> *)
  reg "dsinit" (function [d; p; hh; ch] ->
      let d = bytes_of_hex d and p = bytes_of_hex p in
      ds_mem := mem_of_list (z 0) (d @ p); ds_dn := List.length d;
      ds_tabs := { t_hash = empty0; t_chain = { ct_m = empty0; ct_def = z 0 }; t_ntu = z 65536 };
      let h = ref empty0 in
      for i = 0 to 32767 do let v = le_at hh (4*i) 4 in if v <> 0 then h := set !h (z i) (z v) done;
      ds_dht := !h;
      let c = ref { ct_m = empty0; ct_def = z 0 } in
      for i = 0 to 65535 do let v = le_at ch (2*i) 2 in if v <> 0 then c := ctset !c (z i) (z v) done;
      ds_dct := !c; "ok"
    | _ -> "badargs");
  (* dssearch ipOff lowOff highOff longest nb pa swap fav : LZ4HC_InsertAndGetWiderMatch with dict == usingDictCtxHc *)
  reg "dssearch" (function [ip; lo; hi; lg; nb; pa; sw; fv] ->
      let b = z 65536 in let a x = Big_int_Z.add_big_int b (zs x) in
      (match insertAndGetWiderMatch_dict ds_vrd b b !ds_dht !ds_dct b (z (65536 + !ds_dn)) !ds_tabs (a ip) (a lo) (a hi) (zs lg) (zs nb)
               (pa = "1") (sw = "1") (fv = "1") with
       | None -> "undef"
       | Some (m, t) ->
         ds_tabs := t;
         Printf.sprintf "%s %s %s ntu=%s ht=%s ct=%s" (zstr m.hm_off) (zstr m.hm_len) (zstr m.hm_back) (zstr t.t_ntu)
           (hash_digest t.t_hash) (chain_digest t.t_chain))
    | _ -> "badargs")

let () = Common.main ()
