(* Runs the extracted Coq definitions on one command per input line.
   Bytes travel as hex strings ("-" = empty).  One result line per command. *)
open Lz4v

let z = Big_int_Z.big_int_of_int
let zi = Big_int_Z.int_of_big_int

let hexval c = match c with
  | '0'..'9' -> Char.code c - 48 | 'a'..'f' -> Char.code c - 87 | 'A'..'F' -> Char.code c - 55
  | _ -> failwith "hex"
let bytes_of_hex (s : string) : Big_int_Z.big_int list =
  if s = "-" then [] else begin
    let n = String.length s / 2 in
    let r = ref [] in
    for i = n - 1 downto 0 do
      r := z (hexval s.[2*i] * 16 + hexval s.[2*i+1]) :: !r
    done; !r end
let string_of_bytes (l : Big_int_Z.big_int list) : string =
  let b = Buffer.create 1024 in
  List.iter (fun x -> Buffer.add_char b (Char.chr ((zi x) land 255))) l;
  Buffer.contents b
let hex_of_string (s : string) : string =
  if s = "" then "-" else begin
    let b = Buffer.create (2 * String.length s) in
    String.iter (fun c -> Buffer.add_string b (Printf.sprintf "%02x" (Char.code c))) s;
    Buffer.contents b end
let full = (try Sys.getenv "ORACLE_FULL" = "1" with Not_found -> false)
let show_bytes l =
  let s = string_of_bytes l in
  if full then Printf.sprintf "%d %s %s" (String.length s) (Digest.to_hex (Digest.string s)) (hex_of_string s)
  else Printf.sprintf "%d %s" (String.length s) (Digest.to_hex (Digest.string s))
let show_opt = function None -> "none" | Some l -> "ok " ^ show_bytes l

let handlers : (string, string list -> string) Hashtbl.t = Hashtbl.create 64
let reg name f = Hashtbl.replace handlers name f

let () =
  reg "specdec" (function [h; b] -> show_opt (spec_decode_fast (bytes_of_hex h) (bytes_of_hex b)) | _ -> "badargs");
  reg "strict" (function [h; b] -> show_opt (strict_valid_fast (bytes_of_hex h) (bytes_of_hex b)) | _ -> "badargs");
  reg "specdec_ref" (function [h; b] -> show_opt (spec_decode (bytes_of_hex h) (bytes_of_hex b)) | _ -> "badargs");
  reg "strict_ref" (function [h; b] -> show_opt (strict_valid (bytes_of_hex h) (bytes_of_hex b)) | _ -> "badargs");
  reg "xxh32" (function [seed; b] -> Big_int_Z.string_of_big_int (xxh32 (Big_int_Z.big_int_of_string seed) (bytes_of_hex b)) | _ -> "badargs");
  reg "frame" (function [strict; skip; d; b] ->
      let bdec = if strict = "1" then strict_valid_fast else spec_decode_fast in
      (match frame_decode bdec (skip = "1") (bytes_of_hex d) (bytes_of_hex b) with
       | None -> "none"
       | Some (c, rest) -> Printf.sprintf "ok %s rest=%d" (show_bytes c) (List.length rest))
    | _ -> "badargs");
  reg "stream" (function [strict; d; b] ->
      let bdec = if strict = "1" then strict_valid_fast else spec_decode_fast in
      let bs = bytes_of_hex b in
      show_opt (stream_decode bdec false (Big_int_Z.big_int_of_int (List.length bs + 1)) (bytes_of_hex d) [] bs)
    | _ -> "badargs")

let () = Models.register reg

let () =
  try
    while true do
      let line = input_line stdin in
      let toks = String.split_on_char ' ' (String.trim line) in
      match toks with
      | [] | [""] -> print_endline ""
      | cmd :: args ->
        let out =
          try (match Hashtbl.find_opt handlers cmd with
               | Some f -> f args
               | None -> "unknown-command")
          with e -> "exception " ^ Printexc.to_string e in
        print_endline out
    done
  with End_of_file -> ()
