(* oracle "iolz4f": the concrete ST LZ4F decode loop of lz4io.c (Model/IoLz4f.v) run over the decoder model
   Model/FrameD.v, next to the abstract step Io.lz4f_st over Spec.frame_decode.
   lz4fst <test 0|1> <rpos:N|-> <wpos:N|-> <bytes after the magic number>
     -> "<ret|die CODE> out=<len md5> rest=<bytes left in the source> rerr=<0|1> tr=<events oldest first>"
        events: rW/G[!] fread(want W) delivered G, ! = error;  wN+ / wN- fwrite of N bytes ok / failed
   lz4fabs: the same through Io.lz4f_st (one read, one write). *)
open Lz4v
open Common

let faults_of r w =
  let lim s = if s = "-" then None else Some (zs (List.nth (String.split_on_char ':' s) 1)) in
  { no_faults with f_rlimit = lim r; f_wlimit = lim w }

let show_event = function
  | ERead (w, g, e) -> Printf.sprintf "r%s/%s%s" (zstr w) (zstr g) (if e then "!" else "")
  | EWrite (n, ok) -> Printf.sprintf "w%s%s" (zstr n) (if ok then "+" else "-")
  | _ -> "?"

let show (r : unit res) =
  let (tag, s) = (match r with Ret0 (_, s) -> ("ret", s) | Die (c, s) -> ("die " ^ zstr c, s)) in
  Printf.sprintf "%s out=%s rest=%d rerr=%d tr=%s" tag (show_bytes s.s_out) (List.length s.s_in)
    (if s.s_rerr then 1 else 0)
    (let l = List.rev_map show_event s.s_tr in if l = [] then "-" else String.concat "," l)

let () =
  reg "lz4fst" (function [test; r; w; data] ->
      show (lz4f_st_run spec_decode_fast false (test = "1") (faults_of r w) (st_init (bytes_of_hex data) (z 0)))
    | _ -> "badargs");
  reg "lz4fabs" (function [test; r; w; data] ->
      show (lz4f_st (fun bs -> frame_decode spec_decode_fast false [] bs) (test = "1") (faults_of r w)
              (st_init (bytes_of_hex data) (z 0)))
    | _ -> "badargs")

(* hintscan <valid frame, hex>: bounded search for a hint that exceeds the frame.  The frame is fed to Model.FrameD's
   decompress from a calloc'ed context in every way of cutting it at two positions k1 <= k2 (what a call does not consume
   is offered again), with destination capacities 65536 and 3; after every call that returns a hint h > 0 having consumed
   up to position p: h <= |frame| - p is required.  -> "ok calls=N" | "bad k1=.. k2=.. cap=.. pos=.. hint=.. left=.." *)
let rec drop k l = if k <= 0 then l else (match l with [] -> [] | _ :: r -> drop (k - 1) r)
let rec take k l = if k <= 0 then [] else (match l with [] -> [] | x :: r -> x :: take (k - 1) r)
let () =
  reg "hintscan" (function [data] ->
      let frame = bytes_of_hex data in
      let n = List.length frame in
      let calls = ref 0 in
      let bad = ref None in
      (try
        List.iter (fun cap ->
          for k1 = 1 to n do
            for k2 = k1 to n do
              let bounds = [k1; k2; n] in
              let d = ref dctx_init and pos = ref 0 and fin = ref false in
              List.iter (fun b ->
                let guard = ref 0 in
                while not !fin && !pos < b && !guard < 100000 do
                  incr guard; incr calls;
                  let piece = take (b - !pos) (drop !pos frame) in
                  let (d', r) = decompress spec_decode_fast !d piece (z cap) o_null in
                  d := d';
                  let c = zi r.r_consumed and h = zi r.r_ret in
                  if h < 0 then (bad := Some (Printf.sprintf "error %d on a valid frame k1=%d k2=%d cap=%d pos=%d" h k1 k2 cap !pos); raise Exit);
                  pos := !pos + c;
                  if h = 0 then fin := true
                  else if h > n - !pos then
                    (bad := Some (Printf.sprintf "k1=%d k2=%d cap=%d pos=%d hint=%d left=%d" k1 k2 cap !pos h (n - !pos)); raise Exit)
                  else if c = 0 && List.length r.r_out = 0 && !pos < b then (guard := 100000)
                done) bounds
            done
          done) [65536; 3]
       with Exit -> ());
      (match !bad with None -> Printf.sprintf "ok calls=%d" !calls | Some m -> "bad " ^ m)
    | _ -> "badargs")

let () = Common.main ()
