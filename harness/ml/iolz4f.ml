(* oracle "iolz4f": the concrete ST LZ4F decode loop of lz4io.c (Model/IoLz4f.v) run over the decoder model
   Model/FrameD.v, next to the abstract step Io.lz4f_st over Spec.frame_decode.
   lz4fst <test 0|1> <rpos:N|-> <wpos:N|-> <bytes after the magic number>
     -> "<ret|die CODE> out=<len md5> rest=<bytes left in the source> rerr=<0|1> tr=<events oldest first>"
        events: rW/G[!] fread(want W) delivered G, ! = error;  wN+ / wN- fwrite of N bytes ok / failed
   lz4fabs: the same through Io.lz4f_st (one read, one write). *)
open Lz4v
open Common

let faults_of r w =
  let lim s = if s = "-" then None else Some (zs (List.nth (String.split_on_char ':' s) 1)) in
  { no_faults with f_rlimit = lim r; f_wlimit = lim w }

let show_event = function
  | ERead (w, g, e) -> Printf.sprintf "r%s/%s%s" (zstr w) (zstr g) (if e then "!" else "")
  | EWrite (n, ok) -> Printf.sprintf "w%s%s" (zstr n) (if ok then "+" else "-")
  | _ -> "?"

let show (r : unit res) =
  let (tag, s) = (match r with Ret0 (_, s) -> ("ret", s) | Die (c, s) -> ("die " ^ zstr c, s)) in
  Printf.sprintf "%s out=%s rest=%d rerr=%d tr=%s" tag (show_bytes s.s_out) (List.length s.s_in)
    (if s.s_rerr then 1 else 0)
    (let l = List.rev_map show_event s.s_tr in if l = [] then "-" else String.concat "," l)

let () =
  reg "lz4fst" (function [test; r; w; data] ->
      show (lz4f_st_run spec_decode_fast false (test = "1") (faults_of r w) (st_init (bytes_of_hex data) (z 0)))
    | _ -> "badargs");
  reg "lz4fabs" (function [test; r; w; data] ->
      show (lz4f_st (fun bs -> frame_decode spec_decode_fast false [] bs) (test = "1") (faults_of r w)
              (st_init (bytes_of_hex data) (z 0)))
    | _ -> "badargs")

let () = Common.main ()
