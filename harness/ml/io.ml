(* oracle "io": the extracted model of lz4io.c's decode control flow (Model/Io.v), instantiated with the
   specification decoders (Spec.FrameSpec.frame_decode over the fast block decoder, Spec spec_decode). *)
open Lz4v
open Common

let fdec bs = frame_decode spec_decode_fast false [] bs
let bdec blk = spec_decode_fast [] blk

(* fault syntax: "-" | item{,item}   item = rpos:N | wpos:N | opensrc | opendst | closedst | remove | seek:K (K-th fseek, 1-based) *)
let parse_faults (str : string) : faults =
  let f = ref no_faults in
  if str <> "-" then
    List.iter (fun it ->
      let cur = !f in
      match String.split_on_char ':' it with
      | ["rpos"; n] -> f := { cur with f_rlimit = Some (zs n) }
      | ["wpos"; n] -> f := { cur with f_wlimit = Some (zs n) }
      | ["opensrc"] -> f := { cur with f_open_src = true }
      | ["opendst"] -> f := { cur with f_open_dst = true }
      | ["closedst"] -> f := { cur with f_close_dst = true }
      | ["remove"] -> f := { cur with f_remove = true }
      | ["seek"; k] -> let k = int_of_string k in
                       let old = cur.f_seek in
                       f := { cur with f_seek = (fun i -> old i || zi i = k - 1) }
      | _ -> failwith ("fault syntax: " ^ it)) (String.split_on_char ',' str);
  !f

let show_event = function
  | EOpenSrc ok -> if ok then "os+" else "os-"
  | EOpenDst ok -> if ok then "od+" else "od-"
  | ERead (w, g, e) -> Printf.sprintf "r%s/%s%s" (zstr w) (zstr g) (if e then "!" else "")
  | ESeek (n, ok) -> Printf.sprintf "s%s%s" (zstr n) (if ok then "+" else "-")
  | EWrite (n, ok) -> Printf.sprintf "w%s%s" (zstr n) (if ok then "+" else "-")
  | ECloseSrc -> "cs"
  | ECloseDst ok -> if ok then "cd+" else "cd-"
  | ERemoveSrc ok -> if ok then "rm+" else "rm-"

let show_outcome (o : outcome) =
  Printf.sprintf "exit %s %s %s %s %s" (zstr o.o_exit) (show_bytes o.o_out) (if o.o_removed then "1" else "0")
    (if o.o_pasteof then "1" else "0") (String.concat "," (List.map show_event o.o_trace))

let b s = (s = "1")

let () =
  (* dec <ST|MT> <seekable> <test> <rm> <faults> <hex> [passthru] *)
  reg "dec" (function
    | build :: seekable :: test :: rm :: fl :: data :: rest ->
      let o = decompress_file fdec bdec (build = "MT") (b test) (rest = ["1"]) (b seekable) (b rm) (parse_faults fl) (bytes_of_hex data) in
      show_outcome o
    | _ -> "badargs");
  (* multi <ST|MT> <seekable> <test> <rm> <faults1> <hex1> <faults2> <hex2> ... *)
  reg "multi" (function
    | build :: seekable :: test :: rm :: rest ->
      let rec pairs = function
        | fl :: d :: r -> (parse_faults fl, bytes_of_hex d) :: pairs r
        | [] -> []
        | _ -> failwith "odd" in
      let (code, outs) = decompress_multi fdec bdec (build = "MT") (b test) (b seekable) (b rm) (pairs rest) in
      Printf.sprintf "exit %s | %s" (zstr code) (String.concat " | " (List.map show_outcome outs))
    | _ -> "badargs");
  (* comp <legacy> <rm> <faults> <hex> : compression tail with an abstract compressor (one header byte + the input) *)
  reg "comp" (function
    | [legacy; rm; fl; data] ->
      show_outcome (compress_file (fun x -> z 4 :: x) (b legacy) (b rm) (parse_faults fl) (bytes_of_hex data))
    | _ -> "badargs");
  reg "consts" (function _ ->
      Printf.sprintf "LEGACY_BOUND=%s LEGACY_BLOCKSIZE=%s LEGACY_MAGIC=%s MAGIC=%s SKIP0=%s MASK=%s INBUFF=%s"
        (zstr lZ4IO_LEGACY_BOUND) (zstr lEGACY_BLOCKSIZE) (zstr lEGACY_MAGICNUMBER) (zstr lZ4IO_MAGICNUMBER)
        (zstr lZ4IO_SKIPPABLE0) (zstr lZ4IO_SKIPPABLEMASK) (zstr iO_INBUFF_SIZE))

let () = Common.main ()
