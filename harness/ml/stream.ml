(* oracle "stream": the streaming model (Model/FastStream.v) as a session over one flat memory, and the
   linear-time evaluation of the block specification.
   Session commands (addresses and sizes are decimal integers, bytes are hex, "-" = empty):
     reset                              forget memory and all streams
     w <addr> <hex>                     the caller writes bytes
     init <sid> | rsf <sid>             LZ4_initStream | LZ4_resetStream_fast
     ld <sid> <addr> <n> <slow>         LZ4_loadDict / LZ4_loadDictSlow
     att <sid> <did|-1>                 LZ4_attach_dictionary (pointer semantics: the view is refreshed from stream <did> before each use)
     copy <sid> <did>                   memcpy of the whole LZ4_stream_t
     cont <sid> <addr> <n> <cap> <acc>  LZ4_compress_fast_continue
     fext <sid> <addr> <n>              LZ4_compress_forceExtDict
     save <sid> <addr> <n>              LZ4_saveDict
     fr|ext|dsz <sid> <addr> <n> <cap> <acc>   one-shot entry points on the stream object
     shift <sid> <delta>                state injection
   Answer of a stream command: ret consumed outlen outmd5 cur= tt= ds= dict= dctx= tab= [mem=] *)
open Lz4v
open Common

let empty_mem = mem_of_list (z 0) []
let mem = ref empty_mem
let ctxs : (int, sctx) Hashtbl.t = Hashtbl.create 16
let attached : (int, int) Hashtbl.t = Hashtbl.create 16

let getc sid = match Hashtbl.find_opt ctxs sid with Some c -> c | None -> s_init

let table_md5 (c : sctx) =
  let b = Buffer.create 16384 in
  let tt = zi c.s_tt in
  let m32 = Big_int_Z.power_int_positive_int 2 32 in
  if tt = 3 then
    for h = 0 to 8191 do
      let v = zi (Big_int_Z.mod_big_int (get c.s_tab (z h)) (z 65536)) in
      Buffer.add_char b (Char.chr (v land 255)); Buffer.add_char b (Char.chr ((v lsr 8) land 255))
    done
  else
    for h = 0 to 4095 do
      let v = zi (Big_int_Z.mod_big_int (get c.s_tab (z h)) m32) in
      Buffer.add_char b (Char.chr (v land 255)); Buffer.add_char b (Char.chr ((v lsr 8) land 255));
      Buffer.add_char b (Char.chr ((v lsr 16) land 255)); Buffer.add_char b (Char.chr ((v lsr 24) land 255))
    done;
  Digest.to_hex (Digest.string (Buffer.contents b))

let show_ctx (c : sctx) =
  Printf.sprintf "cur=%s tt=%s ds=%s dict=%s dctx=%s tab=%s" (zstr c.s_cur) (zstr c.s_tt) (zstr c.s_dictSize) (zstr c.s_dict)
    (match c.s_dctx with None -> "0" | Some _ -> "1") (table_md5 c)

let show_res ret consumed out c =
  Printf.sprintf "%s %s %s %s" (zstr ret) (zstr consumed) (show_bytes out) (show_ctx c)

(* pointer semantics of dictCtx: refresh the view from the stream it points to *)
let refresh sid =
  let c = getc sid in
  match c.s_dctx, Hashtbl.find_opt attached sid with
  | Some _, Some did ->
    let d = getc did in
    let c' = { c with s_dctx = Some (view d) } in
    Hashtbl.replace ctxs sid c'; c'
  | _ -> c

let ios = int_of_string

let () =
  reg "specdec" (function [h; b] -> show_opt (spec_decode_fast (bytes_of_hex h) (bytes_of_hex b)) | _ -> "badargs");
  reg "strict" (function [h; b] -> show_opt (strict_valid_fast (bytes_of_hex h) (bytes_of_hex b)) | _ -> "badargs");
  reg "strict_ref" (function [h; b] -> show_opt (strict_valid_fast (bytes_of_hex h) (bytes_of_hex b)) | _ -> "badargs");
  reg "reset" (function _ -> mem := empty_mem; Hashtbl.reset ctxs; Hashtbl.reset attached; "ok");
  reg "w" (function [a; d] -> mem := store_list !mem (zs a) (bytes_of_hex d); "ok" | _ -> "badargs");
  reg "init" (function [sid] -> let s = ios sid in Hashtbl.replace ctxs s s_init; Hashtbl.remove attached s;
                                show_res (z 0) (z 0) [] s_init | _ -> "badargs");
  reg "rsf" (function [sid] -> let s = ios sid in let c = resetStream_fast (refresh s) in Hashtbl.replace ctxs s c; Hashtbl.remove attached s;
                               show_res (z 0) (z 0) [] c | _ -> "badargs");
  reg "ld" (function [sid; a; n; slow] ->
      let s = ios sid in
      let (c, r) = loadDict !mem (zs a) (zs n) (slow = "1") in
      Hashtbl.replace ctxs s c; Hashtbl.remove attached s;
      show_res r (z 0) [] c | _ -> "badargs");
  reg "att" (function [sid; did] ->
      let s = ios sid and d = ios did in
      let c = refresh s in
      if d >= 0 && (getc d).s_dctx <> None then "unsupported: the dictionary stream has a dictCtx of its own" else begin
        let c' = attach_dictionary c (if d < 0 then None else Some (getc d)) in
        Hashtbl.replace ctxs s c';
        if d >= 0 then Hashtbl.replace attached s d else Hashtbl.remove attached s;
        show_res (z 0) (z 0) [] c' end
    | _ -> "badargs");
  reg "copy" (function [sid; did] ->
      let s = ios sid and d = ios did in
      let c = getc d in Hashtbl.replace ctxs s c;
      (match Hashtbl.find_opt attached d with Some x -> Hashtbl.replace attached s x | None -> Hashtbl.remove attached s);
      show_res (z 0) (z 0) [] c | _ -> "badargs");
  let finish s (r : sres) =
    Hashtbl.replace ctxs s r.r_ctx;
    if r.r_ctx.s_dctx = None then Hashtbl.remove attached s;
    show_res r.r_ret r.r_consumed r.r_out r.r_ctx in
  reg "cont" (function [sid; a; n; cap; acc] ->
      let s = ios sid in
      finish s (fast_continue !mem (refresh s) (zs a) (zs n) (zs cap) (zs acc)) | _ -> "badargs");
  reg "fext" (function [sid; a; n] ->
      let s = ios sid in
      finish s (forceExtDict !mem (refresh s) (zs a) (zs n)) | _ -> "badargs");
  reg "save" (function [sid; a; n] ->
      let s = ios sid in
      let ((m', c'), r) = saveDict !mem (refresh s) (zs a) (zs n) in
      mem := m'; Hashtbl.replace ctxs s c';
      let saved = load_list m' (zs a) r in
      show_res r (z 0) [] c' ^ " mem=" ^ Digest.to_hex (Digest.string (string_of_bytes saved))
    | _ -> "badargs");
  reg "fr" (function [sid; a; n; cap; acc] ->
      let s = ios sid in finish s (s_fastReset !mem (refresh s) (zs a) (zs n) (zs cap) (zs acc)) | _ -> "badargs");
  reg "ext" (function [sid; a; n; cap; acc] ->
      let s = ios sid in finish s (s_extState !mem (zs a) (zs n) (zs cap) (zs acc)) | _ -> "badargs");
  reg "dsz" (function [sid; a; n; cap; acc] ->
      let s = ios sid in finish s (s_destSize !mem (zs a) (zs n) (zs cap) (zs acc)) | _ -> "badargs");
  reg "shift" (function [sid; d] ->
      let s = ios sid in
      let c = shift_ctx (refresh s) (zs d) in Hashtbl.replace ctxs s c;
      show_res (z 0) (z 0) [] c | _ -> "badargs")

(* ------------------------------------------------------------------ HC streams at the LZ4MID levels (Model/HcMidStream.v)
     hinit <sid> | hrs <sid> <level> | hrsf <sid> <level> | hlvl <sid> <level>
     hld <sid> <addr> <n> | hatt <sid> <did|-1> | hcont <sid> <addr> <n> <cap> | hcds <sid> <addr> <n> <target>
     hsave <sid> <addr> <n> | hfr <sid> <addr> <n> <cap> <level> | hext <sid> <addr> <n> <cap> <level>
     himport <sid> <end> <prefixStart> <dictStart> <dictLimit> <lowLimit> <ntu> <level> <dirty> <hashTable hex (2 x 16384 LE U32)>
   Answer: ret consumed outlen outmd5 end= ps= ds= dl= ll= ntu= lvl= dirty= dctx= h4= h8= [mem=]   or   out   (call outside the model) *)
let hctxs : (int, hsctx) Hashtbl.t = Hashtbl.create 16
let hattached : (int, int) Hashtbl.t = Hashtbl.create 16
let hgetc sid = match Hashtbl.find_opt hctxs sid with Some c -> c | None -> hs_init

let mid_tab_digest (m : mem) : string =
  let n = 16384 in
  let b = Bytes.create (4 * n) in
  for i = 0 to n - 1 do
    let v = zi (get m (z i)) in
    Bytes.set b (4*i) (Char.chr (v land 255));
    Bytes.set b (4*i+1) (Char.chr ((v lsr 8) land 255));
    Bytes.set b (4*i+2) (Char.chr ((v lsr 16) land 255));
    Bytes.set b (4*i+3) (Char.chr ((v lsr 24) land 255))
  done;
  Digest.to_hex (Digest.bytes b)

let show_hctx (c : hsctx) =
  let k = c.hs_core in
  Printf.sprintf "end=%s ps=%s ds=%s dl=%s ll=%s ntu=%s lvl=%s dirty=%d dctx=%s h4=%s h8=%s"
    (zstr k.k_end) (zstr k.k_prefixStart) (zstr k.k_dictStart) (zstr k.k_dictLimit) (zstr k.k_lowLimit) (zstr k.k_ntu)
    (zstr k.k_level) (if k.k_dirty then 1 else 0) (match c.hs_dctx with None -> "0" | Some _ -> "1")
    (mid_tab_digest k.k_h4) (mid_tab_digest k.k_h8)
let show_hres ret consumed out c = Printf.sprintf "%s %s %s %s" (zstr ret) (zstr consumed) (show_bytes out) (show_hctx c)

let hrefresh sid =
  let c = hgetc sid in
  match c.hs_dctx, Hashtbl.find_opt hattached sid with
  | Some _, Some did ->
    let c' = { c with hs_dctx = Some (hgetc did).hs_core } in
    Hashtbl.replace hctxs sid c'; c'
  | _ -> c

let hfinish s (r : hsres option) =
  match r with
  | None -> "out"
  | Some (HRes (ret, consumed, out, hw, c)) ->
    Hashtbl.replace hctxs s c;
    if c.hs_dctx = None then Hashtbl.remove hattached s;
    show_hres ret consumed out c ^ " hw=" ^ zstr hw

let () =
  let set s c = Hashtbl.replace hctxs s c; show_hres (z 0) (z 0) [] c in
  reg "reset" (function _ -> mem := empty_mem; Hashtbl.reset ctxs; Hashtbl.reset attached; Hashtbl.reset hctxs; Hashtbl.reset hattached; "ok");
  reg "hinit" (function [sid] -> let s = ios sid in Hashtbl.remove hattached s; set s hs_init | _ -> "badargs");
  reg "hrs" (function [sid; l] -> let s = ios sid in Hashtbl.remove hattached s; set s (hs_resetStream (zs l)) | _ -> "badargs");
  reg "hrsf" (function [sid; l] -> let s = ios sid in let c = hs_resetFast (hrefresh s) (zs l) in Hashtbl.remove hattached s; set s c | _ -> "badargs");
  reg "hlvl" (function [sid; l] -> let s = ios sid in set s (hs_setLevel (hgetc s) (zs l)) | _ -> "badargs");
  reg "hld" (function [sid; a; n] ->
      let s = ios sid in
      (match hs_loadDict !mem (hgetc s) (zs a) (zs n) with
       | None -> "out"
       | Some (c, r) -> Hashtbl.replace hctxs s c; Hashtbl.remove hattached s; show_hres r (z 0) [] c)
    | _ -> "badargs");
  reg "hatt" (function [sid; did] ->
      let s = ios sid and d = ios did in
      let c = hs_attach (hgetc s) (if d < 0 then None else Some (hgetc d)) in
      if d >= 0 then Hashtbl.replace hattached s d else Hashtbl.remove hattached s;
      set s c
    | _ -> "badargs");
  reg "hcont" (function [sid; a; n; cap] -> let s = ios sid in hfinish s (hs_continue !mem (hrefresh s) (zs a) (zs n) (zs cap)) | _ -> "badargs");
  reg "hcds" (function [sid; a; n; cap] -> let s = ios sid in hfinish s (hs_continue_destSize !mem (hrefresh s) (zs a) (zs n) (zs cap)) | _ -> "badargs");
  reg "hsave" (function [sid; a; n] ->
      let s = ios sid in
      let ((m', c'), r) = hs_saveDict !mem (hrefresh s) (zs a) (zs n) in
      mem := m'; Hashtbl.replace hctxs s c';
      let saved = load_list m' (zs a) r in
      show_hres r (z 0) [] c' ^ " mem=" ^ Digest.to_hex (Digest.string (string_of_bytes saved))
    | _ -> "badargs");
  reg "hfr" (function [sid; a; n; cap; l] -> let s = ios sid in hfinish s (hs_fastReset !mem (hrefresh s) (zs a) (zs n) (zs cap) (zs l)) | _ -> "badargs");
  reg "hext" (function [sid; a; n; cap; l] -> let s = ios sid in Hashtbl.remove hattached s; hfinish s (hs_extState !mem (zs a) (zs n) (zs cap) (zs l)) | _ -> "badargs");
  reg "himport" (function [sid; e; ps; ds; dl; ll; ntu; lvl; dirty; tab] ->
      let s = ios sid in
      let word i = 
        let b k = hexval tab.[8*i + 2*k] * 16 + hexval tab.[8*i + 2*k + 1] in
        b 0 + 256 * b 1 + 65536 * b 2 + 16777216 * b 3 in
      let rec fill m base i = if i >= 16384 then m else
          let v = word (base + i) in fill (if v = 0 then m else store_list m (z i) [z v]) base (i + 1) in
      let h4 = fill empty_mem 0 0 and h8 = fill empty_mem 16384 0 in
      let k = { k_h4 = h4; k_h8 = h8; k_end = zs e; k_prefixStart = zs ps; k_dictStart = zs ds; k_dictLimit = zs dl; k_lowLimit = zs ll;
                k_ntu = zs ntu; k_level = zs lvl; k_dirty = (dirty = "1") } in
      let c = { hs_core = k; hs_dctx = (hgetc s).hs_dctx } in
      set s c
    | _ -> "badargs")

(* ------------------------------------------------------------------ HC streams at the hash-chain levels 3..9 (Model/HcChainStream.v) *)
let cctxs : (int, cctx) Hashtbl.t = Hashtbl.create 16
let cattached : (int, int) Hashtbl.t = Hashtbl.create 16
let cgetc sid = match Hashtbl.find_opt cctxs sid with Some c -> c | None -> cs_init

(* digests of a table of n little-endian entries of w bytes: walk the map once (a PositiveMap key is read from its least
   significant bit; Model.Mem.enc sends the index a > 0 to the positive 2a and 0 to 1) instead of n lookups *)
let tab_digest (n : int) (w : int) (def : int) (m : mem) : string =
  let b = Bytes.create (w * n) in
  let put i v = if i >= 0 && i < n then for k = 0 to w - 1 do Bytes.set b (w*i+k) (Char.chr ((v lsr (8*k)) land 255)) done in
  for i = 0 to n - 1 do put i def done;
  let rec walk (t : Big_int_Z.big_int PositiveMap.tree) (acc : int) (depth : int) =
    match t with
    | PositiveMap.Leaf -> ()
    | PositiveMap.Node (l, o, r) ->
      (match o with
       | Some v -> let key = acc lor (1 lsl depth) in
         if key = 1 then put 0 (zi v) else if key land 1 = 0 then put (key lsr 1) (zi v)
       | None -> ());
      if depth < 40 then begin walk l acc (depth + 1); walk r (acc lor (1 lsl depth)) (depth + 1) end in
  walk m 0 0;
  Digest.to_hex (Digest.bytes b)
let hash_digest (m : mem) = tab_digest 32768 4 0 m
let chain_digest (c : ctab) = tab_digest 65536 2 (zi c.ct_def) c.ct_m

let show_cctx (c : cctx) =
  let k = c.cs_hs.hs_core in
  Printf.sprintf "end=%s ps=%s ds=%s dl=%s ll=%s ntu=%s lvl=%s dirty=%d dctx=%s ht=%s ct=%s"
    (zstr k.k_end) (zstr k.k_prefixStart) (zstr k.k_dictStart) (zstr k.k_dictLimit) (zstr k.k_lowLimit) (zstr k.k_ntu)
    (zstr k.k_level) (if k.k_dirty then 1 else 0) (match c.cs_hs.hs_dctx with None -> "0" | Some _ -> "1")
    (hash_digest k.k_h4) (chain_digest c.cs_chain)
let show_cres ret consumed out c = Printf.sprintf "%s %s %s %s" (zstr ret) (zstr consumed) (show_bytes out) (show_cctx c)

let crefresh sid =
  let c = cgetc sid in
  match c.cs_hs.hs_dctx, Hashtbl.find_opt cattached sid with
  | Some _, Some did ->
    let d = cgetc did in
    let c' = { c with cs_hs = { c.cs_hs with hs_dctx = Some d.cs_hs.hs_core }; cs_dchain = d.cs_chain } in
    Hashtbl.replace cctxs sid c'; c'
  | _ -> c

let cfinish s (r : csres option) =
  match r with
  | None -> "out"
  | Some (CRes (ret, consumed, out, hw, c)) ->
    Hashtbl.replace cctxs s c;
    if c.cs_hs.hs_dctx = None then Hashtbl.remove cattached s;
    show_cres ret consumed out c ^ " hw=" ^ zstr hw

let () =
  let set s c = Hashtbl.replace cctxs s c; show_cres (z 0) (z 0) [] c in
  reg "reset" (function _ -> mem := empty_mem; Hashtbl.reset ctxs; Hashtbl.reset attached; Hashtbl.reset hctxs; Hashtbl.reset hattached;
                Hashtbl.reset cctxs; Hashtbl.reset cattached; "ok");
  reg "cinit" (function [sid] -> let s = ios sid in Hashtbl.remove cattached s; set s cs_init | _ -> "badargs");
  reg "crs" (function [sid; l] -> let s = ios sid in Hashtbl.remove cattached s; set s (cs_resetStream (zs l)) | _ -> "badargs");
  reg "crsf" (function [sid; l] -> let s = ios sid in let c = cs_resetFast (crefresh s) (zs l) in Hashtbl.remove cattached s; set s c | _ -> "badargs");
  reg "clvl" (function [sid; l] -> let s = ios sid in set s (cs_setLevel (cgetc s) (zs l)) | _ -> "badargs");
  reg "cld" (function [sid; a; n] ->
      let s = ios sid in
      (match cs_loadDict !mem (cgetc s) (zs a) (zs n) with
       | None -> "out"
       | Some (c, r) -> Hashtbl.replace cctxs s c; Hashtbl.remove cattached s; show_cres r (z 0) [] c)
    | _ -> "badargs");
  reg "catt" (function [sid; did] ->
      let s = ios sid and d = ios did in
      let c = cs_attach (cgetc s) (if d < 0 then None else Some (cgetc d)) in
      if d >= 0 then Hashtbl.replace cattached s d else Hashtbl.remove cattached s;
      set s c
    | _ -> "badargs");
  reg "ccont" (function [sid; a; n; cap] -> let s = ios sid in cfinish s (cs_continue !mem (crefresh s) (zs a) (zs n) (zs cap)) | _ -> "badargs");
  reg "ccds" (function [sid; a; n; cap] -> let s = ios sid in cfinish s (cs_continue_destSize !mem (crefresh s) (zs a) (zs n) (zs cap)) | _ -> "badargs");
  reg "csave" (function [sid; a; n] ->
      let s = ios sid in
      let ((m', c'), r) = cs_saveDict !mem (crefresh s) (zs a) (zs n) in
      mem := m'; Hashtbl.replace cctxs s c';
      if c'.cs_hs.hs_dctx = None then Hashtbl.remove cattached s;
      let saved = load_list m' (zs a) r in
      show_cres r (z 0) [] c' ^ " mem=" ^ Digest.to_hex (Digest.string (string_of_bytes saved))
    | _ -> "badargs");
  reg "cfr" (function [sid; a; n; cap; l] -> let s = ios sid in cfinish s (cs_fastReset !mem (crefresh s) (zs a) (zs n) (zs cap) (zs l)) | _ -> "badargs");
  reg "cext" (function [sid; a; n; cap; l] -> let s = ios sid in Hashtbl.remove cattached s; cfinish s (cs_extState !mem (zs a) (zs n) (zs cap) (zs l)) | _ -> "badargs");
  (* cimport sid end ps ds dl ll ntu lvl dirty <hashTable: 32768 LE U32 in hex><chainTable: 65536 LE U16 in hex> *)
  reg "cimport" (function [sid; e; ps; ds; dl; ll; ntu; lvl; dirty; tab] ->
      let s = ios sid in
      let byte i = hexval tab.[2*i] * 16 + hexval tab.[2*i + 1] in
      let word i = byte (4*i) + 256 * byte (4*i+1) + 65536 * byte (4*i+2) + 16777216 * byte (4*i+3) in
      let half i = byte (131072 + 2*i) + 256 * byte (131072 + 2*i + 1) in
      let rec fill m f n i = if i >= n then m else
          let v = f i in fill (if v = 0 then m else store_list m (z i) [z v]) f n (i + 1) in
      let ht = fill empty_mem word 32768 0 and ct = fill empty_mem half 65536 0 in
      let k = { k_h4 = ht; k_h8 = empty_mem; k_end = zs e; k_prefixStart = zs ps; k_dictStart = zs ds; k_dictLimit = zs dl; k_lowLimit = zs ll;
                k_ntu = zs ntu; k_level = zs lvl; k_dirty = (dirty = "1") } in
      let old = cgetc s in
      let c = { cs_hs = { hs_core = k; hs_dctx = old.cs_hs.hs_dctx }; cs_chain = { ct_m = ct; ct_def = z 0 }; cs_dchain = old.cs_dchain } in
      set s c
    | _ -> "badargs")

(* ------------------------------------------------------------------ HC streams at levels 3..12 (Model/HcOptStream.v: hash chain + optimal parser) *)
let octxs : (int, tctx) Hashtbl.t = Hashtbl.create 16
let oattached : (int, int) Hashtbl.t = Hashtbl.create 16
let ogetc sid = match Hashtbl.find_opt octxs sid with Some c -> c | None -> ts_init

let show_octx (c : tctx) =
  let k = c.ts_hs.hs_core in
  Printf.sprintf "end=%s ps=%s ds=%s dl=%s ll=%s ntu=%s lvl=%s dirty=%d dctx=%s ht=%s ct=%s fav=%d"
    (zstr k.k_end) (zstr k.k_prefixStart) (zstr k.k_dictStart) (zstr k.k_dictLimit) (zstr k.k_lowLimit) (zstr k.k_ntu)
    (zstr k.k_level) (if k.k_dirty then 1 else 0) (match c.ts_hs.hs_dctx with None -> "0" | Some _ -> "1")
    (hash_digest k.k_h4) (chain_digest c.ts_chain) (if c.ts_fav then 1 else 0)
let show_ores ret consumed out c = Printf.sprintf "%s %s %s %s" (zstr ret) (zstr consumed) (show_bytes out) (show_octx c)

let orefresh sid =
  let c = ogetc sid in
  match c.ts_hs.hs_dctx, Hashtbl.find_opt oattached sid with
  | Some _, Some did ->
    let d = ogetc did in
    let c' = { c with ts_hs = { c.ts_hs with hs_dctx = Some d.ts_hs.hs_core }; ts_dchain = d.ts_chain; ts_dfav = d.ts_fav } in
    Hashtbl.replace octxs sid c'; c'
  | _ -> c

let ofinish s (r : tsres option) =
  match r with
  | None -> "out"
  | Some (TRes (ret, consumed, out, hw, c)) ->
    Hashtbl.replace octxs s c;
    if c.ts_hs.hs_dctx = None then Hashtbl.remove oattached s;
    show_ores ret consumed out c ^ " hw=" ^ zstr hw

let () =
  let set s c = Hashtbl.replace octxs s c; show_ores (z 0) (z 0) [] c in
  reg "reset" (function _ -> mem := empty_mem; Hashtbl.reset ctxs; Hashtbl.reset attached; Hashtbl.reset hctxs; Hashtbl.reset hattached;
                Hashtbl.reset octxs; Hashtbl.reset oattached; "ok");
  reg "oinit" (function [sid] -> let s = ios sid in Hashtbl.remove oattached s; set s ts_init | _ -> "badargs");
  reg "ors" (function [sid; l] -> let s = ios sid in Hashtbl.remove oattached s; set s (ts_resetStream (zs l)) | _ -> "badargs");
  reg "orsf" (function [sid; l] -> let s = ios sid in let c = ts_resetFast (orefresh s) (zs l) in Hashtbl.remove oattached s; set s c | _ -> "badargs");
  reg "olvl" (function [sid; l] -> let s = ios sid in set s (ts_setLevel (ogetc s) (zs l)) | _ -> "badargs");
  reg "ofav" (function [sid; f] -> let s = ios sid in set s (ts_setFav (ogetc s) (f = "1")) | _ -> "badargs");
  reg "old" (function [sid; a; n] ->
      let s = ios sid in
      (match os_loadDict !mem (ogetc s) (zs a) (zs n) with
       | None -> "out"
       | Some (c, r) -> Hashtbl.replace octxs s c; Hashtbl.remove oattached s; show_ores r (z 0) [] c)
    | _ -> "badargs");
  reg "oatt" (function [sid; did] ->
      let s = ios sid and d = ios did in
      let c = ts_attach (ogetc s) (if d < 0 then None else Some (ogetc d)) in
      if d >= 0 then Hashtbl.replace oattached s d else Hashtbl.remove oattached s;
      set s c
    | _ -> "badargs");
  reg "ocont" (function [sid; a; n; cap] -> let s = ios sid in ofinish s (os_continue !mem (orefresh s) (zs a) (zs n) (zs cap)) | _ -> "badargs");
  reg "ocds" (function [sid; a; n; cap] -> let s = ios sid in ofinish s (os_continue_destSize !mem (orefresh s) (zs a) (zs n) (zs cap)) | _ -> "badargs");
  reg "osave" (function [sid; a; n] ->
      let s = ios sid in
      let ((m', c'), r) = ts_saveDict !mem (orefresh s) (zs a) (zs n) in
      mem := m'; Hashtbl.replace octxs s c';
      if c'.ts_hs.hs_dctx = None then Hashtbl.remove oattached s;
      let saved = load_list m' (zs a) r in
      show_ores r (z 0) [] c' ^ " mem=" ^ Digest.to_hex (Digest.string (string_of_bytes saved))
    | _ -> "badargs");
  reg "ofr" (function [sid; a; n; cap; l] -> let s = ios sid in ofinish s (os_fastReset !mem (orefresh s) (zs a) (zs n) (zs cap) (zs l)) | _ -> "badargs");
  reg "oext" (function [sid; a; n; cap; l] -> let s = ios sid in Hashtbl.remove oattached s; ofinish s (os_extState !mem (zs a) (zs n) (zs cap) (zs l)) | _ -> "badargs");
  (* cimport sid end ps ds dl ll ntu lvl dirty <hashTable: 32768 LE U32 in hex><chainTable: 65536 LE U16 in hex> *)
  reg "oimport" (function [sid; e; ps; ds; dl; ll; ntu; lvl; dirty; fav; tab] ->
      let s = ios sid in
      let byte i = hexval tab.[2*i] * 16 + hexval tab.[2*i + 1] in
      let word i = byte (4*i) + 256 * byte (4*i+1) + 65536 * byte (4*i+2) + 16777216 * byte (4*i+3) in
      let half i = byte (131072 + 2*i) + 256 * byte (131072 + 2*i + 1) in
      let rec fill m f n i = if i >= n then m else
          let v = f i in fill (if v = 0 then m else store_list m (z i) [z v]) f n (i + 1) in
      let ht = fill empty_mem word 32768 0 and ct = fill empty_mem half 65536 0 in
      let k = { k_h4 = ht; k_h8 = empty_mem; k_end = zs e; k_prefixStart = zs ps; k_dictStart = zs ds; k_dictLimit = zs dl; k_lowLimit = zs ll;
                k_ntu = zs ntu; k_level = zs lvl; k_dirty = (dirty = "1") } in
      let old = ogetc s in
      let c = { ts_hs = { hs_core = k; hs_dctx = old.ts_hs.hs_dctx }; ts_chain = { ct_m = ct; ct_def = z 0 }; ts_dchain = old.ts_dchain; ts_fav = (fav = "1"); ts_dfav = old.ts_dfav } in
      set s c
    | _ -> "badargs")


let () = Common.main ()
