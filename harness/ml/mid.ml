(* Driver for the extracted LZ4MID models (oracle "mid"). *)
open Common
open Lz4v

let cur = ref hc_init

(* digest of a table: LZMID_HASHTABLESIZE little-endian U32 entries *)
let tab_digest (m : mem) : string =
  let n = 16384 in
  let b = Bytes.create (4 * n) in
  for i = 0 to n - 1 do
    let v = zi (get m (z i)) in
    Bytes.set b (4*i) (Char.chr (v land 255));
    Bytes.set b (4*i+1) (Char.chr ((v lsr 8) land 255));
    Bytes.set b (4*i+2) (Char.chr ((v lsr 16) land 255));
    Bytes.set b (4*i+3) (Char.chr ((v lsr 24) land 255))
  done;
  Digest.to_hex (Digest.bytes b)

let show (r : hres) : string =
  Printf.sprintf "%s %s %s hw=%s end=%s dirty=%d h4=%s h8=%s" (zstr r.hr_ret) (zstr r.hr_consumed) (show_bytes r.hr_out)
    (zstr r.hr_hw) (zstr r.hr_ctx.hc_endIdx) (if r.hr_ctx.hc_dirty then 1 else 0)
    (tab_digest r.hr_ctx.hc_h4) (tab_digest r.hr_ctx.hc_h8)

let () =
  reg "midinit" (function _ -> cur := hc_init; "ok");
  (* midfr <src> <cap> : LZ4_compress_HC_extStateHC_fastReset(level 2) on the session context *)
  reg "midfr" (function [src; cap] ->
      let src = bytes_of_hex src in
      let r = compress_HC_fastReset_mid !cur (mem_of_list (z 0) src) (len src) (zs cap) in
      cur := r.hr_ctx; show r
    | _ -> "badargs");
  (* midfrn <n> <cap> : the same with an invalid size n (negative or above LZ4_MAX_INPUT_SIZE): nothing is read *)
  reg "midfrn" (function [n; cap] ->
      let r = compress_HC_fastReset_mid !cur (mem_of_list (z 0) []) (zs n) (zs cap) in
      cur := r.hr_ctx; show r
    | _ -> "badargs");
  (* midds <src> <target> : LZ4_compress_HC_destSize(level 2); the session context becomes the resulting one *)
  reg "midds" (function [src; target] ->
      let src = bytes_of_hex src in
      let r = compress_HC_destSize_mid (mem_of_list (z 0) src) (len src) (zs target) in
      cur := r.hr_ctx; show r
    | _ -> "badargs");
  (* midone <src> <cap> : LZ4_compress_HC(level 2) *)
  reg "midone" (function [src; cap] ->
      let src = bytes_of_hex src in
      show (compress_HC_mid (mem_of_list (z 0) src) (len src) (zs cap))
    | _ -> "badargs")

let () = Common.main ()
