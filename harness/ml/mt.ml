(* Driver of the extracted C13 models. *)
open Lz4v
open Common

let ints_of s = if s = "-" then [] else List.map (fun x -> zs x) (String.split_on_char ',' s)

(* wr <rank>:<hex> <rank>:<hex> ...   -> one state per arrival, separated by '|', same format as harness/c/wr_drv.c *)
let () = reg "wr" (fun args ->
  let w = ref wR_init in
  let ok = ref true in
  let lines = List.map (fun tok ->
    match String.split_on_char ':' tok with
    | [r; h] ->
      let ((w', o), k) = arrive !w (zs r) (bytes_of_hex h) in
      w := w'; if not k then ok := false;
      let outs = String.concat "" (List.map string_of_bytes o) in
      Printf.sprintf "%s %s %s %s %s" (zstr !w.wr_expected) (zstr (wr_capacity !w)) (zstr !w.wr_total)
        (hex_of_string outs)
        (String.concat "," (List.map zstr (slot_ranks !w.wr_buffers)))
    | _ -> "bad-token") args in
  (if !ok then "ok" else "FLAG") ^ "|" ^ String.concat "|" lines)


(* ------------------------------------------------------------------ pipelines *)
let kind_of = function
  | "CL" -> CompLegacy | "CF" -> CompLZ4F | "DL" -> DecLegacy | "DF" -> DecLZ4F
  | s -> failwith ("kind " ^ s)

(* cfg tokens: kind N tdepth wdepth NB PB nfull last nblocks outs *)
let cfg_of = function
  | k :: n :: td :: wd :: nb :: pb :: nfull :: last :: nblocks :: outs :: rest ->
    ({ c_kind = kind_of k; c_N = zs n; c_tdepth = zs td; c_wdepth = zs wd; c_NB = zs nb; c_PB = zs pb;
       c_nfull = zs nfull; c_last = (last = "1"); c_nblocks = zs nblocks; c_outs = ints_of outs }, rest)
  | _ -> failwith "cfg"

let nthreads c = zi c.c_N + 2

let job_str c j =
  let m a b = zstr (Big_int_Z.mod_big_int a b) in
  match j with
  | JRead k -> "R" ^ zstr k
  | JComp k -> "C" ^ zstr k
  | JWrite k -> "W" ^ zstr k
  | JDec k -> Printf.sprintf "D%s:%s:%s" (zstr k) (m k c.c_NB) (m k c.c_NB)
  | JWDec k -> Printf.sprintf "X%s:%s" (zstr k) (m k c.c_NB)
  | JFDec k -> Printf.sprintf "F%s:%s" (zstr k) (m k c.c_NB)
  | JFW j -> Printf.sprintf "Y%s:%s" (zstr j) (m j c.c_PB)

let ev_str c = function
  | EvSub (s, t, p, j) -> Printf.sprintf "%s %s sub %s %s" (zstr s) (zstr t) (match p with PT -> "t" | PW -> "w") (job_str c j)
  | EvStart (s, t, j) -> Printf.sprintf "%s %s start %s" (zstr s) (zstr t) (job_str c j)
  | EvEnd (s, t, j) -> Printf.sprintf "%s %s end %s" (zstr s) (zstr t) (job_str c j)
  | EvWr (s, t, r) -> Printf.sprintf "%s %s wr %s" (zstr s) (zstr t) (zstr r)

let trace_str c st = String.concat ";" (List.rev_map (ev_str c) st.s_trace)
let out_str st = String.concat "," (List.map (fun d -> match d with r :: _ -> zstr r | [] -> "?") st.s_out)

let picks_of s =
  if s = "-" then [] else
  List.map (fun tok -> match String.split_on_char ':' tok with
      | [t; w] -> (zs t, zs (if w = "-1" then "0" else w))
      | _ -> failwith "pick") (String.split_on_char ',' s)

let status c st =
  Printf.sprintf "final=%d err=%d viol=%d out=%s" (if final st then 1 else 0) (if st.s_err then 1 else 0)
    (if st.s_viol then 1 else 0) (out_str st)

(* successors: every enabled (t, w) with distinct effect; w matters only if the step signals a non-empty waiter set *)
let key st = Digest.string (Marshal.to_string { st with s_trace = []; s_step = z 0 } [])
let successors c st =
  let n = nthreads c in
  let acc = ref [] in
  for t = n - 1 downto 0 do
    let seen = ref [] in
    for w = n - 1 downto 0 do
      match pstep c st (z t, z w) with
      | Some st' ->
        let k = key st' in
        if not (List.mem k !seen) then begin seen := k :: !seen; acc := ((t, w), st', k) :: !acc end
      | None -> ()
    done
  done;
  !acc

(* sim <cfg> <picks> : run a schedule; "stuck <i>" when pick i is not enabled *)
let () = reg "sim" (fun args ->
  let (c, rest) = cfg_of args in
  let picks = picks_of (List.hd rest) in
  let rec go st i = function
    | [] -> (st, -1)
    | pk :: tl -> (match pstep c st pk with None -> (st, i) | Some st' -> go st' (i + 1) tl) in
  let (st, stuck) = go (init_state c) 0 picks in
  let enabled = List.length (successors c st) in
  Printf.sprintf "%s|%s enabled=%d|%s" (if stuck < 0 then "accepted" else Printf.sprintf "stuck %d" stuck) (status c st) enabled (trace_str c st))

(* gen <cfg> <strategy> <seed> : a complete schedule chosen among the enabled picks by a strategy *)
let () = reg "gen" (fun args ->
  let (c, rest) = cfg_of args in
  let (strategy, seed) = match rest with a :: b :: _ -> (a, int_of_string b) | _ -> failwith "gen args" in
  let rs = Random.State.make [| seed |] in
  let n = nthreads c in
  let writer = n - 1 in
  let last = ref 0 in
  let choose succs =
    let arr = Array.of_list succs in
    let rnd l = List.nth l (Random.State.int rs (List.length l)) in
    let filt f = List.filter f succs in
    let pref f = match filt f with [] -> rnd succs | l -> rnd l in
    ignore arr;
    match strategy with
    | "uniform" -> rnd succs
    | "slow_writer" -> if Random.State.int rs 50 = 0 then rnd succs else pref (fun ((t, _), _, _) -> t <> writer)
    | "fast_writer" -> pref (fun ((t, _), _, _) -> t = writer)
    | "slow_main" -> pref (fun ((t, _), _, _) -> t <> 0)
    | "fast_main" -> pref (fun ((t, _), _, _) -> t = 0)
    | "slow_workers" -> pref (fun ((t, _), _, _) -> t = 0 || t = writer)
    | "wake_main" -> (match filt (fun ((_, w), _, _) -> w = 0) with [] -> rnd succs | l -> if Random.State.int rs 8 = 0 then rnd succs else rnd l)
    | "wake_other" -> (match filt (fun ((_, w), _, _) -> w <> 0) with [] -> rnd succs | l -> rnd l)
    | "descending" -> let mx = List.fold_left (fun a ((t, _), _, _) -> max a t) 0 succs in
      if Random.State.int rs 6 = 0 then rnd succs else pref (fun ((t, _), _, _) -> t = mx)
    | "sticky" -> (match filt (fun ((t, _), _, _) -> t = !last) with [] -> rnd succs | l -> if Random.State.int rs 12 = 0 then rnd succs else rnd l)
    | "roundrobin" -> let rec nxt k i = if i > n then rnd succs else
                        (match filt (fun ((t, _), _, _) -> t = k mod n) with [] -> nxt (k + 1) (i + 1) | l -> rnd l) in nxt (!last + 1) 0
    | s -> failwith ("strategy " ^ s) in
  let picks = Buffer.create 1024 in
  let rec go st steps =
    if steps > 200000 then (st, "limit") else
    match successors c st with
    | [] -> (st, if final st then "complete" else "deadlock")
    | succs ->
      (* the worker threads are created by the main thread during its first step: nothing can run before it *)
      let succs = if steps = 0 then List.filter (fun ((t, _), _, _) -> t = 0) succs else succs in
      let ((t, w), st', _) = choose succs in
      last := t;
      Buffer.add_string picks (Printf.sprintf "%s%d:%d" (if Buffer.length picks = 0 then "" else ",") t w);
      go st' (steps + 1) in
  let (st, how) = go (init_state c) 0 in
  Printf.sprintf "%s|%s|%s|%s" how (status c st) (Buffer.contents picks) (trace_str c st))

(* explore <cfg> <maxstates> : every interleaving and every wake-up choice (hash-consed on the state without its trace) *)
let () = reg "explore" (fun args ->
  let (c, rest) = cfg_of args in
  let maxstates = int_of_string (List.hd rest) in
  let seen : (string, string * (int * int)) Hashtbl.t = Hashtbl.create 100003 in
  let q = Queue.create () in
  let st0 = init_state c in
  let k0 = key st0 in
  Hashtbl.replace seen k0 ("", (-1, -1));
  Queue.add (st0, k0) q;
  let nstates = ref 1 and finals = ref 0 and deadlocks = ref 0 and errs = ref 0 and viols = ref 0 in
  let maxt = ref 0 and maxw = ref 0 and trunc = ref false in
  let outs = Hashtbl.create 7 in
  let witness = ref "" and viol_witness = ref "" in
  let path k =
    let rec up k acc = match Hashtbl.find_opt seen k with
      | Some (pk, (t, w)) when t >= 0 -> up pk (Printf.sprintf "%d:%d" t w :: acc)
      | _ -> acc in
    String.concat "," (up k []) in
  while not (Queue.is_empty q) do
    let (st, k) = Queue.pop q in
    maxt := max !maxt (zi (q_len st.s_pt));
    maxw := max !maxw (zi (q_len st.s_pw));
    if st.s_err then incr errs;
    if st.s_viol then begin incr viols; if !viol_witness = "" then viol_witness := path k end;
    let succs = successors c st in
    if succs = [] then begin
      if final st then begin incr finals; Hashtbl.replace outs (out_str st) () end
      else begin incr deadlocks; if !witness = "" then witness := path k end
    end;
    List.iter (fun ((t, w), st', k') ->
        if not (Hashtbl.mem seen k') then begin
          if !nstates >= maxstates then trunc := true
          else begin
            Hashtbl.replace seen k' (k, (t, w));
            incr nstates;
            Queue.add (st', k') q
          end
        end) succs
  done;
  Printf.sprintf "states=%d truncated=%d finals=%d deadlocks=%d err=%d viol=%d maxq_t=%d maxq_w=%d outputs=%s expected=%s|%s|%s"
    !nstates (if !trunc then 1 else 0) !finals !deadlocks !errs !viols !maxt !maxw
    (String.concat "/" (Hashtbl.fold (fun k () a -> (if k = "" then "-" else k) :: a) outs []))
    (let e = String.concat "," (List.map (fun d -> match d with r :: _ -> zstr r | [] -> "?") (sequential_output c)) in if e = "" then "-" else e)
    (if !witness = "" then "-" else !witness) (if !viol_witness = "" then "-" else !viol_witness))

(* consts : the generated call-site constants, for the harness *)
let () = reg "consts" (fun _ ->
  String.concat " " (List.map zstr [tP_CL_t_depth; tP_CL_w_depth; tP_CF_t_depth; tP_CF_w_depth;
                                    tP_DL_t_depth; tP_DL_w_depth; tP_DF_t_depth; tP_DF_w_depth;
                                    rING_DL_in; rING_DL_out; rING_DF_in; rING_DF_out]))

let () = Common.main ()
