(* Driver of the extracted C13 models. *)
open Lz4v
open Common

let ints_of s = if s = "-" then [] else List.map (fun x -> zs x) (String.split_on_char ',' s)

(* wr <rank>:<hex> <rank>:<hex> ...   -> one state per arrival, separated by '|', same format as harness/c/wr_drv.c *)
let () = reg "wr" (fun args ->
  let w = ref wR_init in
  let ok = ref true in
  let lines = List.map (fun tok ->
    match String.split_on_char ':' tok with
    | [r; h] ->
      let ((w', o), k) = arrive !w (zs r) (bytes_of_hex h) in
      w := w'; if not k then ok := false;
      let outs = String.concat "" (List.map string_of_bytes o) in
      Printf.sprintf "%s %s %s %s %s" (zstr !w.wr_expected) (zstr (wr_capacity !w)) (zstr !w.wr_total)
        (hex_of_string outs)
        (String.concat "," (List.map zstr (slot_ranks !w.wr_buffers)))
    | _ -> "bad-token") args in
  (if !ok then "ok" else "FLAG") ^ "|" ^ String.concat "|" lines)

let () = Common.main ()
